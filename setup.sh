#!/bin/sh
# Offline setup: nothing is fetched or compiled beyond a syntax/semantic pass over
# every specification module and a byte-compile of the harness.
set -e
cd "$(dirname "$0")"
mkdir -p .work evidence
/venv/bin/python -m compileall -q harness check >/dev/null
fail=0
for f in spec/*.tla; do
  out=$(cd spec && java -cp /opt/veriftools/tla/tla2tools.jar:/opt/veriftools/tla/CommunityModules-deps.jar tla2sany.SANY "$(basename "$f")" 2>&1) || true
  if echo "$out" | grep -q "\*\*\* Errors\|Fatal errors\|Could not"; then echo "SANY failed: $f"; echo "$out" | tail -20; fail=1; fi
done
# numba warm-up of the jitted kernels (cached on disk by numba)
/venv/bin/python - <<'PY'
import sys
sys.path.insert(0, "/repo")
import numpy as np, sigpy as sp
sp.array_to_blocks(np.zeros([4, 4]), [2, 2], [1, 1]); sp.blocks_to_array(np.zeros([3, 3, 2, 2]), [4, 4], [2, 2], [1, 1])
PY
exit $fail
