#!/bin/sh
# Re-run every stored seeded change against the check of its property (scratch worktree, never /repo itself).
# usage: harness/seed_regress.sh [pattern]     prints one line per seed: CAUGHT / MISSED / PATCH-FAILED
cd "$(dirname "$0")/.."
for d in seeded/${1:-*}; do
  id=$(basename "$d"); prop=${id%%-*}
  S=/var/tmp/sigpy-seedreg-$$
  rm -rf "$S"; git -C /repo worktree prune
  git -C /repo worktree add -q --detach "$S" HEAD || { echo "$id WORKTREE-FAILED"; continue; }
  if ! git -C "$S" apply "$PWD/$d/patch.diff" 2>/dev/null; then echo "$id PATCH-FAILED"; git -C /repo worktree remove --force "$S"; continue; fi
  # a patch given to another property may be caught under the property it actually breaks (meta.json "caught_under")
  under=$(python3 -c "import json;print(json.load(open('$d/meta.json')).get('caught_under','$prop'))")
  out=$(SIGPY_REPO="$S" ./check "$under" 2>&1 | tail -1)
  case "$out" in *VIOLATED*) echo "$id CAUGHT ($under)";; *held*) echo "$id MISSED ($under)";; *) echo "$id ? $out";; esac
  git -C /repo worktree remove --force "$S"
done
