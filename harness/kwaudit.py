import sys, inspect, re, glob, importlib
sys.path.insert(0, '/repo')
mods = ["sigpy.linop","sigpy.alg","sigpy.app","sigpy.prox","sigpy.fourier","sigpy.interp","sigpy.conv","sigpy.block","sigpy.util","sigpy.thresh","sigpy.wavelet","sigpy.mri.app","sigpy.mri.linop","sigpy.mri.samp","sigpy.mri.util","sigpy.mri.rf.sim","sigpy.mri.rf.trajgrad","sigpy.mri.rf.slr","sigpy.mri.rf.multiband","sigpy.mri.rf.linop","sigpy.mri.rf.optcont"]
files = {f: open(f).read() for f in glob.glob('/verif/harness/**/*.py', recursive=True)}
for mn in mods:
    m = importlib.import_module(mn)
    for name, obj in vars(m).items():
        if name.startswith('_') or getattr(obj, '__module__', None) != mn: continue
        if not (inspect.isclass(obj) or inspect.isfunction(obj)): continue
        try: sig = inspect.signature(obj)
        except Exception: continue
        fs = [t for t in files.values() if re.search(r'\b%s\b' % re.escape(name), t)]
        params = list(sig.parameters.values())
        for idx, p in enumerate(params):
            if p.default is inspect._empty or p.name in ('device','comm','show_pbar','leave_pbar','repr_str','dtype'): continue
            found = any(re.search(r'\b%s\s*=|["\']%s["\']' % (re.escape(p.name), re.escape(p.name)), t) for t in fs)
            if not found:
                print("%s.%s(%s) pos=%d files=%d" % (mn.replace('sigpy.',''), name, p.name, idx, len(fs)))
