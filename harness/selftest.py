"""./check selftest : demonstrate that red is reachable (the binding is real).

 (a) trace corruption: a recorded, accepted trace with one field flipped / one event dropped
     must be rejected by TLC at that line;
 (b) spec corruption: a one-token change of a MEANING definition (in a scratch copy of spec/)
     must make the conformance replay fail on the unchanged code;
 (c) negative controls inside the engines (pinned poisson loop, pinned LLS branch) - reported;
 (d) with VERIF_SELFTEST_SEEDS=1: every seeded change under seeded/ is applied to a scratch copy of
     /repo (under /var/tmp, removed afterwards) and the checks of its property must turn red.
Exit 0 iff every expectation is met.
"""
import copy
import glob
import json
import os
import shutil
import subprocess
import sys

from . import core, tlc, tracecheck

ROOT = core.ROOT


def trace_corruption():
    ok = True
    wd = tlc.fresh_dir("selftest_trace")
    d = lambda i, mi, v: {"e": "done", "iter": i, "max_iter": mi, "done": v, "changed": 0, "breakdown": 0}
    ub = lambda i, mi: {"e": "ub", "iter": i, "max_iter": mi, "done": False, "changed": 0, "breakdown": 0}
    ue = lambda i, mi: {"e": "ue", "iter": i, "max_iter": mi, "done": False, "changed": 0, "breakdown": 0}
    good = [d(0, 2, False), ub(0, 2), ue(1, 2), d(1, 2, False), ub(1, 2), ue(2, 2), d(2, 2, True)]
    flipped = copy.deepcopy(good)
    flipped[5]["iter"] = 3                      # counter advanced by two
    dropped = good[:2] + good[3:]               # update.end event removed
    notdone = copy.deepcopy(good)
    notdone[6]["done"] = False                  # budget used up but done() False
    traces = [{"id": n, "max_iter": 2, "ev": ev} for n, ev in (("good", good), ("flipped", flipped), ("dropped", dropped), ("notdone", notdone))]
    res, rej = tracecheck.validate("AlgLoopTrace", traces, wd, constants=["MaxIters = {0}", "ExtraUpdates = 1000000"])
    exp = {"flipped": 6, "dropped": 3, "notdone": 7}
    print("  (a) AlgLoopTrace: rejected %s ; expected %s and 'good' accepted" % (rej, exp))
    ok &= (rej == exp)
    # the whole-stream nesting trace spec: an app (algorithm 1) whose update runs an inner loop of algorithm 2
    n = lambda e, o, i, mi, v=False: {"e": e, "o": o, "iter": i, "max_iter": mi, "done": v}
    good = [n("rb", 1, 0, 1), n("done", 1, 0, 1), n("ub", 1, 0, 1), n("done", 2, 0, 1), n("ub", 2, 0, 1), n("ue", 2, 1, 1), n("done", 2, 1, 1, True),
            n("ue", 1, 1, 1), n("done", 1, 1, 1, True), n("re", 1, 1, 1)]
    cross = good[:5] + [good[7], good[5], good[6]] + good[8:]       # outer update closed before the inner one (not LIFO)
    nodone = good[:1] + good[2:]                                    # App.run updates without asking done()
    early = good[:8] + good[9:]                                     # run left without done() == True
    twice = good[:3] + [n("ub", 1, 0, 1)] + good[3:]               # update re-entered
    cases = [("good", good), ("cross", cross), ("nodone", nodone), ("early", early), ("twice", twice)]
    traces = [{"id": k, "iter0": [0, 0], "budget0": [1, 1], "max_unwind": 0, "ev": ev} for k, ev in cases]
    res, rej = tracecheck.validate("NestedTrace", traces, tlc.fresh_dir("selftest_nested"), constants=["Objs <- MCObjs", "Budgets = {0}", "MaxDepth = 1000000"], defs="MCObjs == 1..2\n")
    exp = {"cross": 6, "nodone": 2, "early": 9, "twice": 4}
    print("  (a) NestedTrace: rejected %s ; expected %s and 'good' accepted" % (rej, exp))
    ok &= (rej == exp)
    return ok


CORRUPTIONS = [
    # these two keep every law of the model true: only the spec-to-code replay can (and must) notice
    ("ElementMaps.tla", "LAMBDA d, k : (k - RollOn(d - 1, axes, shifts, r)) % shape[d])", "LAMBDA d, k : (k + RollOn(d - 1, axes, shifts, r)) % shape[d])", "index_maps", "index_maps", "C09"),
    ("Interp.tla", "RMul(R(9, 8), RSq(RSub(RInt(1), ax)))", "RMul(R(5, 4), RSq(RSub(RInt(1), ax)))", "interp", "interp", "C07"),
    ("ElementMaps.tla", "DefaultShift(n, m) == Max2((n \\div 2) - (m \\div 2), 0)", "DefaultShift(n, m) == Max2(((n + 1) \\div 2) - (m \\div 2), 0)", "index_maps", "index_maps", "C09"),
    ("Conv.tla", "Offset(c, d) == IF c.mode = \"full\" THEN 0 ELSE Min2(c.m[d], c.n[d]) - 1", "Offset(c, d) == IF c.mode = \"full\" THEN 0 ELSE Min2(c.m[d], c.n[d])", "conv", "conv", "C08"),
    ("Fourier.tla", "Exponent(m, c, sgn, k, n) == (sgn * (k - c) * (n - c)) % m", "Exponent(m, c, sgn, k, n) == (sgn * (k - c) * (n - c + 1)) % m", "fourier", "fourier", "C05"),
    ("ADMM.tla", "StepU(xx, zz, uu) == TLCEval([i \\in 1..N |-> RAdd(uu[i], RSub(RAdd(", "StepU(xx, zz, uu) == TLCEval([i \\in 1..N |-> RSub(uu[i], RSub(RAdd(", "splitting", "splitting", "C15"),
    ("Newton.tla", "TooLong == RLt(RSub(F(x), RMul(RDiv(alpha, RInt(2)), lam2)), F(Move(x, alpha, dir)))", "TooLong == RLt(RSub(F(x), RMul(alpha, lam2)), F(Move(x, alpha, dir)))", "splitting", "splitting", "C15"),
    ("Trap.tla", "SlewLimit == Designed => RLe(RDiv(des.peak, RInt(des.r)), RInt(1))", "SlewLimit == Designed => RLe(RDiv(des.peak, RInt(des.r)), R(1, 2))", "trap", "trap", "C20"),
]


def spec_corruption(tier, seed):
    ok = True
    import importlib

    for fname, old, new, ename, modname, prop in CORRUPTIONS:
        sd = os.path.join(core.WORK, "selftest_spec.%d" % os.getpid())
        if os.path.isdir(sd):
            shutil.rmtree(sd)
        shutil.copytree(os.path.join(ROOT, "spec"), sd)
        p = os.path.join(sd, fname)
        s = open(p).read()
        if old not in s:
            print("  (b) %s: corruption anchor not found (machinery)" % fname)
            ok = False
            continue
        open(p, "w").write(s.replace(old, new))
        env = dict(os.environ, VERIF_SPEC_DIR=sd, VERIF_NOCACHE="1")
        code = ("import sys; sys.path.insert(0, %r)\nfrom harness import core\ncore.use_repo()\nimport importlib\nm = importlib.import_module('harness.engines.%s')\n"
                "r = m.run(core.Ctx(%r, 'quick', %d))\nprint('RESULT', len(r.violations), bool(r.machinery_error))\n" % (ROOT, modname, prop, seed))
        out = subprocess.run([sys.executable, "-c", code], env=env, stdout=subprocess.PIPE, stderr=subprocess.STDOUT, text=True, timeout=1800).stdout
        line = [l for l in out.splitlines() if l.startswith("RESULT")]
        red = bool(line) and (int(line[-1].split()[1]) > 0 or line[-1].split()[2] == "True")
        print("  (b) %s corrupted (%s): engine %s -> %s" % (fname, new[:50], ename, line[-1] if line else out[-200:]))
        ok &= red
        shutil.rmtree(sd, ignore_errors=True)
    return ok


def seeds():
    ok = True
    scratch = "/var/tmp/sigpy-verif-selftest"
    for d in sorted(glob.glob(os.path.join(ROOT, "seeded", "*"))):
        meta = json.load(open(os.path.join(d, "meta.json")))
        prop = meta["property"]
        if os.path.isdir(scratch):
            shutil.rmtree(scratch)
        subprocess.run(["git", "clone", "-q", "--shared", "/repo", scratch], check=True)
        # the clone has HEAD only: bring over uncommitted working-tree state of /repo as well
        subprocess.run("git -C /repo diff | git -C %s apply --allow-empty" % scratch, shell=True)
        a = subprocess.run(["git", "-C", scratch, "apply", os.path.join(d, "patch.diff")])
        if a.returncode != 0:
            print("  (d) %s: patch does not apply" % os.path.basename(d))
            ok = False
            continue
        env = dict(os.environ, SIGPY_REPO=scratch, VERIF_NOCACHE="1")
        p = subprocess.run([os.path.join(ROOT, "check"), prop], env=env, stdout=subprocess.PIPE, stderr=subprocess.STDOUT, text=True, timeout=3600)
        red = p.returncode == 1 and "VIOLATION property=%s" % prop in p.stdout
        print("  (d) seed %s -> ./check %s exit %d (%s)" % (os.path.basename(d), prop, p.returncode, "caught" if red else "MISSED"))
        ok &= red
        shutil.rmtree(scratch, ignore_errors=True)
    return ok


def attribution():
    """An exception is a verdict only when it starts in the package under test; a failing harness stays a machinery failure."""
    core.use_repo()

    def inside(ctx):
        import sigpy as sp

        return sp.linop.Identity([2])(__import__("numpy").zeros(3))

    def outside(ctx):
        raise ValueError("harness bug")

    def via_numpy(ctx):
        import numpy as np

        return np.zeros(2) @ np.zeros(3)

    def crash(ctx):
        os.abort()

    def killed(ctx):
        import signal

        os.kill(os.getpid(), signal.SIGKILL)

    ctx = core.Ctx("C10", "quick", 0)
    a, b, c = core._run_engine("wavelet", inside, ctx), core._run_engine("wavelet", outside, ctx), core._run_engine("wavelet", via_numpy, ctx)
    d, e = core._run_engine("wavelet", crash, ctx), core._run_engine("wavelet", killed, ctx)
    ok = (len(a.violations) == 1 and not a.machinery_error and a.violations[0].props == ["C01", "C10"]
          and b.machinery_error and not b.violations and c.machinery_error and not c.violations
          and len(d.violations) == 1 and d.violations[0].key.get("kind") == "code_crashes" and not d.machinery_error
          and e.machinery_error and not e.violations)
    print("  (e) exception raised inside sigpy -> violation %s; raised by the harness / by numpy under the harness -> machinery failure; "
          "interpreter aborted (SIGABRT) -> violation; engine killed from outside (SIGKILL) -> machinery failure: %s"
          % (a.violations[0].props if a.violations else None, "ok" if ok else "FAILED"))
    return ok


def main(tier, seed):
    print("selftest (a): trace corruption")
    ok = trace_corruption()
    ok &= attribution()
    print("selftest (b): specification corruption")
    ok &= spec_corruption(tier, seed)
    print("selftest (c): negative controls run inside ./check C18 (pinned bisection loop) and ./check C14 (pinned PDHG/G branch)")
    if os.environ.get("VERIF_SELFTEST_SEEDS"):
        print("selftest (d): seeded changes on a scratch copy")
        ok &= seeds()
    print("selftest: %s" % ("all expectations met" if ok else "FAILED"))
    return 0 if ok else 1
