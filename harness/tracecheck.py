"""Batch trace validation: recorded executions of the real code -> TLC.

validate(module, traces, ...) writes the traces as one JSON array, runs the
trace specification once (-workers 1, deadlock checking off) and returns, for
every rejected trace id, the index of the first event TLC could not match
(1-based; the trace is accepted iff the high-water mark is len(ev)+1)."""
import json
import os
import re

from . import tlc

_REJ = re.compile(r'<<"REJECT", (.+), (\d+)>>')


def validate(module, traces, workdir, spec="TraceSpec", constants=None, invariants=("TraceInv",), props=(), timeout=900,
             defs=None):
    """traces: list of dicts with keys id (int or str), ev (list of flat dicts), + per-trace params."""
    path = os.path.join(workdir, module + "_traces.json")
    with open(path, "w") as f:
        json.dump(traces, f)
    mc = "MC_" + module
    body = "EXTENDS %s\n%s" % (module, defs or "")
    cfg = "SPECIFICATION %s\nCONSTRAINT HighWater\nPOSTCONDITION Report\n" % spec
    if constants:
        cfg += "CONSTANTS\n" + "".join(" %s\n" % c for c in constants)
    cfg += "".join("INVARIANT %s\n" % i for i in invariants)
    cfg += "".join("PROPERTY %s\n" % p for p in props)
    tlc.write_mc(workdir, mc, body, cfg)
    res = tlc.run_tlc(workdir, mc, workers=1, coverage=False, timeout=timeout, env_extra={"TRACE_FILE": path})
    rejected = {}
    for m in _REJ.finditer(res.stdout):
        tid = m.group(1).strip().strip('"')
        rejected[tid] = int(m.group(2))
    return res, rejected
