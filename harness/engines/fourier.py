"""Engine fourier (C05).

TLC enumerates every fft/ifft call configuration of Fourier.tla, checks the
exact laws of the DFT-matrix meaning on integer exponents (unitarity /
inversion via cancellation of roots of unity, centre convention, conjugate
inverse, centred pad/crop, axis normalisation) and dumps the per-axis plan.
The harness realises the plan with explicit DFT matrices and compares with the
real sigpy.fft / sigpy.ifft on random and basis inputs, for complex128,
complex64 and real input; it also checks ifft(fft(x)) = x, norm preservation
and the dtype rule.
"""
import multiprocessing as mp

import numpy as np

from .. import core, tlaval, tlc

INVS = ["RootsCancel", "CentreConvention", "InverseIsConjugate", "PadCropAboutCentre", "AxesNormalised"]
_SP = None


def _sp():
    global _SP
    if _SP is None:
        core.use_repo()
        import sigpy

        _SP = sigpy
    return _SP


def dft_matrix(m, c, sgn, scale):
    k = np.arange(m) - c
    W = np.exp(sgn * 2j * np.pi * np.outer(k, k) / m)
    return W * {"isqrt": m ** -0.5, "one": 1.0, "inv": 1.0 / m}[scale]


def resize_centre(x, oshape):
    """Pad / crop about the centre: index n//2 of the input aligned with m//2 of the output (property statement)."""
    out = np.zeros(oshape, dtype=x.dtype)
    src, dst = [], []
    for n, m in zip(x.shape, oshape):
        sh = m // 2 - n // 2
        lo = max(0, -sh)
        hi = min(n, m - sh)
        src.append(slice(lo, hi))
        dst.append(slice(lo + sh, hi + sh))
    out[tuple(dst)] = x[tuple(src)]
    return out


def expected(cfg, plan, x):
    y = x.astype(np.complex128)
    osh = tuple(plan["oshape"])
    if tuple(cfg["shape"]) != osh:
        if len(plan["resize"]) > 0:  # the spec's element map
            flat = y.ravel()
            y = np.array([sum(flat[l - 1] for l in s) if s else 0 for s in plan["resize"]], dtype=np.complex128).reshape(osh)
        else:
            y = resize_centre(y, osh)
    for d, ax in enumerate(plan["axes"]):
        if ax["t"]:
            W = dft_matrix(ax["m"], ax["c"], plan["sgn"], plan["scale"])
            y = np.moveaxis(np.tensordot(W, y, axes=([1], [d])), 0, d)
    return y


def check_cfg(job):
    sp = _sp()
    cfg, plan, seed = job
    rs = np.random.RandomState(seed)
    shape = tuple(cfg["shape"])
    axes = None if len(cfg["axes"]) == 0 else (() if tuple(cfg["axes"]) == (-99,) else tuple(cfg["axes"]))   # <<-99>> = the empty subset
    osh = None if len(cfg["oshape"]) == 0 else list(cfg["oshape"])
    norm = "ortho" if cfg["ortho"] else None
    fn = sp.fft if cfg["dir"] == "fft" else sp.ifft
    inv = sp.ifft if cfg["dir"] == "fft" else sp.fft
    out = []
    x128 = (rs.randn(*shape) + 1j * rs.randn(*shape)).astype(np.complex128)
    inputs = [("complex128", x128, 1e-10), ("complex64", x128.astype(np.complex64), 2e-5), ("float64", x128.real.copy(), 2e-5)]
    # a delta at a random position as well (basis vector)
    dl = np.zeros(shape, dtype=np.complex128)
    dl.flat[rs.randint(dl.size)] = 1
    inputs.append(("delta128", dl, 1e-10))
    # coherent data near the top of the floating-point range: the unitary transform stays finite (sqrt(N) * max), any detour
    # through an unnormalised intermediate does not; and tiny data near the bottom
    if norm == "ortho":
        lens = [ax_["m"] for ax_ in plan["axes"] if ax_["t"] and ax_["m"] > 1]
        if len(lens) >= 2:
            # numpy normalises after each axis, so the largest intermediate of the documented computation is
            # m_orig = n_max * sqrt(N / n_max) times the data (largest axis last, the worst order); an implementation that
            # normalises once at the end needs N times the data.  Amplitude in between: finite for the former, overflow for the latter.
            ntr = int(np.prod(lens))
            m_orig = max(lens) * (ntr / max(lens)) ** 0.5
            a128 = np.finfo(np.float64).max / (1.4143 * (m_orig * ntr) ** 0.5)
            a64 = float(np.finfo(np.float32).max) / (1.4143 * (m_orig * ntr) ** 0.5)
            inputs.append(("huge128", np.full(shape, (1 + 1j) * a128, dtype=np.complex128), 1e-10))
            inputs.append(("huge64", np.full(shape, (1 + 1j) * a64, dtype=np.complex64), 2e-5))
        inputs.append(("tiny128", x128 * 1e-300, 1e-10))
    for name, x, tol in inputs:
        x0 = x.copy()
        try:
            y = fn(x, oshape=osh, axes=axes, center=cfg["center"], norm=norm)
        except Exception as e:
            out.append(("exception", "%s input: %s raised %r" % (name, cfg["dir"], e)))
            continue
        if not np.array_equal(x, x0):
            out.append(("input_mutated", "%s modified its input" % cfg["dir"]))
        ex = expected(cfg, plan, x)
        if tuple(y.shape) != tuple(plan["oshape"]):
            out.append(("shape", "%s input: output shape %s, expected %s" % (name, y.shape, tuple(plan["oshape"]))))
            continue
        want_dtype = x.dtype if np.issubdtype(x.dtype, np.complexfloating) else np.complex64
        if y.dtype != want_dtype:
            out.append(("dtype", "%s input gives %s output (complex input keeps its precision; real input -> complex64)" % (x.dtype, y.dtype)))
        sc = max(1.0, float(np.abs(ex).max())) if not name.startswith(("huge", "tiny")) else float(np.abs(ex).max())   # extreme magnitudes: purely relative
        if not core.allclose(y, ex, atol=tol * sc, rtol=0):
            out.append(("value", "%s input: max |%s(x) - DFT-matrix definition| = %.3g" % (name, cfg["dir"], float(np.abs(y - ex).max()))))
    y_c = fn(x128, oshape=osh, axes=axes, center=cfg["center"], norm=norm)
    # axes / oshape in other containers: lists, and tuples of NumPy integers (what shape arithmetic on arrays produces)
    for lab, conv in (("lists", list), ("NumPy integers", lambda v: tuple(np.int64(t) for t in v))):
        try:
            yv = fn(x128, oshape=None if osh is None else conv(osh), axes=None if axes is None else conv(axes), center=cfg["center"], norm=norm)
        except Exception as e:
            out.append(("exception", "%s with axes / oshape given as %s raised %r" % (cfg["dir"], lab, e)))
            continue
        if yv.shape != y_c.shape or not np.array_equal(yv, y_c):
            out.append(("value", "%s with axes / oshape given as %s differs from the call with tuples" % (cfg["dir"], lab)))
    # the same values in another memory layout (Fortran order, strided view): same transform, input untouched
    for lab, xv in core.layouts(x128):
        xv0 = xv.copy()
        yv = fn(xv, oshape=osh, axes=axes, center=cfg["center"], norm=norm)
        if yv.shape != y_c.shape or not core.allclose(yv, y_c, atol=1e-12 * max(1.0, float(np.abs(y_c).max())), rtol=0):
            out.append(("value", "%s input: %s differs from the transform of the same values in C order" % (lab, cfg["dir"])))
        if not np.array_equal(xv, xv0):
            out.append(("input_mutated", "%s modified its %s input" % (cfg["dir"], lab)))
    # the operators (no resize, orthonormal): FFT / IFFT carry axes and center to their adjoints, from either side
    if cfg["ortho"] and osh is None and x128.size <= 24:
        from . import linop_build

        try:
            Lf = (sp.linop.FFT if cfg["dir"] == "fft" else sp.linop.IFFT)(list(shape), axes=axes, center=cfg["center"])
            Li = (sp.linop.IFFT if cfg["dir"] == "fft" else sp.linop.FFT)(list(shape), axes=axes, center=cfg["center"])
            Fm, _ = linop_build.dense(Lf, check_i=False)
            want = np.stack([expected(cfg, plan, e_.reshape(shape)).ravel() for e_ in np.eye(x128.size, dtype=np.complex128)], axis=1)
            if Fm is None or not core.allclose(Fm, want, atol=1e-10):
                out.append(("linop", "linop %s differs from the DFT-matrix definition" % cfg["dir"].upper()))
            for lab, op, ref in (("H", Lf.H, want.conj().T), ("H.H", Lf.H.H, want), ("inverse-class", Li, want.conj().T), ("inverse-class.H", Li.H, want), ("N", Lf.N, np.eye(x128.size))):
                Om, _ = linop_build.dense(op, check_i=False)
                if Om is None or not core.allclose(Om, ref, atol=1e-10):
                    out.append(("linop", "linop %s(axes=%s, center=%s).%s is not the expected matrix" % (cfg["dir"].upper(), axes, cfg["center"], lab)))
        except Exception as e:
            out.append(("exception", "FFT / IFFT linop raised %r" % (e,)))
    # round trip and norm (default orthonormal scaling, no resize)
    if cfg["ortho"] and osh is None:
        y = fn(x128, axes=axes, center=cfg["center"])
        back = inv(y, axes=axes, center=cfg["center"])
        if not core.allclose(back, x128, atol=1e-10 * max(1.0, np.abs(x128).max())):
            out.append(("roundtrip", "ifft(fft(x)) != x, max err %.3g" % float(np.abs(back - x128).max())))
        if abs(np.linalg.norm(y) - np.linalg.norm(x128)) > 1e-10 * np.linalg.norm(x128):
            out.append(("norm", "orthonormal transform changed the l2 norm by %.3g" % (np.linalg.norm(y) - np.linalg.norm(x128))))
    return cfg, out


def run(ctx):
    r = core.EngineResult("fourier")
    wd = tlc.fresh_dir("fourier_%s" % ctx.tier)
    if ctx.thorough:
        shapes = "{<<n>> : n \\in 1..9} \\cup {<<a, b>> : a \\in 1..5, b \\in 1..5} \\cup {<<a, b, c>> : a \\in 1..3, b \\in 1..3, c \\in 2..4} \\cup {<<2, 1, 3, 2>>, <<3, 2, 2, 3>>}"
    else:
        shapes = "{<<n>> : n \\in 1..8} \\cup {<<a, b>> : a \\in 1..4, b \\in 1..4} \\cup {<<2, 1, 3>>, <<3, 2, 2>>, <<2, 3, 4>>, <<1, 5, 2>>} \\cup {<<2, 1, 3, 2>>}"
    body = "EXTENDS Fourier\nMCShapes == %s\nMCD == {-1, 0, 2}\n" % shapes
    cfg = "INIT Init\nNEXT Next\nCONSTANTS\n Shapes <- MCShapes\n OshapeDeltas <- MCD\n" + "".join("INVARIANT %s\n" % i for i in INVS)
    tlc.write_mc(wd, "MC_Fourier", body, cfg)
    res = tlc.run_tlc(wd, "MC_Fourier", dump=True, coverage=False, timeout=3000)
    r.add_tlc(res, "Fourier")
    if res.violated:
        r.machinery_error = "Fourier.tla: law %s fails on the DFT-matrix meaning" % res.violated
        return r
    if r.machinery_error:
        return r
    rr = ctx.rng("fourier_subset")
    jobs = []
    total = 0
    for st in tlaval.read_dump(res.dump_path):
        if st["cfg"]["dir"] == "none":
            continue
        total += 1
        if not ctx.thorough and rr.random() > 0.3 and len(st["cfg"]["shape"]) > 1:
            continue
        jobs.append((st["cfg"], st["plan"], ctx.seed * 100003 + total))
    _sp()
    with mp.get_context("fork").Pool(16) as pool:
        results = pool.map(check_cfg, jobs, chunksize=64)
    for cfg_, out in results:
        r.traces += 1
        r.evaluations += 1
        nt = any(True for _ in [0]) and (len(cfg_["axes"]) == 0 or len(cfg_["axes"]) > 0)
        r.nontrivial += 1 if (max(cfg_["shape"]) > 1) else 0
        for kind, detail in out:
            key = {"kind": kind, "dir": cfg_["dir"], "shape": list(cfg_["shape"]), "axes": list(cfg_["axes"]), "center": cfg_["center"], "ortho": cfg_["ortho"], "oshape": list(cfg_["oshape"])}
            r.violations.append(core.Violation(["C05"] + (["C02"] if kind == "input_mutated" else []) + (["C01"] if kind == "linop" else []), "fourier", key, detail, {}))
        if len(r.samples) < 5 and r.traces % 2111 == 1:
            r.samples.append({"dir": cfg_["dir"], "shape": list(cfg_["shape"]), "axes": list(cfg_["axes"]), "center": cfg_["center"], "ortho": cfg_["ortho"], "oshape": list(cfg_["oshape"])})
    r.exhaustive = bool(ctx.thorough)
    r.notes.append("%d of %d enumerated configurations replayed, each with complex128 / complex64 / float64 / delta input" % (len(jobs), total))
    r.count("C05", r.traces, r.evaluations, r.nontrivial)
    r.count("C01", r.traces, r.evaluations, r.nontrivial)
    return r
