"""Engine purity (C02, last sentence): public array functions of sigpy and
sigpy.mri.util never modify their array arguments and are deterministic.

Every function listed in the modules' __all__ that takes arrays is called
through a recording wrapper (twice per argument tuple, several tuples) and the
call traces are validated by TLC against PurityTrace.tla.  Functions that are
in-place by contract (axpy, xpay, copyto) are listed as excluded.
"""
import inspect
import zlib

import numpy as np

from .. import core, tlc, tracecheck

EXCLUDED = {"axpy": "y += a*x is the documented contract", "xpay": "y = x + a*y in place is the documented contract", "copyto": "writes into its first argument by contract",
            "randn": "random by contract (draws from the global RNG)", "monte_carlo_sure": "random probing by contract", "get_device": "no array result", "get_array_module": "no array result",
            "to_device": "device transfer only", "Device": "class", "cpu_device": "constant", "to_pytorch": "needs torch", "from_pytorch": "needs torch", "to_pytorch_function": "needs torch",
            "Communicator": "MPI", "estimate_shape": "returns a shape"}


def crc(a):
    return zlib.crc32(np.ascontiguousarray(a).tobytes()) & 0x3FFFFFFF


def recipes(sp, rs):
    """name -> list of argument tuples (positional, keyword)."""
    import sigpy.mri.util as mu

    c = lambda *s: rs.randn(*s) + 1j * rs.randn(*s)
    coord2 = rs.uniform(-3, 3, (9, 2))
    R = {
        "prod": (sp.prod, [(([2, 3, 4],), {})]),
        "vec": (sp.vec, [(([c(2, 3), c(4)],), {})]),
        "split": (sp.split, [((c(10), [[2, 3], [4]]), {})]),
        "rss": (sp.rss, [((c(3, 4),), {}), ((c(3, 4, 2),), {"axes": (0, 2)})]),
        "resize": (sp.resize, [((c(4, 5), [6, 3]), {}), ((c(4), [4]), {"ishift": [1]})]),
        "flip": (sp.flip, [((c(3, 4),), {"axes": [0]})]),
        "circshift": (sp.circshift, [((c(3, 4), [1, -2]), {})]),
        "downsample": (sp.downsample, [((c(5, 6), [2, 3]), {"shift": [1, 0]})]),
        "upsample": (sp.upsample, [((c(3, 2), [5, 6], [2, 3]), {"shift": [0, 1]})]),
        "dirac": (sp.dirac, [(([3, 4],), {})]),
        "triang": (sp.triang, [(([5, 4],), {})]),
        "hanning": (sp.hanning, [(([5, 4],), {})]),
        "leja": (sp.util.leja, [((c(6),), {})]),
        "fft": (sp.fft, [((c(4, 5),), {}), ((rs.randn(4, 5),), {"axes": [-1], "center": False})]),
        "ifft": (sp.ifft, [((c(4, 5),), {"oshape": [6, 5]})]),
        "nufft": (sp.nufft, [((c(6, 6), coord2), {})]),
        "nufft_adjoint": (sp.nufft_adjoint, [((c(9), coord2), {"oshape": [6, 6]})]),
        "toeplitz_psf": (sp.fourier.toeplitz_psf, [((coord2, [6, 6]), {})]),
        "interpolate": (sp.interpolate, [((c(5, 5), coord2), {"width": 3})]),
        "gridding": (sp.gridding, [((c(9), coord2, [5, 5]), {})]),
        "convolve": (sp.convolve, [((c(5, 4), c(2, 3)), {}), ((c(2, 2, 5), c(3, 2, 2)), {"multi_channel": True, "mode": "valid"})]),
        "convolve_data_adjoint": (sp.convolve_data_adjoint, [((c(6, 6), c(2, 3), [5, 4]), {})]),
        "convolve_filter_adjoint": (sp.convolve_filter_adjoint, [((c(6, 6), c(5, 4), [2, 3]), {})]),
        "array_to_blocks": (sp.array_to_blocks, [((c(2, 7), [3], [2]), {})]),
        "blocks_to_array": (sp.blocks_to_array, [((c(3, 3), [7], [3], [2]), {})]),
        "soft_thresh": (sp.soft_thresh, [((0.5, c(3, 4)), {}), ((0.5, rs.randn(5)), {})]),
        "hard_thresh": (sp.hard_thresh, [((0.5, c(3, 4)), {})]),
        "l1_proj": (sp.l1_proj, [((1.0, c(2, 3)), {}), ((100.0, c(2, 3)), {})]),
        "l2_proj": (sp.l2_proj, [((1.0, c(2, 3)), {})]),
        "linf_proj": (sp.linf_proj, [((0.5, c(2, 3)), {}), ((0.5, c(2, 3)), {"bias": c(2, 3)})]),
        "psd_proj": (sp.psd_proj, [((c(3, 3),), {})]),
        "elitist_thresh": (getattr(sp, "elitist_thresh", None), [((0.5, c(3, 4)), {})]),
        "fwt": (sp.fwt, [((c(8, 6),), {}), ((rs.randn(7),), {"wave_name": "haar"})]),
        "shepp_logan": (sp.shepp_logan, [(([8, 8],), {})]),
        "get_cov": (mu.get_cov, [((c(3, 10),), {}), ((c(2, 4, 5),), {})]),
        "whiten": (mu.whiten, [((c(2, 6), np.array([[2.0, 0.5], [0.5, 1.0]])), {}), ((c(3, 4, 2), np.array([[2.0, 0.5j, 0], [-0.5j, 1.0, 0.1], [0, 0.1, 3.0]])), {})]),
        "tseg_off_res_b_ct": (mu.tseg_off_res_b_ct, [((rs.randn(4, 4) * 20, 6, 2, 4e-3, 0.1), {})]),
    }
    wsh, wsl = sp.wavelet.get_wavelet_shape([8, 6], wave_name="db4", axes=None, level=None)
    R["iwt"] = (sp.iwt, [((c(*wsh), [8, 6], wsl), {})])
    try:
        tb, tct = mu.tseg_off_res_b_ct(rs.randn(3, 3) * 20, 6, 2, 4e-3, 0.1)
        tcoord = rs.uniform(-1.5, 1.5, (tb.shape[0], 2))
        R["apply_tseg"] = (mu.apply_tseg, [((c(3, 3), tcoord, tb, tct), {"fwd": True}), ((c(3, 3), tcoord, tb, tct), {"fwd": False})])
    except Exception:
        pass
    return {k: v for k, v in R.items() if v[0] is not None}


def arrays_in(args, kwargs):
    out = []

    def walk(x):
        if isinstance(x, np.ndarray):
            out.append(x)
        elif isinstance(x, (list, tuple)):
            for y in x:
                walk(y)

    for a in args:
        walk(a)
    for v in kwargs.values():
        walk(v)
    return out


def relayout(x, mode):
    """The same values in another memory layout: Fortran order, or a strided view into a larger buffer."""
    if isinstance(x, np.ndarray) and x.ndim >= 1 and x.size > 1:
        if mode == "fortran":
            return np.asfortranarray(x)
        buf = np.zeros(tuple(2 * n for n in x.shape), dtype=x.dtype)
        v = buf[tuple(slice(1, None, 2) for _ in x.shape)]
        v[...] = x
        return v
    if isinstance(x, list):
        return [relayout(y, mode) for y in x]
    if isinstance(x, tuple):
        return tuple(relayout(y, mode) for y in x)
    return x


def sig(arrs):
    h = 0
    for a in arrs:
        h = zlib.crc32(np.ascontiguousarray(a).tobytes(), h)
    return h & 0x3FFFFFFF


def run(ctx):
    core.use_repo()
    import sigpy as sp
    import sigpy.mri.util as mu

    r = core.EngineResult("purity")
    rs = ctx.nprng("purity")
    R = recipes(sp, rs)
    public = set()
    for mod in (sp.util, sp.fourier, sp.interp, sp.conv, sp.block, sp.thresh, sp.wavelet, sp.sim, mu):
        for n in getattr(mod, "__all__", []):
            public.add(n)
    uncovered = sorted(n for n in public if n not in R and n not in EXCLUDED and callable(getattr(sp, n, None) or getattr(mu, n, None)))
    traces = []
    for name, (fn, calls) in sorted(R.items()):
        ev = []
        # every recipe in three memory layouts of its array arguments (same values, hence the same argument signature: the
        # result must be the same and no layout may be written to)
        calls = [((relayout(args, m), {k_: relayout(v_, m) for k_, v_ in kw.items()}) if m else (args, kw)) + (m,) for args, kw in calls for m in (None, "fortran", "strided")]
        ref_out = {}
        for ci, (args, kw, mode) in enumerate(calls):
            for rep in range(2):
                arrs = arrays_in(args, kw)
                # bitwise determinism is demanded per layout (summation order may depend on strides); across layouts the values agree
                before = (sig(arrs) + {None: 0, "fortran": 1, "strided": 2}[mode]) & 0x3FFFFFFF
                raised = 0
                try:
                    out = fn(*args, **kw)
                    res = sig(arrays_in((out,), {})) if not np.isscalar(out) else (hash(float(np.real(out))) & 0x3FFFFFFF)
                except Exception:
                    raised, res = 1, 0
                ev.append({"args_before": before, "args_after": (sig(arrs) + {None: 0, "fortran": 1, "strided": 2}[mode]) & 0x3FFFFFFF, "result": res, "raised": raised})
                if not raised and rep == 0:
                    flat = [np.asarray(a_) for a_ in arrays_in((out,), {})] if not np.isscalar(out) else [np.asarray(out)]
                    base = ref_out.setdefault(ci // 3, flat)
                    if base is not flat and (len(base) != len(flat) or any(a_.shape != b_.shape or not core.allclose(a_, b_, rtol=1e-10, atol=1e-12, equal_nan=True) for a_, b_ in zip(base, flat))):
                        r.violations.append(core.Violation(["C02"], "purity", {"kind": "layout_dependent", "function": name, "layout": mode},
                                                           "%s: the result for %s-ordered arguments differs from the result for the same values in C order" % (name, mode), {}))
        traces.append({"id": name, "ev": ev})
    wd = tlc.fresh_dir("purity_%s" % ctx.tier)
    tres, rej = tracecheck.validate("PurityTrace", traces, wd, invariants=(), timeout=300)
    r.add_tlc(tres, "PurityTrace")
    for tid, line in rej.items():
        t = [x for x in traces if x["id"] == tid][0]
        e = t["ev"][line - 1]
        kind = "argument_mutated" if e["args_before"] != e["args_after"] else ("raised" if e["raised"] else "nondeterministic")
        r.violations.append(core.Violation(["C02"], "purity", {"kind": kind, "function": tid}, "%s: call %d of the trace rejected by PurityTrace (%s): %s" % (tid, line, kind, e), {}))
    r.traces = len(traces)
    r.evaluations = sum(len(t["ev"]) for t in traces)
    r.nontrivial = len(traces)
    r.samples.append({"function": traces[0]["id"], "calls": traces[0]["ev"][:2]})
    r.notes.append("%d public array functions traced; excluded by contract: %s; public names without a recipe: %s" % (len(traces), sorted(EXCLUDED)[:6], uncovered))
    r.count("C02", r.traces, r.evaluations, r.nontrivial)
    return r
