"""Engine conv (C08; Convolve* operators for C01).

TLC enumerates convolution configurations of Conv.tla (D, extents with the
filter shorter / equal / longer, strides, mode, channels, batch), checks the
laws of the index relation on the model and the admissibility rule, and dumps
the per-axis relation.  The harness contracts the relation against
Gaussian-integer data and filters (exact in floating point) and compares with
sigpy.convolve, convolve_data_adjoint and convolve_filter_adjoint (the two
transposes with a conjugate), checks the returned shapes, that rejected
configurations raise, and probes the four Convolve* linops for adjointness.
"""
import itertools
import multiprocessing as mp

import warnings

import numpy as np

from .. import core, tlaval, tlc
from . import linop_build

INVS = ["ShapeFormula", "FullUsesEveryPairOnce", "ValidIsCompleteOverlap", "Flipped", "RejectedIffMixed"]
_SP = None


def _sp():
    global _SP
    if _SP is None:
        core.use_repo()
        import sigpy

        _SP = sigpy
    return _SP


def gint(rs, shape):
    return (rs.randint(-3, 4, shape) + 1j * rs.randint(-3, 4, shape)).astype(np.complex128)


def triples(rel):
    """N-D list of (p, t, u) index tuples from the per-axis relations."""
    per_axis = []
    for ax in rel:
        per_axis.append([(p, t, u) for p, s in sorted(ax.items()) for (t, u) in sorted(s)])
    out = []
    for combo in itertools.product(*per_axis):
        out.append((tuple(c[0] for c in combo), tuple(c[1] for c in combo), tuple(c[2] for c in combo)))
    return out


def check_state(job):
    sp = _sp()
    st, seed = job
    c = st["cfg"]
    rs = np.random.RandomState(seed)
    D, m, n, s = c["D"], tuple(c["m"]), tuple(c["n"]), tuple(c["s"])
    mc = c["ch"] != (0, 0)
    ci, co = (c["ch"] if mc else (1, 1))
    b = tuple(c["batch"])
    dshape = b + ((ci,) if mc else ()) + m
    fshape = ((co, ci) if mc else ()) + n
    strides = None if (all(x == 1 for x in s) and seed % 2 == 0) else s
    out = []
    data, filt = gint(rs, dshape), gint(rs, fshape)
    d0, f0 = data.copy(), filt.copy()
    kw = dict(mode=c["mode"], strides=strides, multi_channel=mc)
    if st["verdict"] == "rejected":
        # a shape combination the mode does not admit must be rejected by convolve, by BOTH adjoints and by the operators
        # (there is no output shape for it: the adjoints are offered the shape scipy's 'valid' rule gives per axis)
        pguess = tuple(abs(a_ - b_) + 1 for a_, b_ in zip(m, n))
        og = gint(rs, b + ((co,) if mc else ()) + pguess)
        for what, call in (("convolve", lambda: sp.convolve(data, filt, **kw)),
                           ("convolve_data_adjoint", lambda: sp.convolve_data_adjoint(og, filt, dshape, **kw)),
                           ("convolve_filter_adjoint", lambda: sp.convolve_filter_adjoint(og, data, fshape, **kw)),
                           ("linop.ConvolveData", lambda: sp.linop.ConvolveData(list(dshape), filt, **kw)),
                           ("linop.ConvolveFilter", lambda: sp.linop.ConvolveFilter(list(fshape), data, **kw))):
            try:
                with warnings.catch_warnings():
                    warnings.simplefilter("ignore")
                    y = call()
            except Exception:
                continue
            out.append((["C08"], "inadmissible_computed", "'valid' mode with neither operand covering the other in every axis: %s returned %s instead of rejecting" % (what, getattr(y, "shape", type(y).__name__))))
        return c, out
    p = tuple(st["pshape"])
    oshape = b + ((co,) if mc else ()) + p
    B = int(np.prod(b)) if b else 1
    dd = data.reshape((B, ci) + m)
    ff = filt.reshape((co, ci) + n)
    tr = triples(st["rel"])
    exp = np.zeros((B, co) + p, dtype=np.complex128)
    for pp, tt, uu in tr:
        for j in range(co):
            for i in range(ci):
                exp[(slice(None), j) + pp] += dd[(slice(None), i) + tt] * ff[(j, i) + uu]
    exp = exp.reshape(oshape)
    try:
        y = sp.convolve(data, filt, **kw)
    except Exception as e:
        if c["mode"] == "valid" and any(a < b_ for a, b_ in zip(m, n)):
            # "computed correctly OR rejected": valid mode with the filter longer than the data on some axis may be
            # rejected (the library's own test treats ties asymmetrically); what is not allowed is a wrong answer
            return c, [([], "rejected_admissible", "")]
        return c, [(["C08"], "exception", "admissible configuration raised %r" % (e,))]
    if tuple(y.shape) != oshape:
        out.append((["C08"], "shape", "convolve returned shape %s, definition gives %s" % (y.shape, oshape)))
        return c, out
    if not np.array_equal(y, exp):
        out.append((["C08"], "value", "convolve differs from the convolution definition, max |diff| %.3g" % float(np.abs(y - exp).max())))
    if not (np.array_equal(data, d0) and np.array_equal(filt, f0)):
        out.append((["C02", "C08"], "input_mutated", "convolve modified an argument"))
    # data and filter in other memory layouts (Fortran order, strided views)
    for (lab, dv), (_, fv) in zip(core.layouts(data) or [("C", data)] * 2, core.layouts(filt) or [("C", filt)] * 2):
        dv0, fv0 = dv.copy(), fv.copy()
        try:
            yv = sp.convolve(dv, fv, **kw)
        except Exception as e:
            out.append((["C08"], "exception", "convolve raised %r for %s arguments" % (e, lab)))
            continue
        if tuple(yv.shape) != oshape or not np.array_equal(yv, exp):
            out.append((["C08"], "value", "convolve with %s arguments differs from the convolution definition" % lab))
        if not (np.array_equal(dv, dv0) and np.array_equal(fv, fv0)):
            out.append((["C02", "C08"], "input_mutated", "convolve modified a %s argument" % lab))
    # real data too
    yr = sp.convolve(data.real.copy(), filt.real.copy(), **kw)
    expr = np.zeros((B, co) + p)
    for pp, tt, uu in tr:
        for j in range(co):
            for i in range(ci):
                expr[(slice(None), j) + pp] += dd.real[(slice(None), i) + tt] * ff.real[(j, i) + uu]
    if not np.array_equal(yr, expr.reshape(oshape)) or np.iscomplexobj(yr):
        out.append((["C08"], "value_real", "convolve on real arrays differs from the definition"))
    # operands of different kinds (real data x complex filter, complex data x real filter, integer data x real filter): the
    # statement allows a rejection, never a wrong value (e.g. an imaginary part dropped by an unsafe cast)
    for dlabel, dv, fv in (("real data, complex filter", data.real.copy(), filt), ("complex data, real filter", data, filt.real.copy()),
                           ("integer data, float filter", data.real.astype(np.int64), filt.real * 0.5)):
        ddm, ffm = dv.reshape((B, ci) + m), fv.reshape((co, ci) + n)
        expm = np.zeros((B, co) + p, dtype=np.complex128)
        for pp, tt, uu in tr:
            for j in range(co):
                for i in range(ci):
                    expm[(slice(None), j) + pp] += ddm[(slice(None), i) + tt] * ffm[(j, i) + uu]
        try:
            with warnings.catch_warnings():
                warnings.simplefilter("ignore")
                ym = sp.convolve(dv, fv, **kw)
        except Exception:
            continue
        if tuple(ym.shape) != oshape or not core.allclose(ym, expm.reshape(oshape), atol=1e-9):
            out.append((["C08"], "value_mixed", "convolve with %s neither raised nor returned the convolution (max |diff| %.3g)" % (dlabel, float(np.abs(np.asarray(ym).reshape(-1) - expm.reshape(-1)).max()) if np.size(ym) == expm.size else -1)))
    # adjoints: transposes of the relation with a conjugate on the fixed argument
    o = gint(rs, oshape)
    oo = o.reshape((B, co) + p)
    expd = np.zeros((B, ci) + m, dtype=np.complex128)
    expf = np.zeros((co, ci) + n, dtype=np.complex128)
    for pp, tt, uu in tr:
        for j in range(co):
            for i in range(ci):
                expd[(slice(None), i) + tt] += oo[(slice(None), j) + pp] * np.conj(ff[(j, i) + uu])
                expf[(j, i) + uu] += np.sum(oo[(slice(None), j) + pp] * np.conj(dd[(slice(None), i) + tt]))
    try:
        ad = sp.convolve_data_adjoint(o, filt, dshape, **kw)
        af = sp.convolve_filter_adjoint(o, data, fshape, **kw)
    except Exception as e:
        out.append((["C08"], "adjoint_exception", "adjoint raised %r" % (e,)))
        return c, out
    if tuple(ad.shape) != dshape or not np.array_equal(ad, expd.reshape(dshape)):
        out.append((["C08"], "data_adjoint", "convolve_data_adjoint is not the adjoint w.r.t. the data (shape %s)" % (ad.shape,)))
    if tuple(af.shape) != fshape or not np.array_equal(af, expf.reshape(fshape)):
        out.append((["C08"], "filter_adjoint", "convolve_filter_adjoint is not the adjoint w.r.t. the filter (shape %s)" % (af.shape,)))
    # an `output` argument that does not have the shape convolve produces (a spatial axis collapsed to length 1, which NumPy
    # broadcasting would silently replicate) must be rejected by both adjoints
    if any(v > 1 for v in p):
        d_ = max(range(len(p)), key=lambda t: p[t])
        pc = tuple(1 if t == d_ else v for t, v in enumerate(p))
        oc = gint(rs, b + ((co,) if mc else ()) + pc)
        for what, call in (("convolve_data_adjoint", lambda: sp.convolve_data_adjoint(oc, filt, dshape, **kw)), ("convolve_filter_adjoint", lambda: sp.convolve_filter_adjoint(oc, data, fshape, **kw))):
            try:
                got = call()
            except Exception:
                continue
            out.append((["C08"], "inconsistent_output_accepted", "%s accepted an output of spatial shape %s although convolve produces %s (returned shape %s)" % (what, pc, p, np.shape(got))))
    # operators (C01): dense adjoint of ConvolveData / ConvolveFilter
    if int(np.prod(dshape)) <= 24 and int(np.prod(oshape)) <= 36:
        for name, A in (("ConvolveData", sp.linop.ConvolveData(list(dshape), filt, **kw)), ("ConvolveFilter", sp.linop.ConvolveFilter(list(fshape), data, **kw))):
            F, _ = linop_build.dense(A)
            G, _ = linop_build.dense(A.H)
            if F is None or G is None or list(A.oshape) != list(oshape):
                out.append((["C03"], "linop_shape", "%s advertised shape wrong" % name))
            elif not close_m(G, F.conj().T):
                out.append((["C01"], "adjoint_matrix", "<Ax,y> != <x,A^H y> for %s" % name))
            else:
                H2, _ = linop_build.dense(A.H.H, check_i=False)
                if not close_m(H2, F):
                    out.append((["C01"], "adjoint_involution", "%s.H.H does not act like the original" % name))
                Nn, _ = linop_build.dense(A.N, check_i=False)
                if not close_m(Nn, F.conj().T @ F):
                    out.append((["C04"], "normal_matrix", "%s.N differs from A^H A" % name))
                # the adjoint-type class built directly with the same mode / strides / multi_channel, and its own adjoint
                try:
                    B = (sp.linop.ConvolveDataAdjoint(list(dshape), filt, **kw) if name == "ConvolveData" else sp.linop.ConvolveFilterAdjoint(list(fshape), data, **kw))
                    Bm, _ = linop_build.dense(B, check_i=False)
                    BH, _ = linop_build.dense(B.H, check_i=False)
                    if not close_m(Bm, F.conj().T):
                        out.append((["C01"], "adjoint_matrix", "%sAdjoint(...) built directly is not the conjugate transpose of %s(...)" % (name, name)))
                    if not close_m(BH, F):
                        out.append((["C01"], "adjoint_matrix", "%sAdjoint(...).H does not act like %s(...)" % (name, name)))
                except Exception as e:
                    out.append((["C01"], "exception", "%sAdjoint raised %r" % (name, e)))
    return c, out


def close_m(a, b):
    """Matrices equal to 1e-9; a missing matrix or one of another shape is a disagreement (never an exception of the harness)."""
    return a is not None and b is not None and np.shape(a) == np.shape(b) and bool(core.allclose(a, b, atol=1e-9))


def run(ctx):
    r = core.EngineResult("conv")
    jobs = []
    for label, dims, lens, strides, chans, batches in (
        ("d1", "{1}", "{1, 2, 3, 4}", "{1, 2, 3}", "{<<0, 0>>, <<1, 1>>, <<2, 1>>, <<1, 2>>, <<2, 3>>}", "{<<>>, <<2>>}"),
        ("d2", "{2}", "{1, 2, 3}", "{1, 2}", "{<<0, 0>>, <<2, 2>>}", "{<<>>}"),
        ("d3", "{3}", "{1, 2}" if not ctx.thorough else "{1, 2, 3}", "{1, 2}", "{<<0, 0>>}" if not ctx.thorough else "{<<0, 0>>, <<2, 1>>}", "{<<>>}"),
    ):
        wd = tlc.fresh_dir("conv_%s_%s" % (label, ctx.tier))
        cfg = ("INIT Init\nNEXT Next\nCONSTANTS\n Dims = %s\n Lens = %s\n StrideVals = %s\n Channels <- MCCh\n Batches <- MCB\n" % (dims, lens, strides) + "".join("INVARIANT %s\n" % i for i in INVS))
        tlc.write_mc(wd, "MC_Conv_" + label, "EXTENDS Conv\nMCCh == %s\nMCB == %s\n" % (chans, batches), cfg)
        res = tlc.run_tlc(wd, "MC_Conv_" + label, dump=True, coverage=False, timeout=3000)
        r.add_tlc(res, label)
        if res.violated:
            r.machinery_error = "Conv.tla: law %s fails on the convolution definition" % res.violated
            return r
        if r.machinery_error:
            return r
        rr = ctx.rng("conv_subset_" + label)
        k = 0
        for st in tlaval.read_dump(res.dump_path):
            if not st["cfg"]["called"]:
                continue
            k += 1
            if not ctx.thorough and label != "d1" and rr.random() > 0.25:
                continue
            jobs.append((st, ctx.seed * 4241 + len(jobs)))
        r.notes.append("%s: %d configurations enumerated" % (label, k))
    _sp()
    with mp.get_context("fork").Pool(16) as pool:
        results = pool.map(check_state, jobs, chunksize=16)
    nrej_adm = [0]
    for c, out in results:
        r.traces += 1
        r.evaluations += 1
        r.nontrivial += 1
        for props, kind, detail in out:
            if kind == "rejected_admissible":
                nrej_adm[0] += 1
                continue
            key = {"kind": kind, "D": c["D"], "m": list(c["m"]), "n": list(c["n"]), "s": list(c["s"]), "mode": c["mode"], "channels": list(c["ch"]), "batch": list(c["batch"])}
            r.violations.append(core.Violation(props, "conv", key, detail, {}))
        if len(r.samples) < 4 and r.traces % 700 == 1:
            r.samples.append({"D": c["D"], "m": list(c["m"]), "n": list(c["n"]), "s": list(c["s"]), "mode": c["mode"], "channels": list(c["ch"]), "batch": list(c["batch"])})
    r.exhaustive = bool(ctx.thorough)
    r.notes.append("%d configurations replayed (convolve, both adjoints, rejection, Convolve* linops); %d admissible valid-mode configurations with a longer filter were rejected by the library (allowed)" % (len(jobs), nrej_adm[0]))
    for p in ("C08", "C01", "C04"):
        r.count(p, r.traces, r.evaluations, r.nontrivial)
    return r
