"""Engine poisson (C18).

Design: TLC checks PoissonSearch.tla (safety + liveness of the slope bisection
on a float lattice with an arbitrary acceleration function); the pinned loop is
kept as a negative control (CollapseCheck = FALSE must violate Terminates).
Binding: poisson() is run on the real code with _poisson wrapped, under a
watchdog; every call becomes a trace (probes + outcome facts) validated by TLC
against PoissonTrace.tla.
"""
import signal
import time
import zlib

import numpy as np

from .. import core, tlc, tracecheck


class Watchdog(Exception):
    pass


def _alarm(signum, frame):
    raise Watchdog()


def rng_crc():
    st = np.random.get_state()
    return zlib.crc32(st[1].tobytes() + bytes(str(st[2:]), "ascii")) & 0x3FFFFFFF


def ellipse_r(img_shape, calib):
    ny, nx = img_shape
    y, x = np.mgrid[:ny, :nx]
    x = np.maximum(abs(x - nx / 2) - calib[-1] / 2, 0)
    x = x / x.max()
    y = np.maximum(abs(y - ny / 2) - calib[-2] / 2, 0)
    y = y / y.max()
    return np.sqrt(x ** 2 + y ** 2)


def record_call(samp, args, memo, budget_s):
    """Run one poisson(**args) call; returns a trace dict."""
    img_shape, accel, tol = args["img_shape"], args["accel"], args.get("tol", 0.1)
    calib = args.get("calib", (0, 0))
    crop = args.get("crop_corner", True)
    probes = []
    orig = samp._poisson

    def wrapper(nx, ny, max_attempts, radius_x, radius_y, calib_, seed=None):
        # "hang" is decided by counting, not by the wall clock: a float bisection collapses within ~1080 halvings,
        # so more than 1300 probes is a loop that does not end; the alarm is re-armed per probe and only catches a
        # probe (the Bridson loop itself) that does not return.
        if len(probes) >= 1300:
            raise Watchdog()
        signal.alarm(int(budget_s))
        m = orig(nx, ny, max_attempts, radius_x, radius_y, calib_, seed)
        probes.append({"proxy": float(max(radius_x.max(), radius_y.max())), "mask": m})
        return m

    crc0 = rng_crc()
    samp._poisson = wrapper
    old = signal.signal(signal.SIGALRM, _alarm)
    signal.alarm(int(budget_s))
    outcome, mask, err = "mask", None, ""
    t0 = time.time()
    try:
        mask = samp.poisson(**args)
    except ValueError as e:
        outcome, err = "error", str(e)
    except Watchdog:
        outcome = "timeout"
    except Exception as e:  # any other exception is not the documented error
        outcome, err = "exception", repr(e)
    finally:
        signal.alarm(0)
        signal.signal(signal.SIGALRM, old)
        samp._poisson = orig
    wall = time.time() - t0
    crc1 = rng_crc()
    # classification of every probe from the (cropped, in place) mask poisson looked at
    size = img_shape[-1] * img_shape[-2]
    for p in probes:
        if p["proxy"] != p["proxy"]:  # NaN radius (calibration region = whole image): no order information
            p["proxy"] = -1.0
    proxies = sorted({p["proxy"] for p in probes})
    ev = []
    seen = set()
    for p in probes[:1300]:
        ns = float(np.sum(p["mask"]))
        actual = size / ns if ns > 0 else float("inf")
        cls = "ok" if abs(actual - accel) < tol else ("lo" if actual < accel else "hi")
        ev.append({"e": "probe", "rank": proxies.index(p["proxy"]) + 1, "cls": cls, "tie": int(p["proxy"] in seen or p["proxy"] == -1.0)})
        seen.add(p["proxy"])
    call = {"e": "call", "outcome": outcome, "nonbinary": 0, "size": int(size), "nsamp": 1, "accel1000": int(round(accel * 1000)),
            "tol1000": int(round(tol * 1000)), "calib_missing": 0, "outside_ellipse": 0, "rng_same": int(crc0 == crc1), "same_as_first": 1}
    key = repr(sorted((k, str(v)) for k, v in args.items()))
    if outcome == "mask":
        m = np.asarray(mask)
        call["nonbinary"] = int(np.sum((m != 0) & (m != 1))) + (0 if m.dtype == np.dtype(args.get("dtype", np.complex128)) else 1) + (0 if m.shape == tuple(img_shape) else 1)
        call["nsamp"] = max(int(round(float(np.sum(np.abs(m))))), 1)
        ny, nx = img_shape
        blk = m[int(ny / 2 - calib[-2] / 2): int(ny / 2 + calib[-2] / 2), int(nx / 2 - calib[-1] / 2): int(nx / 2 + calib[-1] / 2)]
        call["calib_missing"] = int(np.sum(blk == 0))
        if crop:
            call["outside_ellipse"] = int(np.sum(m[ellipse_r(img_shape, calib) >= 1] != 0))
        sig = zlib.crc32(np.ascontiguousarray(m).tobytes()) & 0x3FFFFFFF
    else:
        sig = outcome
    if key in memo:
        call["same_as_first"] = int(memo[key] == sig)
    else:
        memo[key] = sig
    ev.append(call)
    return {"id": "", "nrank": len(proxies), "ev": ev, "args": {k: (list(v) if isinstance(v, tuple) else (v.__name__ if isinstance(v, type) else v)) for k, v in args.items()},
            "wall_s": round(wall, 2), "err": err}


def arg_sets(ctx):
    rng = ctx.rng("poisson_args")
    A = []
    shapes = [(16, 16), (32, 32), (24, 40), (48, 32), (64, 64)] + ([(128, 128), (96, 128), (17, 33), (128, 64)] if ctx.thorough else [])
    accels = [1.5, 2.0, 3.0, 4.0, 6.0, 8.0, 11.5, 12.0]
    for sh in shapes:
        for _ in range(8 if ctx.thorough else 3):
            acc = rng.choice(accels)
            cal = rng.choice([(0, 0), (4, 4), (8, 6), (5, 7), (sh[0] // 2, sh[1] // 4)])
            a = {"img_shape": sh, "accel": acc, "calib": cal, "tol": rng.choice([0.1, 0.1, 0.2, 0.5, 0.5, 0.01]), "seed": rng.choice([0, 1, 7, 123]),
                 "crop_corner": rng.choice([True, True, False])}
            if rng.random() < 0.3:
                a["dtype"] = rng.choice([np.float32, np.complex64, np.float64])
            if rng.random() < 0.25:
                a["max_attempts"] = rng.choice([10, 60])
            if a["crop_corner"] and rng.random() < 0.4:
                a["crop_corner"] = rng.choice([np.bool_(True), 1])      # a truthy flag that is not the builtin True
            A.append(a)
    # curated requests, one per clause (independent of the random draws above, so that the set keeps covering them):
    # non-square calibration regions in both orientations with corner cropping, odd calibration sizes, rectangular images,
    # a truthy non-bool flag, every dtype
    A.append({"img_shape": (64, 64), "accel": 4.0, "calib": (4, 24), "tol": 0.5, "seed": 3, "crop_corner": True})
    A.append({"img_shape": (64, 64), "accel": 4.0, "calib": (24, 4), "tol": 0.5, "seed": 3, "crop_corner": True})
    A.append({"img_shape": (32, 48), "accel": 3.0, "calib": (5, 7), "tol": 0.5, "seed": 1, "crop_corner": True})
    A.append({"img_shape": (48, 32), "accel": 3.0, "calib": (7, 3), "tol": 0.5, "seed": 1, "crop_corner": np.bool_(True), "dtype": np.float32})
    A.append({"img_shape": (40, 40), "accel": 6.0, "calib": (9, 9), "tol": 0.5, "seed": 0, "crop_corner": False, "dtype": np.complex64})
    A.append({"img_shape": (32, 32), "accel": 11.5, "calib": (12, 12), "tol": 0.1, "seed": 5, "crop_corner": True})          # cannot be met: must raise, RNG untouched
    # the two argument tuples that used to hang, and boundary requests
    A.append({"img_shape": (16, 16), "accel": 11.5})
    A.append({"img_shape": (32, 32), "accel": 4, "tol": 0.001})
    A.append({"img_shape": (32, 32), "accel": 1.001, "tol": 0.01})
    A.append({"img_shape": (16, 16), "accel": 2.0, "calib": (16, 16)})
    return A


def run(ctx):
    core.use_repo()
    import sigpy.mri.samp as samp

    r = core.EngineResult("poisson")
    wd = tlc.fresh_dir("poisson_%s" % ctx.tier)
    N = 7 if ctx.thorough else 6
    body = "EXTENDS PoissonSearch\n"
    for cc, label in (("TRUE", "repaired"), ("FALSE", "pinned_negative_control")):
        cfg = "SPECIFICATION Spec\nCONSTANTS\n N = %d\n CollapseCheck = %s\nINVARIANT TypeOK\nINVARIANT OkIsWithinTol\nPROPERTY IntervalShrinks\nPROPERTY Terminates\n" % (N, cc)
        tlc.write_mc(wd, "MC_PoissonSearch_" + label, body, cfg)
        res = tlc.run_tlc(wd, "MC_PoissonSearch_" + label, workers=8, timeout=900, coverage=(cc == "TRUE"))
        if cc == "TRUE":
            r.add_tlc(res, "PoissonSearch")
            if res.violated:
                r.machinery_error = "PoissonSearch.tla (repaired loop) violates %s" % res.violated
                return r
        else:
            r.states += res.distinct
            r.transitions += res.generated
            if res.violated is None or "Terminates" not in (res.stdout or ""):
                r.machinery_error = "negative control lost: the pinned bisection loop no longer violates Terminates in TLC (vacuity guard)"
                return r
            r.notes.append("negative control: TLC reports the non-terminating lasso for the loop without the collapse test")
    # ---- binding: record real calls
    memo = {}
    traces = []
    sets = arg_sets(ctx)
    rs = ctx.nprng("poisson_perturb")
    k = 0
    for args in sets:
        for rep in range(2):
            # perturb numpy's global RNG differently before every call
            np.random.seed(int(rs.randint(0, 2 ** 31 - 1)))
            np.random.rand(int(rs.randint(1, 50)))
            if k % 2 == 0:
                np.random.randn(2 * int(rs.randint(0, 4)) + 1)   # an odd number of normal draws leaves a cached Gaussian in the state
            t = record_call(samp, dict(args), memo, 120)
            k += 1
            t["id"] = "call%d" % k
            traces.append(t)
    slim = [{"id": t["id"], "nrank": t["nrank"], "ev": [dict({"rank": 0, "cls": "none", "tie": 0, "outcome": "none", "nonbinary": 0, "size": 0, "nsamp": 1, "accel1000": 0, "tol1000": 0,
                                                              "calib_missing": 0, "outside_ellipse": 0, "rng_same": 1, "same_as_first": 1}, **e) for e in t["ev"]]} for t in traces]
    res, rej = tracecheck.validate("PoissonTrace", slim, wd, timeout=900)
    r.add_tlc(res, "PoissonTrace")
    byid = {t["id"]: t for t in traces}
    for tid, line in rej.items():
        t = byid[tid]
        cur = t["ev"][line - 1] if line - 1 < len(t["ev"]) else None
        kind = "probe_outside_interval" if cur and cur["e"] == "probe" else "contract"
        if cur and cur["e"] == "call":
            c = cur
            if c["outcome"] == "timeout":
                kind = "hang"
            elif c["outcome"] == "exception":
                kind = "unexpected_exception"
            elif c["rng_same"] != 1:
                kind = "rng_state_changed"
            elif c["same_as_first"] != 1:
                kind = "not_reproducible"
            elif c["outcome"] == "mask" and c["nonbinary"]:
                kind = "not_binary_or_wrong_dtype"
            elif c["outcome"] == "mask" and c["calib_missing"]:
                kind = "calibration_incomplete"
            elif c["outcome"] == "mask" and c["outside_ellipse"]:
                kind = "sample_outside_ellipse"
            elif c["outcome"] == "mask":
                kind = "accel_outside_tol"
            else:
                kind = "error_although_within_tol"
        r.violations.append(core.Violation(["C18"], "poisson", {"kind": kind, "args": t["args"]},
                                           "poisson(%s): trace rejected by PoissonTrace at event %d: %s %s" % (t["args"], line, cur, t["err"]), {"trace": {k2: v for k2, v in t.items()}}))
    r.traces += len(traces)
    r.evaluations += len(traces)
    r.nontrivial += sum(1 for t in traces if sum(1 for e in t["ev"] if e["e"] == "probe") >= 2)
    nerr = sum(1 for t in traces if t["ev"][-1]["outcome"] == "error")
    r.notes.append("%d poisson calls (%d masks, %d ValueErrors), %d probes in total" % (len(traces), len(traces) - nerr, nerr, sum(len(t["ev"]) - 1 for t in traces)))
    for t in traces[:2] + [t for t in traces if t["ev"][-1]["outcome"] == "error"][:1]:
        r.samples.append({"args": t["args"], "events": t["ev"][:4] + t["ev"][-1:], "wall_s": t["wall_s"]})
    r.count("C18", r.traces, r.evaluations, r.nontrivial)
    return r
