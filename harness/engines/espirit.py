"""Engine espirit (C17; PowerMethod clause of C15).

PowerMethod.tla: exact integer power iteration on curated PSD matrices, TLC
checks monotonicity and the lambda_max bound, states are replayed on the real
PowerMethod.  EspiritCalib is stepped on random and synthetic k-space (2-D and
3-D, 2-8 coils, several calib / kernel widths, thresholds and crops); the
per-iteration and output facts are validated by TLC against EspiritTrace.tla.
"""
from fractions import Fraction

import numpy as np

from .. import core, tlaval, tlc, tracecheck


def fx(v):
    v = float(v)
    if not np.isfinite(v):
        return 2000000000
    return int(min(2e9, round(abs(v) * 1e9)))


def birdcage(nc, shape, rs):
    """Smooth synthetic coil maps (complex), rss-normalised."""
    grids = np.meshgrid(*[np.linspace(-1, 1, n) for n in shape], indexing="ij")
    maps = []
    for c in range(nc):
        ang = 2 * np.pi * c / nc
        cx = [1.5 * np.cos(ang), 1.5 * np.sin(ang)] + [0.3 * (c % 2)] * (len(shape) - 2)
        r2 = sum((g - cx[i]) ** 2 for i, g in enumerate(grids))
        ph = np.exp(1j * (ang + 0.5 * grids[0] * np.cos(ang) + 0.5 * grids[1] * np.sin(ang)))
        maps.append(ph / (0.5 + r2))
    maps = np.array(maps)
    return maps / np.sqrt((np.abs(maps) ** 2).sum(0, keepdims=True))


def record(sp, rs, k, thorough):
    import sigpy.mri as mr

    synthetic = k % 2 == 0
    ndim = 3 if (k % 5 == 4) else 2
    if synthetic:
        # the setting of the property's recovery clause: fully sampled k-space of smooth (birdcage) maps times an image
        from sigpy.mri import sim as msim

        # even, odd and rectangular fields of view (the centre convention of every transform involved differs for odd lengths)
        shape = [(16, 16), (17, 17), (16, 21), (15, 18)][(k // 2) % 4] if ndim == 2 else [(12, 12, 12), (11, 12, 13)][(k // 10) % 2]
        nc = int(rs.choice([4, 6, 8]))
        nc_default = False
        # calibration region inside the acquired k-space (a zero-padded calibration region with a low threshold
        # does not recover the maps: measured error 0.1-0.2, outside the property's premise "fully sampled")
        calib_width = int(rs.choice([12, 16])) if ndim == 2 else 12
        kernel_width = int(rs.choice([4, 6])) if ndim == 2 else 4
        thresh = float(rs.choice([0.01, 0.02, 0.05]))
        if k % 6 == 0 and ndim == 2 and shape == (16, 16):
            nc_default = True
        crop = float(rs.choice([0.0, 0.8, 0.95]))
        max_iter = int(rs.choice([30, 100]))
        if nc_default:   # the repository test's configuration (defaults, 8 coils)
            nc, calib_width, kernel_width, thresh, crop, max_iter = 8, 24, 6, 0.02, 0.95, 100
        maps = msim.birdcage_maps((nc,) + shape)
        maps = maps / np.sqrt((np.abs(maps) ** 2).sum(0, keepdims=True))
        img = np.ones(shape)
        ksp = sp.fft(maps * img, axes=range(-ndim, 0))
    else:
        n = int(rs.choice([12, 16])) if ndim == 2 else 8
        shape = (n,) * ndim if ndim == 3 else (n, int(rs.choice([n, n + 4])))
        nc = int(rs.choice([2, 3, 4, 8] if thorough else [2, 4, 6]))
        calib_width = int(rs.choice([8, 12]))
        kernel_width = int(rs.choice([3, 4]))
        thresh = float(rs.choice([0.01, 0.02, 0.05]))
        crop = float(rs.choice([0.0, 0.8, 0.95]))
        max_iter = int(rs.choice([10, 30]))
        ksp = rs.randn(nc, *shape) + 1j * rs.randn(nc, *shape)
        maps = None
    if k % 4 == 1 or k % 8 == 2:
        ksp = np.asfortranarray(ksp)       # a Fortran-ordered acquisition is the same data
    if not synthetic and k % 6 == 1:
        ksp[0] *= 1e-18                    # a first coil that is almost (not exactly) silent: the phase reference must not rescale the maps
    ksp0 = ksp.copy()
    np.random.seed(k)
    app = mr.app.EspiritCalib(ksp, calib_width=calib_width, thresh=thresh, kernel_width=kernel_width, crop=crop, max_iter=max_iter, output_eigenvalue=True, show_pbar=False)
    ev = []
    prev = None
    alg = app.alg
    while not alg.done() and alg.iter <= max_iter + 2:
        alg.update()
        eig = np.real(np.asarray(alg.max_eig))
        nrm = np.sqrt((np.abs(app.mps) ** 2).sum(axis=-2))
        edec = 0.0 if prev is None else float(np.max(prev - eig))
        ev.append({"e": "it", "iter": int(alg.iter), "ndev": fx(np.nanmax(np.abs(nrm - 1)) if np.isfinite(nrm).all() else 2.0), "edec": fx(max(edec, 0.0)), "emax": fx(eig.max()),
                   "neither": 0, "zero_above_crop": 0, "nonzero_below_crop": 0, "im0": 0, "negre0": 0, "emin_neg": 0, "interior_err": 0, "misaligned": 0})
        prev = eig
    mps, max_eig = app._output()
    mps = np.asarray(mps)
    max_eig = np.real(np.asarray(max_eig))
    tie = 0
    mps_rec = mps.copy()                 # the recovery / alignment clauses are evaluated on the run with the configured crop
    if k % 3 == 0 and np.isfinite(max_eig).all():
        # a crop threshold that some voxel's eigenvalue equals bit for bit (the run is repeated with the same random start): the
        # statement is "zero wherever the eigenvalue does not EXCEED the threshold"
        crop = float(np.sort(max_eig.ravel())[max_eig.size // 2])     # an attained value
        np.random.seed(k)
        app2 = mr.app.EspiritCalib(ksp, calib_width=calib_width, thresh=thresh, kernel_width=kernel_width, crop=crop, max_iter=max_iter, output_eigenvalue=True, show_pbar=False)
        while not app2.alg.done():
            app2.alg.update()
        mps, max_eig = app2._output()
        mps = np.asarray(mps)
        max_eig = np.real(np.asarray(max_eig))
        tie = int(np.sum(max_eig == crop))
    vn = np.sqrt((np.abs(mps) ** 2).sum(0))
    is_zero = (mps == 0).all(0)
    is_unit = np.abs(vn - 1) <= 1e-6
    neither = int(np.sum(~(is_zero | is_unit))) + int(np.sum(~np.isfinite(vn)))
    interior_err = 0.0
    misaligned = 0
    if synthetic:
        sl = tuple(slice(4, s - 4) for s in shape)     # interior of the field of view, as in the repository's own test
        interior_err = float(np.max(np.abs(np.abs(mps_rec[(slice(None),) + sl]) - np.abs(maps[(slice(None),) + sl]))))
        # alignment: the recovered magnitudes must fit the true maps better than the true maps displaced by one voxel along any
        # axis (a centre-convention slip on odd lengths shifts the maps by exactly one voxel)
        rms = lambda ref: float(np.sqrt(np.mean((np.abs(mps_rec[(slice(None),) + sl]) - np.abs(ref[(slice(None),) + sl])) ** 2)))
        e0 = rms(maps)
        es = min(rms(np.roll(maps, sgn, axis=ax + 1)) for ax in range(ndim) for sgn in (-1, 1))
        # (2-D only: in the 3-D configurations the interior is 4-5 voxels wide and the maps vary too slowly for the comparison
        #  to be decisive - measured: it fails for half of the unchanged 12^3 runs; there the magnitude bound below is tight)
        misaligned = int(e0 > es) if ndim == 2 else 0
    ev.append({"e": "out", "iter": int(alg.iter), "ndev": 0, "edec": 0, "emax": fx(max_eig.max()),
               "neither": neither, "zero_above_crop": int(np.sum(is_zero & (max_eig > crop))), "nonzero_below_crop": int(np.sum(~is_zero & ~(max_eig > crop))),
               "im0": fx(np.nanmax(np.abs(np.imag(mps[0])))), "negre0": fx(max(-np.nanmin(np.real(mps[0])), 0.0)), "emin_neg": int(np.sum(max_eig < -1e-9)),
               "interior_err": fx(interior_err), "misaligned": misaligned})
    pure = bool(np.array_equal(ksp, ksp0))
    # recovery bound: 1.5 % for the repository test's configuration (measured 0.52 %), 6 % for the other synthetic families (measured worst 2.7 %)
    # 3-D synthetic runs: 3 % (measured worst 0.9 % on even and odd shapes; a one-voxel displacement leaves 5.6 %)
    recover_tol = 15000000 if (synthetic and calib_width == 24) else (30000000 if ndim == 3 else 60000000)
    return {"id": "esp%d" % k, "max_iter": max_iter, "synthetic": int(synthetic), "recover_tol": recover_tol, "ev": ev,
            "meta": {"shape": list(shape), "coils": nc, "calib_width": calib_width, "kernel_width": kernel_width, "thresh": thresh, "crop": crop, "synthetic": synthetic, "ksp_unchanged": pure, "voxels_tied_with_crop": tie}}


CASES = [("<<<<2, 0>>, <<0, 1>>>>", 2), ("<<<<2, 1>>, <<1, 2>>>>", 3), ("<<<<1, 1>>, <<1, 1>>>>", 2), ("<<<<2, 0>>, <<0, 2>>>>", 2), ("<<<<2, 2>>, <<2, 2>>>>", 4),
         ("<<<<2, 1, 0>>, <<1, 2, 0>>, <<0, 0, 3>>>>", 3), ("<<<<1, 1, 1>>, <<1, 1, 1>>, <<1, 1, 1>>>>", 3),
         # operators on IMAGES (the iterate is a 2-D / 3-D array): 4 and 6 unknowns; the top eigenvector of the first is the
         # full-rank matrix [[1, 0], [0, 1]], the others are Kronecker products (rank-one top eigenvector, transient is not)
         ("<<<<2, 0, 0, 1>>, <<0, 1, 0, 0>>, <<0, 0, 1, 0>>, <<1, 0, 0, 2>>>>", 3),
         ("<<<<4, 0, 2, 0>>, <<0, 2, 0, 1>>, <<2, 0, 4, 0>>, <<0, 1, 0, 2>>>>", 6),
         ("<<<<2, 1, 0, 2, 1, 0>>, <<1, 2, 0, 1, 2, 0>>, <<0, 0, 3, 0, 0, 3>>, <<2, 1, 0, 2, 1, 0>>, <<1, 2, 0, 1, 2, 0>>, <<0, 0, 3, 0, 0, 3>>>>", 6)]
ARRAY_SHAPES = {2: [[2], [2, 1], [1, 2]], 3: [[3], [3, 1], [1, 1, 3]], 4: [[4], [2, 2], [4, 1], [2, 1, 2]], 6: [[6], [2, 3], [3, 2], [1, 2, 3]]}


def run(ctx):
    import sigpy as sp

    r = core.EngineResult("espirit")
    wd = tlc.fresh_dir("espirit_%s" % ctx.tier)
    body = ("EXTENDS PowerMethod\nMCCases == {%s}\nMCStarts(n) == IF n = 2 THEN {<<a, b>> : a \\in {-1, 0, 1, 2}, b \\in {-1, 0, 3}} ELSE IF n = 3 THEN {<<a, b, c>> : a \\in {-1, 0, 2}, b \\in {0, 1}, c \\in {-1, 1}}\n"
            "  ELSE IF n = 4 THEN {<<a, b, c, d>> : a \\in {-1, 2}, b \\in {0, 1}, c \\in {-1, 1}, d \\in {0, 1, 3}} ELSE {<<a, b, 1, 0, c, d>> : a \\in {-1, 2}, b \\in {0, 1}, c \\in {-1, 1}, d \\in {0, 2}}\n"
            % ", ".join("<<%s, %d, %d>>" % (c[0], c[1], 3 if c[1] >= 6 else 4) for c in CASES))
    cfg = "INIT Init\nNEXT Next\nCONSTANTS\n Cases <- MCCases\n Starts <- MCStarts\n MaxUpdates = %d\nINVARIANT Monotone\nINVARIANT BelowLambdaMax\n" % (4 if ctx.thorough else 4)
    tlc.write_mc(wd, "MC_PowerMethod", body, cfg)
    res = tlc.run_tlc(wd, "MC_PowerMethod", dump=True, coverage=False, timeout=900)
    r.add_tlc(res, "PowerMethod")
    if res.violated:
        r.violations.append(core.Violation(["C15"], "espirit", {"kind": "spec_invariant", "invariant": res.violated}, "TLC: %s fails on PowerMethod.tla" % res.violated, {}))
        return r
    if r.machinery_error:
        return r
    nrep = 0
    for st in tlaval.read_dump(res.dump_path):
        if st["k"] == 0:
            continue
        nrep += 1
        A = np.array(st["A"], dtype=np.float64)
        want = float(Fraction(st["est2"][0], st["est2"][1]))
        # the iterate as the array a caller holds: a vector, a column, an image, a volume (the operator acts on the flattened array)
        for shape in ARRAY_SHAPES[len(st["v0"])]:
            for cplx in (False, True):
                x = np.array(st["v0"], dtype=np.complex128 if cplx else np.float64).reshape(shape) * ((0.6 + 0.8j) if cplx else 1.0)
                if len(shape) >= 2 and min(shape) > 1 and not cplx:
                    x = np.asfortranarray(x)               # the caller's image in column-major order (real runs), C order (complex runs)
                x_caller = x
                try:
                    alg = sp.alg.PowerMethod(lambda v: (A @ v.ravel()).reshape(shape), x, max_iter=st["k"])
                    ests = []
                    while not alg.done() and len(ests) <= st["k"] + 2:
                        alg.update()
                        ests.append(alg.max_eig)
                except Exception as e:
                    if not core.raised_in_code_under_test():
                        raise
                    r.violations.append(core.Violation(["C15"], "espirit", {"kind": "power_raises", "A": [list(x_) for x_ in st["A"]], "shape": shape},
                                                       "PowerMethod on a %s %s iterate raised %r" % (shape, "complex" if cplx else "real", e), {}))
                    continue
                key = {"kind": "power_estimate", "A": [list(x_) for x_ in st["A"]], "v0": list(st["v0"]), "k": st["k"], "shape": shape}
                if alg.x is not x_caller and not np.array_equal(alg.x, x_caller):
                    r.violations.append(core.Violation(["C15"], "espirit", dict(key, kind="power_held"), "PowerMethod (iterate of shape %s): the caller's array does not hold the vector the algorithm holds" % (shape,), {}))
                if len(ests) != st["k"] or abs(ests[-1] ** 2 - want) > 1e-10 * max(1.0, want):
                    r.violations.append(core.Violation(["C15"], "espirit", key, "PowerMethod (iterate of shape %s, %s) max_eig^2 after %d updates = %s, exact %.12g" % (shape, "complex" if cplx else "real", st["k"], ests[-1] ** 2 if ests else None, want), {}))
                if any(b < a - 1e-12 for a, b in zip(ests[1:], ests[2:])) or any(e > st["lmax"] + 1e-9 for e in ests[1:]):
                    r.violations.append(core.Violation(["C15"], "espirit", dict(key, kind="power_monotone"), "eigenvalue estimates %s (iterate of shape %s) decrease or exceed lambda_max = %d" % (ests, shape, st["lmax"]), {}))
    r.traces += nrep
    r.evaluations += nrep
    r.nontrivial += nrep
    rs = ctx.nprng("espirit")
    traces = [record(sp, rs, k, ctx.thorough) for k in range(30 if ctx.thorough else 12)]
    slim = [{"id": t["id"], "max_iter": t["max_iter"], "synthetic": t["synthetic"], "recover_tol": t["recover_tol"], "ev": t["ev"]} for t in traces]
    tres, rej = tracecheck.validate("EspiritTrace", slim, wd, constants=["NormTol = 1000", "EigSlack = 1000", "PhaseTol = 1000"], invariants=(), timeout=600)
    r.add_tlc(tres, "EspiritTrace")
    byid = {t["id"]: t for t in traces}
    for tid, line in rej.items():
        t = byid[tid]
        e = t["ev"][line - 1]
        props = ["C17"] + (["C15"] if e["e"] == "it" and (e["edec"] > 1000 or e["emax"] > 1000001000) else [])
        r.violations.append(core.Violation(props, "espirit", {"kind": "trace_rejected", "event": e["e"], "meta": t["meta"]}, "EspiritCalib run %s rejected by EspiritTrace at event %d: %s" % (t["meta"], line, e), {}))
    for t in traces:
        if not t["meta"]["ksp_unchanged"]:
            r.violations.append(core.Violation(["C02", "C17"], "espirit", {"kind": "ksp_mutated"}, "EspiritCalib modified the k-space array passed to it", {}))
    r.traces += len(traces)
    r.evaluations += len(traces)
    r.nontrivial += len(traces)
    r.samples.append({"run": traces[0]["meta"], "first_iterations": traces[0]["ev"][:2], "output": traces[0]["ev"][-1]})
    worst = max(t["ev"][-1]["interior_err"] for t in traces)
    r.notes.append("%d exact power-iteration states replayed; %d EspiritCalib runs; worst interior map error %.4f" % (nrep, len(traces), worst / 1e9))
    r.count("C17", len(traces), len(traces), len(traces))
    r.count("C15", nrep + len(traces), nrep + len(traces), nrep + len(traces))
    return r
