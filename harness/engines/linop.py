"""Engine linop_algebra (C01, C02, C03, C04).

TLC explores sessions of LinopAlgebra.tla (several themed configurations, each
with its own atom catalogue), checks the adjoint / normal / shape invariants on
the model, and dumps every reachable state.  Every distinct top-of-stack entry
is rebuilt on the real sigpy classes through the very API calls the spec
recorded, and compared with the spec:  advertised shapes, dense matrix (probed
with e_j and i*e_j), adjoint, adjoint of adjoint, normal operator, linearity,
determinism around .H/.N caching, purity of inputs and captured arrays,
real-typed input, and rejection of misfit operands.
"""
import itertools
import multiprocessing as mp
import os
import warnings

import numpy as np

from .. import core, tlaval, tlc
from ..tlaval import to_tla
from . import linop_build

INVS = ["ShapeSound", "MechanismMeansM", "AdjShapes", "AdjCorrect", "AdjInvolution", "NormalCorrect"]
ALL_CALLS = ["Push", "Dup", "Mul", "Add", "Sub", "ScaleL", "ScaleR", "Conj", "Hstack", "Vstack", "Diag", "AddN", "ComposeN", "H", "N"]


def leaf(k, *a):
    return {"k": k, "a": tuple(tuple(x) for x in a), "s": ()}


def gvals(rng, n):
    re = [rng.choice([-2, -1, 0, 1, 2, 3]) for _ in range(n)]
    im = [rng.choice([-2, -1, 0, 1, 2]) for _ in range(n)]
    if all(r == 0 and i == 0 for r, i in zip(re, im)):
        re[0] = 1
    return re, im


def prod(s):
    p = 1
    for x in s:
        p *= x
    return p


def bshape(a, b):
    r = max(len(a), len(b))
    a = [1] * (r - len(a)) + list(a)
    b = [1] * (r - len(b)) + list(b)
    return [max(x, y) for x, y in zip(a, b)]


def atoms_catalogue(rng, thorough):
    """Valid atoms over small shapes; every class and every parameter pattern."""
    A = []
    s1 = [[n] for n in ([1, 2, 3, 4, 5] + ([6, 7] if thorough else []))]
    s2 = [[a, b] for a in (1, 2, 3) for b in (1, 2, 3)] + ([[2, 4], [4, 2], [3, 4]] if thorough else [])
    s3 = [[2, 1, 3], [2, 2, 2]] + ([[1, 2, 3], [2, 3, 2]] if thorough else [])
    shapes = s1 + s2 + s3
    for s in [[3], [2, 3], [2, 1, 2]]:
        A.append(leaf("Identity", s))
    for o, i in [([6], [2, 3]), ([3, 2], [6]), ([1, 4], [2, 2]), ([2, 2], [4]), ([2, 3], [3, 2])]:
        A.append(leaf("Reshape", o, i))
    for s in s2 + s3:
        r = len(s)
        A.append(leaf("Transpose", s, []))
        for perm in itertools.permutations(range(r)):
            A.append(leaf("Transpose", s, perm))
            neg = [p - r if j % 2 == 0 else p for j, p in enumerate(perm)]
            A.append(leaf("Transpose", s, neg))
            A.append(leaf("Transpose", s, [p - r for p in perm]))
    # Resize
    for i in s1:
        for o in s1:
            A.append(leaf("Resize", o, i, [], []))
            for ish in range(0, min(i[0], 3)):
                for osh in range(0, min(o[0], 3)):
                    A.append(leaf("Resize", o, i, [ish], [osh]))
            A.append(leaf("Resize", o, i, [min(1, i[0] - 1)], []))
            A.append(leaf("Resize", o, i, [], [min(1, o[0] - 1)]))
    for i in s2:
        for o in s2:
            A.append(leaf("Resize", o, i, [], []))
            if rng.random() < (0.6 if thorough else 0.25):
                A.append(leaf("Resize", o, i, [rng.randrange(i[0]), rng.randrange(i[1])], [rng.randrange(o[0]), rng.randrange(o[1])]))
    A.append(leaf("Resize", [2, 3], [3], [], []))
    A.append(leaf("Resize", [4], [1, 2], [], []))
    # Flip / Circshift
    for s in shapes:
        r = len(s)
        A.append(leaf("Flip", s, []))
        for ax in range(-r, r):
            A.append(leaf("Flip", s, [ax]))
        if r >= 2:
            A.append(leaf("Flip", s, [0, -1]))
            A.append(leaf("Flip", s, [-1, 0]))
        for sh in (1, -1, 2, s[-1] + 1):
            A.append(leaf("Circshift", s, [sh] * r, []))
            for ax in range(-r, r):
                A.append(leaf("Circshift", s, [sh], [ax]))
        if r >= 2:
            A.append(leaf("Circshift", s, [1, 2], [-1, 0]))
            A.append(leaf("Circshift", s, [1, -2], [0, 1]))
    # FiniteDifference factory (TV regularisers): all axes, every single axis (also negative), pairs
    for s in s1 + s2 + s3:
        r = len(s)
        A.append(leaf("FiniteDifference", s, []))
        for ax in range(-r, r):
            A.append(leaf("FiniteDifference", s, [ax]))
        if r >= 2:
            A.append(leaf("FiniteDifference", s, [0, r - 1]))
            A.append(leaf("FiniteDifference", s, [-2, -1]))
    # multipliers stored in narrow integer dtypes whose squares do not fit the dtype (8-bit masks with value 150, int16 values 200)
    A.append(leaf("Multiply", [3], [3], [150, 13, 1], [0, 0, 0], [0], [1]))
    A.append(leaf("Multiply", [2, 3], [2, 1], [150, 0], [0, 0], [0], [1]))
    A.append(leaf("Multiply", [3], [3], [200, -150, 3], [0, 0, 0], [0], [2]))
    A.append(leaf("Multiply", [2, 2], [2], [181, -200], [0, 0], [1], [2]))
    # Down/Upsample
    for s in s1 + s2:
        r = len(s)
        for f in itertools.product((1, 2, 3), repeat=r):
            for sh in itertools.product((0, 1, 2), repeat=r):
                if all(x < n for x, n in zip(sh, s)):
                    A.append(leaf("Downsample", s, f, sh))
                    A.append(leaf("Upsample", s, f, sh))
    # Sum / Tile
    for s in s2 + s3 + [[3]]:
        r = len(s)
        for n in range(1, r + 1):
            for axes in itertools.combinations(range(r), n):
                if n == r:
                    # full reductions give operators with shape []: out of scope as user-level
                    # atoms (the Linop call protocol is defined for arrays of rank >= 1); they
                    # still occur inside Multiply/MatMul adjoints, which are covered.
                    continue
                A.append(leaf("Sum", s, axes))
                A.append(leaf("Tile", s, axes))
                A.append(leaf("Sum", s, [a - r for a in axes]))
                A.append(leaf("Tile", s, [a - r for a in axes]))
    # Slice / Embed
    for s in s1 + s2:
        r = len(s)
        for _ in range(3):
            st = [rng.randrange(0, n) for n in s]
            sp_ = [rng.randrange(a + 1, n + 1) for a, n in zip(st, s)]
            sz = [rng.choice([1, 1, 2]) for _ in s]
            A.append(leaf("Slice", s, st, sp_, sz))
            A.append(leaf("Embed", s, st, sp_, sz))
    # Blocks
    blk1 = [[n] for n in (3, 4, 5, 6)] + [[2, n] for n in (3, 4, 5)]
    for s in blk1:
        N = s[-1]
        for B in range(1, min(N, 3) + 1):
            for S in (1, 2, 3, 4):
                A.append(leaf("A2B", s, [B], [S]))
                A.append(leaf("B2A", s, [B], [S]))
    for s in ([[3, 3], [2, 4], [3, 4]] + ([[2, 3, 3], [4, 4]] if thorough else [])):
        N = s[-2:]
        for B in itertools.product((1, 2), repeat=2):
            for S in itertools.product((1, 2, 3), repeat=2):
                if all(b <= n for b, n in zip(B, N)):
                    A.append(leaf("A2B", s, B, S))
                    A.append(leaf("B2A", s, B, S))
    # Multiply: every broadcasting pattern
    pats = []
    for r in (1, 2, 3):
        for ish in itertools.product((1, 2, 3), repeat=r):
            for mr in range(1, r + 2):
                for msh in itertools.product((1, 2, 3), repeat=mr):
                    rr = max(r, mr)
                    ip = [1] * (rr - r) + list(ish)
                    mp_ = [1] * (rr - mr) + list(msh)
                    if all(a == b or a == 1 or b == 1 for a, b in zip(ip, mp_)) and prod(bshape(ish, msh)) <= 12:
                        pats.append((list(ish), list(msh)))
    rng.shuffle(pats)
    keep = pats if thorough else pats[:260]
    for ish, msh in keep:
        re, im = gvals(rng, prod(msh))
        A.append(leaf("Multiply", ish, msh, re, im, [rng.choice([0, 0, 1])]))
    for c in [(1, 0), (-1, 0), (2, 0), (0, 1), (1, 2)]:
        A.append(leaf("Multiply", [3], [], [c[0]], [c[1]], [0]))
        A.append(leaf("Multiply", [2, 2], [], [c[0]], [c[1]], [1]))
    # MatMul / RightMatMul
    mm = []
    for m_, n_, k_ in itertools.product((1, 2, 3), repeat=3):
        for ib in ([], [1], [2]):
            for mb in ([], [1], [2]):
                mm.append((ib + [n_, k_], mb + [m_, n_], "MatMul"))
                mm.append((ib + [k_, m_], mb + [m_, n_], "RightMatMul"))
    rng.shuffle(mm)
    for ish, msh, kind in (mm if thorough else mm[:160]):
        osz = prod(bshape(ish[:-2], msh[:-2])) * (msh[-2] * ish[-1] if kind == "MatMul" else ish[-2] * msh[-1])
        if osz > 12 or prod(ish) > 12:
            continue
        re, im = gvals(rng, prod(msh))
        A.append(leaf(kind, ish, msh, re, im, [0]))
        # adjoint=True: the stored matrix has the last two axes swapped
        mshT = msh[:-2] + [msh[-1], msh[-2]]
        A.append(leaf(kind, ish, mshT, re, im, [1]))
    # dedupe, bound the flat sizes
    out, seen = [], set()
    for a in A:
        key = repr(a)
        if key not in seen:
            seen.add(key)
            out.append(a)
    return out


def algebra_catalogue():
    v3 = ([1, 2, 0], [1, 0, -1])
    v21 = ([2, -1], [0, 1])
    return [
        leaf("Identity", [3]),
        leaf("Multiply", [3], [3], v3[0], v3[1], [0]),
        leaf("Circshift", [3], [1], []),
        leaf("Resize", [2], [3], [], []),
        leaf("Resize", [3], [2], [1], []),
        leaf("Downsample", [3], [2], [1]),
        leaf("Transpose", [2, 3], [-1, 0]),
        leaf("Reshape", [6], [2, 3]),
        leaf("Sum", [2, 3], [0]),
        leaf("Multiply", [3], [2, 1], v21[0], v21[1], [1]),
        leaf("Flip", [2, 3], [1]),
        leaf("FiniteDifference", [3], []),
        # block operators with gaps / a left-over border (co-isometries that are not isometries) and with overlap, so that
        # they occur as the outer, inner and middle factor of compositions whose normal operator is taken
        leaf("A2B", [3], [1], [2]),
        leaf("B2A", [3], [1], [2]),
        leaf("A2B", [3], [2], [1]),
        leaf("MatMul", [3, 1], [2, 3], [1, 0, 2, -1, 1, 0], [0, 1, 0, 0, -1, 2], [0]),
    ]


def stack_catalogue():
    return [
        leaf("Identity", [2, 2]),
        leaf("Resize", [2, 2], [2, 3], [], []),
        leaf("Resize", [2, 2], [1, 2], [], []),
        leaf("Multiply", [2, 2], [2, 2], [1, 0, 2, -1], [1, -1, 0, 2], [0]),
        leaf("Resize", [2, 3], [2, 2], [], []),
        leaf("Resize", [1, 2], [2, 2], [0, 0], []),
        leaf("Transpose", [2, 2], [1, 0]),
        leaf("Sum", [2, 2, 2], [0]),
        leaf("Identity", [4]),
    ]


def themes(ctx):
    rng = ctx.rng("linop_catalogue")
    th = ctx.thorough
    none_and = lambda axes: "{" + ", ".join(["<<>>"] + ["<<%d>>" % a for a in axes]) + "}"
    T = []
    T.append(dict(name="atoms", atoms=atoms_catalogue(rng, th), scalars=[(2, 0)], axes="{<<>>}", arities="{2}",
                  max_stack=1, max_flat=16 if not th else 24, max_level=2 if not th else 3, calls=["Push", "H", "N", "Conj"]))
    T.append(dict(name="algebra", atoms=algebra_catalogue(), scalars=[(-1, 0), (2, 0), (0, 1), (1, 2)], axes="{<<>>}", arities="{2}",
                  max_stack=2 if not th else 3, max_flat=12, max_level=3 if not th else 4,
                  calls=["Push", "Dup", "Mul", "Add", "Sub", "ScaleL", "ScaleR", "Conj", "H", "N"]))
    T.append(dict(name="stack", atoms=stack_catalogue(), scalars=[(0, 1)], axes=none_and([0, 1, -1, -2, 2, -3]), arities="{2, 3}" if th else "{2}",
                  max_stack=3 if th else 2, max_flat=16, max_level=4 if th else 3,
                  calls=["Push", "Hstack", "Vstack", "Diag", "H", "N"] + (["Mul"] if th else [])))
    # deep nesting over three atoms: sums of sums, differences of composites, products of sums (five calls, e.g. Push Push Add Push Add)
    T.append(dict(name="nest", atoms=algebra_catalogue()[:3], scalars=[(0, 1)], axes="{<<>>}", arities="{2}",
                  max_stack=2, max_flat=12, max_level=5 if not th else 6, calls=["Push", "Dup", "Mul", "Add", "Sub", "H"]))
    if not th:
        # three operands (split indices beyond the first boundary), fewer atoms / axes to stay small
        T.append(dict(name="stack3", atoms=stack_catalogue()[:5], scalars=[(0, 1)], axes=none_and([0, -1, 1]), arities="{3}",
                      max_stack=3, max_flat=16, max_level=4, calls=["Push", "Hstack", "Vstack", "Diag", "AddN", "ComposeN"]))
    return T


def mc_for(theme):
    body = "EXTENDS LinopAlgebra\n"
    body += "MCAtoms == {\n  " + ",\n  ".join(to_tla(a) for a in theme["atoms"]) + "}\n"
    body += "MCScalars == {" + ", ".join("<<%d, %d>>" % c for c in theme["scalars"]) + "}\n"
    body += "MCAxes == %s\nMCArities == %s\n" % (theme["axes"], theme["arities"])
    body += "MCCalls == {" + ", ".join('"%s"' % c for c in theme["calls"]) + "}\n"
    cfg = (
        "INIT Init\nNEXT Next\nCONSTANTS\n Atoms <- MCAtoms\n Scalars <- MCScalars\n StackAxes <- MCAxes\n"
        " Arities <- MCArities\n Calls <- MCCalls\n MaxStack = %d\n MaxFlat = %d\n MaxLevel = %d\n" % (theme["max_stack"], theme["max_flat"], theme["max_level"])
        + "".join("INVARIANT %s\n" % i for i in INVS)
    )
    return body, cfg


# ---------------------------------------------------------------- replay (worker side)

_SP = None


def _sp():
    global _SP
    if _SP is None:
        core.use_repo()
        import sigpy

        _SP = sigpy
    return _SP


def api_kind(api):
    return api["k"]


def api_summary(api, depth=0):
    k = api["k"]
    if not api["s"]:
        return "%s%s" % (k, [list(x) for x in api["a"]])
    args = ",".join(api_summary(c, depth + 1) for c in api["s"])
    extra = "" if not api["a"] else str([list(x) for x in api["a"]])
    return "%s%s(%s)" % (k, extra, args)


def classes_in(api, acc=None):
    acc = set() if acc is None else acc
    acc.add(api["k"])
    for c in api["s"]:
        classes_in(c, acc)
    return acc


def _viol(props, kind, api, detail, extra=None):
    key = {"kind": kind, "top": api["k"], "classes": sorted(classes_in(api)), "expr": api_summary(api)[:300]}
    if extra:
        key.update(extra)
    return {"props": props, "key": key, "detail": detail}


def check_entry(entry):
    """entry: dict(api, osh, ish, m) from the spec.  Returns list of violation dicts."""
    sp = _sp()
    out = []
    api = entry["api"]
    M = linop_build.spec_matrix(entry["m"])
    osh, ish = list(entry["osh"]), list(entry["ish"])
    tol = dict(atol=1e-9, rtol=1e-9)
    with warnings.catch_warnings():
        warnings.simplefilter("ignore")
        b = linop_build.Builder(sp)
        try:
            A = b.build(api)
        except Exception as e:
            return [_viol(["C03"], "construct_raises", api, "spec-accepted construction raised %s: %s" % (type(e).__name__, e))]
        cap0 = [c.copy() for c in b.captured]
        if list(A.oshape) != osh or list(A.ishape) != ish:
            out.append(_viol(["C03"], "advertised_shape", api, "advertised oshape/ishape %s/%s, documented %s/%s" % (A.oshape, A.ishape, osh, ish)))
            return out
        n = int(np.prod(ish)) if ish else 1
        rng = np.random.RandomState(abs(hash(api_summary(api))) % (2 ** 31))
        x = (rng.randint(-3, 4, n) + 1j * rng.randint(-3, 4, n)).astype(np.complex128).reshape(ish)
        y = (rng.randint(-3, 4, n) + 1j * rng.randint(-3, 4, n)).astype(np.complex128).reshape(ish)
        a = complex(2, -3)
        try:
            y_before = np.array(A(x))
            F, dfs = linop_build.dense(A)
        except Exception as e:
            return out + [_viol(["C03"], "apply_raises", api, "apply of a spec-accepted operator raised: %r / %r" % (e, e.__cause__))]
        for kind, d in dfs:
            out.append(_viol(["C03"] if kind == "oshape" else ["C02"], kind, api, d))
        if F is None:
            return out
        if not core.allclose(F, M, **tol):
            out.append(_viol({"H": ["C01"], "N": ["C04"]}.get(api["k"], ["C03"]), "forward_matrix", api, "dense matrix differs from the documented matrix expression; max |diff| = %.3g" % np.abs(F - M).max()))
        # C01: adjoint
        try:
            AH = A.H
            if list(AH.ishape) != list(A.oshape) or list(AH.oshape) != list(A.ishape):
                out.append(_viol(["C01"], "adjoint_shape", api, "A.H shapes %s<-%s, expected %s<-%s" % (AH.oshape, AH.ishape, A.ishape, A.oshape)))
            else:
                G, dfs = linop_build.dense(AH)
                for kind, d in dfs:
                    out.append(_viol(["C01"] if kind == "oshape" else ["C02"], "adjoint_" + kind, api, d))
                if G is not None and not core.allclose(G, F.conj().T, **tol):
                    out.append(_viol(["C01"], "adjoint_matrix", api, "<Ax,y> != <x,A^H y>: dense(A.H) differs from dense(A)^H; max |diff| = %.3g" % np.abs(G - F.conj().T).max()))
                AHH = AH.H
                G2, dfs = linop_build.dense(AHH, check_i=False)
                if G2 is None or not core.allclose(G2, F, **tol):
                    out.append(_viol(["C01"], "adjoint_involution", api, "A.H.H does not act like A"))
        except Exception as e:
            out.append(_viol(["C01"], "adjoint_raises", api, "taking / applying A.H raised %r / %r" % (e, getattr(e, "__cause__", None))))
        # C04: normal
        try:
            AN = A.N
            Nn, dfs = linop_build.dense(AN, check_i=False)
            if Nn is None or not core.allclose(Nn, F.conj().T @ F, **tol):
                out.append(_viol(["C04"], "normal_matrix", api, "A.N differs from A^H A; max |diff| = %.3g" % (np.abs(Nn - F.conj().T @ F).max() if Nn is not None else -1)))
        except Exception as e:
            out.append(_viol(["C04"], "normal_raises", api, "taking / applying A.N raised %r / %r" % (e, getattr(e, "__cause__", None))))
        # C02: determinism across .H/.N caching, linearity, purity, real input
        try:
            y_after = np.array(A(x))
            if not np.array_equal(y_before, y_after):
                out.append(_viol(["C02"], "nondeterministic", api, "same operator, equal input, different output after .H/.N were taken"))
            lhs = np.asarray(A(a * x + y)).ravel()
            rhs = a * np.asarray(A(x)).ravel() + np.asarray(A(y)).ravel()
            if not core.allclose(lhs, rhs, **tol) or not core.allclose(lhs, M @ (a * x + y).ravel(), **tol):
                out.append(_viol(["C02"], "nonlinear", api, "A(a x + y) != a A(x) + A(y) for a = 2-3i"))
            for c0, c1 in zip(cap0, b.captured):
                if not np.array_equal(c0, c1):
                    out.append(_viol(["C02"], "captured_mutated", api, "an array the operator was built from changed"))
            xr = rng.randint(-3, 4, n).astype(np.float64).reshape(ish)
            xr0 = xr.copy()
            try:
                yr = np.asarray(A(xr)).ravel()
                ok = core.allclose(yr, M @ xr.ravel(), **tol)
            except Exception:
                ok = True  # an exception for real-typed input is not a wrong answer
            if not ok:
                out.append(_viol(["C02", "C03"], "real_input_wrong", api, "float64 input: result differs from the matrix action (imaginary part dropped or mixed)"))
            if not np.array_equal(xr, xr0):
                out.append(_viol(["C02"], "mutated", api, "real input mutated"))
            # building an expression must not change the operator objects it was built FROM (they may be kept and used again):
            # every operand object, as it is after the construction, still acts like a freshly built copy of itself
            try:
                for c_api in api["s"]:
                    co = b.build(c_api)
                    cf = linop_build.Builder(sp).build(c_api)
                    nin = int(np.prod(co.ishape)) if len(co.ishape) else 1
                    xin = (rng.randint(-3, 4, nin) + 1j * rng.randint(-3, 4, nin)).astype(np.complex128).reshape(co.ishape)
                    if list(co.oshape) != list(cf.oshape) or not core.allclose(np.asarray(co(xin.copy())), np.asarray(cf(xin.copy())), **tol):
                        out.append(_viol(["C02"], "operand_changed", api, "after %s was built from it, the operand %s no longer acts like a fresh copy of itself" % (api["k"], api_summary(c_api)[:120])))
            except Exception as e:
                out.append(_viol(["C02"], "reapply_raises", api, "re-application of an operand after the construction raised %r" % (e,)))
            # a FRESH operator object applied to a real array first and to a complex one afterwards (and a complex64 one): nothing
            # an application leaves behind in the object (buffers, dtypes, shapes) may influence the next application
            try:
                A2 = linop_build.Builder(sp).build(api)
                try:
                    A2(xr.copy())
                except Exception:
                    pass  # an exception for real-typed input is not a wrong answer (see real_input_wrong above)
                y2 = np.asarray(A2(x.copy())).ravel()
                if not core.allclose(y2, M @ x.ravel(), **tol):
                    out.append(_viol(["C02"], "history_dependent", api, "a fresh operator applied to a real array and then to a complex one: the second result differs from the matrix action (state kept from the first application)"))
                y3 = np.asarray(A2(x.astype(np.complex64))).ravel()
                if not core.allclose(y3, M @ x.ravel(), atol=1e-4 * max(1.0, float(np.abs(M @ x.ravel()).max())), rtol=1e-4):
                    out.append(_viol(["C02"], "history_dependent", api, "the same operator applied to a complex64 array afterwards differs from the matrix action"))
            except Exception as e:
                out.append(_viol(["C02"], "reapply_raises", api, "application of a fresh operator to real then complex input raised %r" % (e,)))
            # the same values in other memory layouts (Fortran order, strided view into a larger buffer): same result, inputs untouched
            if n > 1:
                xf = np.asfortranarray(x)
                buf = np.zeros(tuple(2 * k_ for k_ in ish), dtype=x.dtype)
                xs_ = buf[tuple(slice(1, None, 2) for _ in ish)]
                xs_[...] = x
                for lab, xv in (("Fortran-ordered", xf), ("strided", xs_)):
                    xv0 = xv.copy()
                    yv = np.asarray(A(xv)).ravel()
                    if not core.allclose(yv, M @ x.ravel(), **tol):
                        out.append(_viol(["C02"], "layout_dependent", api, "%s input: result differs from the matrix action" % lab))
                    if not np.array_equal(xv, xv0):
                        out.append(_viol(["C02"], "mutated", api, "%s input mutated" % lab))
        except Exception as e:
            out.append(_viol(["C02"], "reapply_raises", api, "re-application raised %r" % (e,)))
    return out


def check_rejection(item):
    """item: dict(call, args, operands=[api...]) ; the real constructor (or first apply) must raise."""
    sp = _sp()
    L = sp.linop
    with warnings.catch_warnings():
        warnings.simplefilter("ignore")
        b = linop_build.Builder(sp)
        try:
            ops = [b.build(a) for a in item["operands"]]
        except Exception as e:
            return []
        call, args = item["call"], item["args"]
        ax = lambda v: None if len(v) == 0 else v[0]
        try:
            if call == "Mul":
                R = ops[0] * ops[1]
            elif call == "Add":
                R = ops[0] + ops[1]
            elif call == "Sub":
                R = ops[0] - ops[1]
            elif call == "AddN":
                R = L.Add(ops)
            elif call == "ComposeN":
                R = L.Compose(ops)
            elif call == "Hstack":
                R = L.Hstack(ops, axis=ax(args[0]))
            elif call == "Vstack":
                R = L.Vstack(ops, axis=ax(args[0]))
            elif call == "Diag":
                R = L.Diag(ops, oaxis=ax(args[0]), iaxis=ax(args[1]))
            else:
                return []
        except Exception:
            return []  # rejected at construction: good
        # the misfit was not rejected when the operator was built: an operator now exists that advertises shapes although its
        # operands do not fit (its adjoint / normal operator cannot be formed even if some application happens to broadcast)
        fake = {"k": call, "a": tuple(args), "s": tuple(item["operands"])}
        return [_viol(["C03"], "misfit_accepted", fake, "operands whose shapes do not fit were combined without an error (advertised %s<-%s)" % (R.oshape, R.ishape))]
        fake = {"k": call, "a": tuple(args), "s": tuple(item["operands"])}
        return [_viol(["C03"], "misfit_accepted", fake, "operands whose shapes do not fit were combined and applied without an error (advertised %s<-%s)" % (R.oshape, R.ishape))]


def _work(job):
    kind, payload = job
    try:
        if kind == "entry":
            return kind, payload, check_entry(payload)
        return kind, payload, check_rejection(payload)
    except Exception as e:  # harness failure
        import traceback

        return "error", payload, traceback.format_exc()


def collect_jobs(dump_path):
    """Distinct top-of-stack entries and rejected calls from a dump."""
    entries, rejections = {}, {}
    nstates = 0
    calls = {}
    for st in tlaval.read_dump(dump_path):
        nstates += 1
        stack, last = st["stack"], st["last"]
        ck = "%s:%s" % (last["call"], last["verdict"])
        calls[ck] = calls.get(ck, 0) + 1
        if len(stack) == 0:
            continue
        if last["verdict"] == "rejected":
            n = last["n"]
            ops = [e["api"] for e in stack[len(stack) - n:]]
            key = repr((last["call"], last["args"], ops))
            rejections.setdefault(key, {"call": last["call"], "args": last["args"], "operands": ops})
        else:
            top = stack[-1]
            key = repr(top["api"])
            if key not in entries:
                entries[key] = {"api": top["api"], "osh": top["osh"], "ish": top["ish"], "m": top["m"]}
    return list(entries.values()), list(rejections.values()), nstates, calls


def extreme_scalars():
    """Scalar multiples with factors near the ends of the floating-point range, applied to data scaled the other way: the
    expression a * (b * A) acts as a (b (A x)), each step of which is finite - the scalars may not be combined into a product
    that overflows or underflows.  (Outside TLC: the exact model has no floating-point range.)"""
    sp = _sp()
    L = sp.linop
    out = []
    m = np.array([1 + 2j, -0.5, 3j])
    ops = {"Identity[3]": lambda: L.Identity([3]), "Multiply[3]": lambda: L.Multiply([3], m), "Circshift[3]": lambda: L.Circshift([3], [1])}
    x0 = np.array([1.0 - 1j, 2.0, -0.5j])
    with warnings.catch_warnings():
        warnings.simplefilter("ignore")
        for name, mk in ops.items():
            A = mk()
            base = np.asarray(A(x0))
            cases = [("1e200 * (1e200 * A) on data ~1e-250", lambda: 1e200 * (1e200 * A), 1e-250, 1e150),
                     ("(A * 1e200) * 1e200 on data ~1e-250", lambda: (A * 1e200) * 1e200, 1e-250, 1e150),
                     ("1e-200 * (1e-200 * A) on data ~1e250", lambda: 1e-200 * (1e-200 * A), 1e250, 1e-150),
                     ("1e-250 * (1e300 * A) on data ~1", lambda: 1e-250 * (1e300 * A), 1.0, 1e50),
                     ("A - 1e200 * (1e150 * A) on data ~1e-300", lambda: A - 1e200 * (1e150 * A), 1e-300, None)]
            for label, build, dscale, factor in cases:
                try:
                    op = build()
                    y = np.asarray(op(x0 * dscale))
                except Exception as e:
                    out.append({"props": ["C03"], "key": {"kind": "extreme_scalar", "operator": name, "case": label}, "detail": "%s with %s raised %r" % (label, name, e)})
                    continue
                want = base * factor if factor is not None else base * 1e-300 - base * 1e50
                if not np.all(np.isfinite(y)) or not core.allclose(y, want, rtol=1e-12, atol=0):
                    out.append({"props": ["C03"], "key": {"kind": "extreme_scalar", "operator": name, "case": label},
                                "detail": "%s with A = %s: got %s, the matrix expression applied step by step gives %s" % (label, name, y, want)})
    return out


def run(ctx):
    r = core.EngineResult("linop_algebra")
    jobs = []
    for th in themes(ctx):
        wd = tlc.fresh_dir("linop_%s_%s" % (th["name"], ctx.tier))
        body, cfg = mc_for(th)
        tlc.write_mc(wd, "MC_Linop_" + th["name"], body, cfg)
        res = tlc.run_tlc(wd, "MC_Linop_" + th["name"], dump=True, coverage=False, timeout=3600 if ctx.thorough else 900)
        r.add_tlc(res, th["name"])
        if res.violated:
            # the transcribed mechanism does not implement the documented meaning: design-level defect
            tr = tlc.error_trace(res.stdout)
            top = tr[-1]["stack"][-1] if tr and tr[-1].get("stack") else None
            api = top["api"] if top else {"k": "?", "a": (), "s": ()}
            r.violations.append(core.Violation(
                {"AdjShapes": ["C01"], "AdjCorrect": ["C01"], "AdjInvolution": ["C01"], "NormalCorrect": ["C04"],
                 "ShapeSound": ["C03"], "MechanismMeansM": ["C01", "C03", "C04"]}.get(res.violated, ["C01"]),
                "linop_algebra", {"kind": "spec_invariant", "invariant": res.violated, "theme": th["name"], "expr": api_summary(api)[:300]},
                "TLC: invariant %s of LinopAlgebra.tla fails (theme %s) - the adjoint/normal rule transcribed from linop.py does not implement the documented meaning" % (res.violated, th["name"]),
                {"trace_tail": repr(tr[-1])[:2000] if tr else ""}))
            continue
        if r.machinery_error:
            return r
        ents, rejs, nst, calls = collect_jobs(res.dump_path)
        for ck, cnt in calls.items():  # action coverage measured on the dump (TLC -coverage is 100x slower here)
            r.actions["%s:%s" % (th["name"], ck)] = [cnt, cnt]
        for c in th["calls"]:
            if not any(k.startswith(c + ":") for k in calls):
                r.actions["%s:%s:never" % (th["name"], c)] = [0, 0]
        r.notes.append("theme %s: %d states, %d distinct entries, %d rejected calls" % (th["name"], nst, len(ents), len(rejs)))
        if not ctx.thorough and th["name"] != "atoms" and len(ents) > 2500:
            rr = ctx.rng("linop_subset_" + th["name"])
            ents = rr.sample(ents, 2500)
            r.exhaustive = False
            r.notes.append("theme %s: quick tier replays a seeded subset of 2500 entries" % th["name"])
        jobs += [("entry", e) for e in ents] + [("reject", j) for j in rejs]
        os.remove(res.dump_path)
    _sp()  # import (and JIT-load) before forking
    nproc = min(16, max(1, len(jobs) // 50 + 1))
    with mp.get_context("fork").Pool(nproc) as pool:
        results = pool.map(_work, jobs, chunksize=20)
    nontriv = 0
    for kind, payload, res in results:
        if kind == "error":
            r.machinery_error = "replay worker failed: " + res
            return r
        r.traces += 1
        r.evaluations += 1
        if kind == "entry":
            M = np.array(payload["m"])
            if M.shape[0] != M.shape[1] or not np.array_equal(linop_build.spec_matrix(payload["m"]), np.eye(M.shape[0])):
                nontriv += 1
            if len(r.samples) < 6 and r.traces % 397 == 1:
                r.samples.append({"api": api_summary(payload["api"])[:200], "oshape": list(payload["osh"]), "ishape": list(payload["ish"]),
                                  "matrix_row_1": [list(c) for c in payload["m"][0]][:8]})
        else:
            nontriv += 1
            if len([s for s in r.samples if "rejected_call" in s]) < 2:
                r.samples.append({"rejected_call": payload["call"], "args": [list(a) for a in payload["args"]],
                                  "operands": [api_summary(a)[:80] for a in payload["operands"]]})
        for v in res:
            r.violations.append(core.Violation(v["props"], "linop_algebra", v["key"], v["detail"], {"kind": kind, "case": payload}))
    for v in extreme_scalars():
        r.violations.append(core.Violation(v["props"], "linop_algebra", v["key"], v["detail"], {}))
    r.nontrivial = nontriv
    for p in ("C01", "C02", "C03", "C04"):
        r.count(p, r.traces, r.evaluations, nontriv)
    return r


def replay(payload):
    if payload.get("kind") == "reject":
        return check_rejection(_detuple(payload["case"]))
    return check_entry(_detuple(payload["case"]))


def _detuple(x):
    if isinstance(x, list):
        return tuple(_detuple(i) for i in x)
    if isinstance(x, dict):
        return {k: _detuple(v) for k, v in x.items()}
    return x
