"""Engine prox (C11, purity part of C02).

TLC builds prox expression trees (Prox.tla), evaluates the transcribed closed
forms on exact rational / Gaussian-rational points and checks that the result
satisfies the optimality condition of the documented minimisation problem.
Every evaluation is replayed on the real Prox objects and thresholding
functions, in every array shape with the same number of elements.
"""
import itertools
import warnings
from fractions import Fraction

import numpy as np

from .. import core, tlaval, tlc

INVS = ["ModelIsMinimiser", "ShapeKept", "Idempotent", "FeasibleIsFixed", "GroupsAreIndependent"]


def rq(x):
    f = Fraction(x)
    return "R(%d, %d)" % (f.numerator, f.denominator)


def cq(z):
    z = complex(z) if not isinstance(z, tuple) else z
    if isinstance(z, tuple):
        return "<<%s, %s>>" % (rq(z[0]), rq(z[1]))
    return "<<%s, %s>>" % (rq(Fraction(z.real).limit_denominator(1000)), rq(Fraction(z.imag).limit_denominator(1000)))


def vec(vs):
    return "<<" + ", ".join(cq(v) for v in vs) + ">>"


def mk(k, q, v=(), m=(), s="<<>>"):
    return '[k |-> "%s", q |-> <<%s>>, v |-> <<%s>>, m |-> <<%s>>, s |-> %s]' % (k, ", ".join(q), ", ".join(v), ", ".join(m), s)


H = Fraction(1, 2)


def bases(n, thorough):
    B = []
    nq = rq(n)
    bias = [(Fraction(1), 0)] + [(0, 0)] * (n - 1)
    zvec = [(Fraction(i + 1, 2), 0) for i in range(n)]
    for lam in ([H, 2] if not thorough else [H, 1, 2]):
        B.append(mk("L1Reg", [nq, rq(lam)]))
    for lam in [H, 1]:
        B.append(mk("L2Reg", [nq, rq(lam)]))
        B.append(mk("L2Reg", [nq, rq(lam)], [vec(zvec)]))
    for eps in [1, 5]:
        B.append(mk("L2Proj", [nq, rq(eps)], [vec([(0, 0)] * n)]))
        B.append(mk("L2Proj", [nq, rq(eps)], [vec(bias)]))
    for eps in [1, Fraction(5, 2)]:
        B.append(mk("LInfProj", [nq, rq(eps)], [vec([(0, 0)] * n)]))
        B.append(mk("LInfProj", [nq, rq(eps)], [vec(bias)]))
    for eps in [1, 4, 7]:
        B.append(mk("L1Proj", [nq, rq(eps)]))
    for l, u in [(-1, 2), (0, H)]:
        B.append(mk("Box", [nq, rq(l), rq(u)]))
    return B


def group_bases():
    """L2Proj(axes=...): one ball per group (Prox.tla kind L2ProjG, q = <<n, eps, g>>)."""
    B = []
    for n, g in ((4, 2), (6, 2), (6, 3)):
        bias = [(Fraction(1), 0)] + [(0, 0)] * (n - 2) + [(Fraction(-1, 2), 0)]
        for eps in [1, 5, Fraction(5, 2)]:
            B.append(mk("L2ProjG", [rq(n), rq(eps), rq(g)], [vec([(0, 0)] * n)]))
        B.append(mk("L2ProjG", [rq(n), rq(1), rq(g)], [vec(bias)]))
    return B


def points(n, rng, thorough):
    curated = {
        2: [(3, 4), (0, 0), (H, -H), (1, 1), (-3, 0), (5, -12), (3 + 4j, 0), (-4 + 3j, 5), (H, 2), (-1, 2), (6, 8j), (1j, -1j)],
        3: [(1, 2, 2), (2, 3, 6), (0, 0, 5), (0, 0, 0), (1, -1, H), (2, 2, -2), (3 + 4j, 0, 0), (-1, H, 7), (4, 4, -2), (1, 2 + 0j, -2j), (H, H, H)],
        4: [(1, 1, 1, 1), (2, 2, 2, 2), (1, 2, 2, 4), (0, 0, 0, 0), (3, -4, 0, 0), (H, -1, 2, 5), (3 + 4j, -5, 0, 12j), (1, 1, -1, 7),
            (3, 4, 6, 8), (0, 0, 5, 12), (3, 4, H, 0), (6, 8j, 3, -4), (1, 0, 0, 2), (3 + 4j, 0, 5, -12), (1, 0, -H, 0)],   # halves with rational norms (groups)
        5: [(2, 2, 2, 2, 3), (0, 0, 3, 4, 0), (1, -1, H, 2, -3), (1, 1, 1, 1, 1), (5, 0, 0, 0, 0), (-2, 2, 4, -4, 1)],
        6: [(2, 2, 2, 2, 2, 4), (3, 4, 0, 0, 0, 0), (1, -1, 2, -2, H, 0), (0, 0, 0, 0, 0, 0), (1, 2, 2, 0, 0, 4), (H, H, -H, 3, -3, 1),
            (1, 2, 2, 2, 3, 6), (0, 0, 5, 4, 4, -2), (3, 4, 6, 8, 5, 12), (3, 4, 0, 0, H, 0), (2, -1, 2, 0, H, 0), (6, 8j, 0, 1, -3, 4j)],   # thirds / halves with rational norms
    }
    out = [vec([(Fraction(z.real).limit_denominator(64), Fraction(z.imag).limit_denominator(64)) if isinstance(z, complex) else (Fraction(z), 0) for z in p]) for p in curated[n]]
    pool = [0, H, -1, 1, 2, -3, 5, Fraction(5, 2), -H]
    for _ in range(6 if thorough else 2):
        out.append(vec([(rng.choice(pool), 0) for _ in range(n)]))
    return out


def unitaries():
    U = []
    r = lambda a, b=0: "<<%s, %s>>" % (rq(a), rq(b))
    # 2x2 rotation with rational entries, 2x2 swap, 3x3 cyclic permutation, 3x3 Householder I - 2vv^T/v^Tv (v = (1,2,2)),
    # 4x4 normalised DFT (entries +-1/2, +-i/2)
    U.append("<<<<%s, %s>>, <<%s, %s>>>>" % (r(Fraction(3, 5)), r(Fraction(4, 5)), r(Fraction(-4, 5)), r(Fraction(3, 5))))
    U.append("<<<<%s, %s>>, <<%s, %s>>>>" % (r(0), r(1), r(1), r(0)))
    U.append("<<<<%s, %s, %s>>, <<%s, %s, %s>>, <<%s, %s, %s>>>>" % (r(0), r(1), r(0), r(0), r(0), r(1), r(1), r(0), r(0)))
    v = [1, 2, 2]
    hh = [[Fraction(int(i == j)) - Fraction(2 * v[i] * v[j], 9) for j in range(3)] for i in range(3)]
    U.append("<<" + ", ".join("<<" + ", ".join(r(x) for x in row) + ">>" for row in hh) + ">>")
    w = [1, 1j, -1, -1j]
    dft = [[w[(j * k) % 4] / 2 for k in range(4)] for j in range(4)]
    U.append("<<" + ", ".join("<<" + ", ".join(r(Fraction(x.real).limit_denominator(4), Fraction(x.imag).limit_denominator(4)) for x in row) + ">>" for row in dft) + ">>")
    return U


def mc_text(ctx, max_wraps):
    rng = ctx.rng("prox_points")
    th = ctx.thorough
    B = bases(2, th) + bases(3, th) + group_bases()
    SB = [mk("L1Reg", [rq(2), rq(1)]), mk("L2Proj", [rq(2), rq(5)], [vec([(0, 0), (0, 0)])]), mk("Box", [rq(2), rq(-1), rq(2)]), mk("L1Proj", [rq(3), rq(4)])]
    P = []
    for n in (2, 3, 4, 5, 6):
        P += points(n, rng, th)
    body = "EXTENDS Prox\nMCBases == {\n " + ",\n ".join(B) + "}\nMCStackBases == {\n " + ",\n ".join(SB) + "}\n"
    body += "MCLams == {R(1, 2), R(2, 1)}\nMCUnitaries == {\n " + ",\n ".join(unitaries()) + "}\n"
    body += "MCAlphas == {R(1, 2), R(1, 1), R(2, 1)}\nMCPoints == {\n " + ",\n ".join(P) + "}\n"
    cfg = ("INIT Init\nNEXT Next\nCONSTANTS\n Bases <- MCBases\n StackBases <- MCStackBases\n Lams <- MCLams\n Unitaries <- MCUnitaries\n Alphas <- MCAlphas\n Points <- MCPoints\n"
           " MaxWraps = %d\n MaxStackSize = 6\n SqrtBound = 2000\n" % max_wraps + "".join("INVARIANT %s\n" % i for i in INVS))
    return body, cfg


# ---------------------------------------------------------------- replay


def fr(q):
    return Fraction(q[0], q[1])


def cval(c):
    return complex(float(fr(c[0])), float(fr(c[1])))


def npvec(v, cplx):
    a = np.array([cval(c) for c in v], dtype=np.complex128)
    return a if cplx else a.real.copy()


def is_cplx(v):
    return any(c[1][0] != 0 for c in v)


def factorizations(n):
    out = [[n]]
    for a in range(1, n + 1):
        if n % a == 0 and 1 < a < n:
            out.append([a, n // a])
    out.append([1, n])
    if n % 2 == 0 and n >= 4:
        out.append([2, 1, n // 2])
    return out


def expr_size(e):
    k = e["k"]
    if k == "Stack":
        return sum(expr_size(c) for c in e["s"])
    if k in ("Conj", "L2RegH"):
        return expr_size(e["s"][0])
    if k == "Unitary":
        return len(e["m"][0])
    return e["q"][0][0]


def has_kind(e, kinds):
    return e["k"] in kinds or any(has_kind(c, kinds) for c in e["s"])


CAPTURED = []
AX_SPELL = ["last"]   # how the axes of a grouped L2Proj are spelled by build(): [-1] | (1,) | [np.int64(1)]


def group_shape(e):
    """[g, n/g] of the (first) grouped projection inside e."""
    if e["k"] == "L2ProjG":
        g = e["q"][2][0]
        return [g, e["q"][0][0] // g]
    for c in e["s"]:
        gs = group_shape(c)
        if gs:
            return gs
    return None


def build(sp, e, shape, cplx):
    P = sp.prox
    k = e["k"]
    n = expr_size(e)
    def arr(v):
        a = npvec(v, cplx or is_cplx(v)).reshape(shape)
        CAPTURED.append((a, a.copy()))
        return a
    if k == "L1Reg":
        return P.L1Reg(shape, float(fr(e["q"][1])))
    if k == "L2Reg":
        return P.L2Reg(shape, float(fr(e["q"][1])), y=arr(e["v"][0]) if e["v"] else None)
    if k == "L2RegH":
        return P.L2Reg(shape, float(fr(e["q"][0])), y=arr(e["v"][0]) if e["v"] else None, proxh=build(sp, e["s"][0], shape, cplx))
    if k == "L2Proj":
        return P.L2Proj(shape, float(fr(e["q"][1])), y=arr(e["v"][0]))
    if k == "L2ProjG":
        gs = group_shape(e)
        if [int(v_) for v_ in shape] not in (gs, [gs[0], 1, gs[1]]):
            raise AssertionError("harness: grouped projection %s built with shape %s" % (gs, shape))
        ax = {"last": [-1], "tuple": (len(shape) - 1,), "numpy": [np.int64(len(shape) - 1)], "3d": (1, 2)}[AX_SPELL[0]] if len(shape) == 2 else (1, 2)
        return P.L2Proj(shape, float(fr(e["q"][1])), y=arr(e["v"][0]), axes=ax)
    if k == "LInfProj":
        b = e["v"][0]
        zero = all(c[0][0] == 0 and c[1][0] == 0 for c in b)
        return P.LInfProj(shape, float(fr(e["q"][1])), bias=None if zero else arr(b))
    if k == "L1Proj":
        return P.L1Proj(shape, float(fr(e["q"][1])))
    if k == "Box":
        return P.BoxConstraint(shape, float(fr(e["q"][1])), float(fr(e["q"][2])))
    if k == "Conj":
        return P.Conj(build(sp, e["s"][0], shape, cplx))
    if k == "Stack":
        members = []
        for j, c_ in enumerate(e["s"]):
            nj = expr_size(c_)
            if j == len(e["s"]) - 1 or (len(e["s"]) == 3 and j == 0):       # the partners offered by WrapStack are 1-D
                sj = [nj]
            else:
                sj = [nj] if has_kind(c_, {"Stack", "Unitary"}) else group_shape(c_) if has_kind(c_, {"L2ProjG"}) else factorizations(nj)[min(1, len(factorizations(nj)) - 1)]
            members.append(build(sp, c_, sj, cplx))
        return P.Stack(members)
    if k == "Unitary":
        U = np.array([[cval(c) for c in row] for row in e["m"][0]], dtype=np.complex128)
        if not np.iscomplexobj(U) or np.all(U.imag == 0):
            U = U.real.copy() if not cplx else U
        if len(shape) == 1:   # 1-D prox shapes (needed under Stack): reshape around the matrix product
            nn = shape[0]
            A = sp.linop.Reshape([nn], [nn, 1]) * sp.linop.MatMul([nn, 1], U) * sp.linop.Reshape([nn, 1], [nn])
        else:
            A = sp.linop.MatMul(shape, U)
        return P.UnitaryTransform(build(sp, e["s"][0], shape, cplx or np.iscomplexobj(U)), A)
    raise KeyError(k)


def summary(e):
    if e["s"]:
        return "%s(%s)" % (e["k"], ",".join(summary(c) for c in e["s"]))
    return e["k"] + str([str(fr(q)) for q in e["q"]])


def check_eval(sp, st):
    """One Eval state of Prox.tla on the real classes; returns list of (props, kind, detail)."""
    e, al, y, out = st["cur"], float(fr(st["alpha"])), st["y"], st["out"]
    n = len(y)
    res = []
    unit_cplx = has_kind(e, {"Unitary"}) and any(any(c[1][0] != 0 for row in m for c in row) for m in _mats(e))
    for cplx in ([True] if (is_cplx(y) or unit_cplx) else [False, True]):
        if cplx and has_kind(e, {"Box"}):
            continue
        exp = np.array([cval(c) for c in out], dtype=np.complex128)
        spells = ["last"]
        if has_kind(e, {"Stack"}):
            shapes = [[n]]
            if has_kind(e, {"L2ProjG"}):
                spells = ["last", "tuple", "numpy"]
        elif has_kind(e, {"Unitary"}):
            shapes = [[n, 1]]
        elif has_kind(e, {"L2ProjG"}):
            gs = group_shape(e)
            shapes = [gs, [gs[0], 1, gs[1]]]      # rows of a matrix; slabs of a 3-D array (axes = (1, 2))
            spells = ["last", "tuple", "numpy"]
        else:
            shapes = factorizations(n)
        for shape, spell in [(sh_, sp_) for sh_ in shapes for sp_ in (spells if len(sh_) < 3 else ["3d"])]:
            AX_SPELL[0] = spell
            yv = npvec(y, cplx).reshape(shape)
            y0 = yv.copy()
            with warnings.catch_warnings():
                warnings.simplefilter("ignore")
                try:
                    del CAPTURED[:]
                    P = build(sp, e, shape, cplx)
                    x = P(al, yv)
                    x_again = P(al, yv)
                except Exception as ex:
                    res.append((["C11"], "exception", "%s shape %s %s input: P(alpha, y) raised %r / %r" % (summary(e), shape, "complex" if cplx else "real", ex, ex.__cause__)))
                    continue
            if not np.array_equal(yv, y0):
                res.append((["C02", "C11"], "input_mutated", "%s modified its input" % summary(e)))
            if any(not np.array_equal(a, a0) for a, a0 in CAPTURED):
                res.append((["C02"], "captured_mutated", "%s modified an array it was built from (bias / z)" % summary(e)))
            if np.shape(x_again) != np.shape(x) or not np.array_equal(x_again, x):
                res.append((["C02"], "nondeterministic", "%s: second call with an equal input gives a different result" % summary(e)))
            if tuple(np.shape(x)) != tuple(shape):
                res.append((["C11"], "shape", "%s: result shape %s, input shape %s" % (summary(e), np.shape(x), shape)))
                continue
            scale = max(1.0, float(np.abs(exp).max()))
            if not core.allclose(np.asarray(x).ravel(), exp, atol=1e-11 * scale, rtol=0):
                res.append((["C11"], "value", "%s alpha=%s y=%s shape %s: got %s, minimiser %s" % (summary(e), al, [str(cval(c)) for c in y], shape, np.asarray(x).ravel()[:6], exp[:6])))
            # the same point in another memory layout (Fortran order, strided view): same minimiser, input untouched
            variants_ = list(core.layouts(yv))
            if not cplx and np.all(yv == np.round(yv)):
                # a real point with whole-number entries as a caller may hold it: an integer array (counts, labels, masks)
                variants_.append(("int64", yv.astype(np.int64)))
            for lab, yl in variants_:
                yl0 = yl.copy()
                try:
                    with warnings.catch_warnings():
                        warnings.simplefilter("ignore")
                        xl = P(al, yl)
                except Exception as ex:
                    if lab == "int64":
                        continue      # (L2Reg rejects integer arrays loudly on the unchanged tree: a rejection is tolerated, a wrong value is not)
                    res.append((["C11"], "exception", "%s shape %s %s input: P(alpha, y) raised %r" % (summary(e), shape, lab, ex)))
                    continue
                if tuple(np.shape(xl)) != tuple(shape) or not core.allclose(np.asarray(xl).ravel(), exp, atol=1e-11 * scale, rtol=0):
                    res.append((["C11"], "value", "%s alpha=%s shape %s: %s input gives a different point than the minimiser" % (summary(e), al, shape, lab)))
                if not np.array_equal(yl, yl0):
                    res.append((["C02", "C11"], "input_mutated", "%s modified its %s input" % (summary(e), lab)))
    return res


def _mats(e):
    out = list(e["m"])
    for c in e["s"]:
        out += _mats(c)
    return out


def check_thresh(sp, st):
    """Base-class states also exercise the thresholding functions directly (2-D / 3-D shapes)."""
    e, al, y, out = st["cur"], fr(st["alpha"]), st["y"], st["out"]
    k = e["k"]
    if k == "L2ProjG":
        return check_groups(sp, st)
    if k not in ("L1Reg", "L2Proj", "LInfProj", "L1Proj"):
        return []
    res = []
    n = len(y)
    exp = np.array([cval(c) for c in out], dtype=np.complex128)
    cplx = is_cplx(y)
    for shape in factorizations(n):
        yv = npvec(y, cplx).reshape(shape)
        y0 = yv.copy()
        try:
            if k == "L1Reg":
                x = sp.thresh.soft_thresh(float(fr(e["q"][1]) * al), yv)
            elif k == "L1Proj":
                x = sp.thresh.l1_proj(float(fr(e["q"][1])), yv)
            elif k == "L2Proj":
                b = npvec(e["v"][0], cplx).reshape(shape)
                x = sp.thresh.l2_proj(float(fr(e["q"][1])), yv - b) + b
            else:
                b = npvec(e["v"][0], cplx).reshape(shape)
                x = sp.thresh.linf_proj(float(fr(e["q"][1])), yv, bias=b)
        except Exception as ex:
            res.append((["C11"], "thresh_exception", "%s on shape %s raised %r" % (k, shape, ex)))
            continue
        if not np.array_equal(yv, y0):
            res.append((["C02", "C11"], "thresh_input_mutated", "thresh function for %s modified its input" % k))
        if tuple(np.shape(x)) != tuple(shape):
            res.append((["C11"], "thresh_shape", "thresh function for %s: result shape %s for input shape %s" % (k, np.shape(x), shape)))
            continue
        if not core.allclose(np.asarray(x).ravel(), exp, atol=1e-11 * max(1.0, float(np.abs(exp).max())), rtol=0):
            res.append((["C11"], "thresh_value", "thresh function for %s(%s) y=%s: got %s expected %s" % (k, [str(fr(q)) for q in e["q"]], [str(cval(c)) for c in y], np.asarray(x).ravel()[:6], exp[:6])))
    return res


def check_groups(sp, st):
    """Grouped projection: the thresholding function with axes, and the same groups laid out as COLUMNS (axes = [0])."""
    e, al, y, out = st["cur"], float(fr(st["alpha"])), st["y"], st["out"]
    g, m = group_shape(e)
    eps = float(fr(e["q"][1]))
    cplx = is_cplx(y)
    exp = np.array([cval(c) for c in out], dtype=np.complex128).reshape(g, m)
    tol = 1e-11 * max(1.0, float(np.abs(exp).max()))
    res = []
    Y = npvec(y, cplx).reshape(g, m)
    B = npvec(e["v"][0], cplx).reshape(g, m)
    cases = [("thresh.l2_proj(axes=[-1])", lambda: sp.thresh.l2_proj(eps, Y - B, axes=[-1]) + B, exp, Y),
             ("thresh.l2_proj(axes=(0,)) on the transpose", lambda: sp.thresh.l2_proj(eps, (Y - B).T, axes=(0,)) + B.T, exp.T, Y),
             ("L2Proj([m, g], axes=[0]) on the transposed view", lambda: sp.prox.L2Proj([m, g], eps, y=B.T, axes=[0])(al, Y.T), exp.T, Y),
             ("L2Proj([m, g], axes=(-2,)) on a transposed copy", lambda: sp.prox.L2Proj([m, g], eps, y=np.ascontiguousarray(B.T), axes=(-2,))(al, np.ascontiguousarray(Y.T)), exp.T, Y),
             ("L2Proj([1, g, m], axes=[0, 2])", lambda: sp.prox.L2Proj([1, g, m], eps, y=B.reshape(1, g, m), axes=[0, 2])(al, Y.reshape(1, g, m)), exp.reshape(1, g, m), Y)]
    for lab, f, want, arg in cases:
        a0 = arg.copy()
        try:
            with warnings.catch_warnings():
                warnings.simplefilter("ignore")
                x = f()
        except Exception as ex:
            if not core.raised_in_code_under_test():
                raise
            res.append((["C11"], "exception", "%s eps=%s raised %r" % (lab, eps, ex)))
            continue
        if tuple(np.shape(x)) != tuple(want.shape) or not core.allclose(x, want, atol=tol, rtol=0):
            res.append((["C11"], "value", "%s eps=%s groups %s: got %s, nearest points %s" % (lab, eps, Y.tolist(), np.asarray(x).ravel()[:6], want.ravel()[:6])))
        if not np.array_equal(arg, a0):
            res.append((["C02", "C11"], "input_mutated", "%s modified its input" % lab))
    return res


PSD_CASES = None


def psd_cases():
    """Hermitian inputs Q D Q^H (+ skew part) with rational unitary Q: repeated, zero and negative eigenvalues."""
    cases = []
    Q2 = np.array([[3, 4], [-4, 3]]) / 5.0
    v = np.array([1.0, 2.0, 2.0])
    Q3 = np.eye(3) - 2 * np.outer(v, v) / 9.0
    Q4 = np.kron(Q2, Q2)
    Q2c = np.array([[3, 4j], [4j, 3]]) / 5.0
    Q4c = np.kron(Q2c, Q2)
    for Q in (Q2, Q3, Q4, Q2c, Q4c):
        n = Q.shape[0]
        for D in itertools.product((2.0, -1.0, 0.0), repeat=n):
            for skew in (0.0, 0.5):
                K = np.triu(np.ones((n, n)), 1) * skew
                K = K - K.T
                Y = Q @ np.diag(D) @ Q.conj().T + (K if not np.iscomplexobj(Q) else 1j * (K + K.T) * 0 + K)
                X = Q @ np.diag(np.maximum(D, 0)) @ Q.conj().T
                cases.append((Y, X, D, skew))
    return cases


def check_psd(sp):
    res = []
    n = 0
    for Y, X, D, skew in psd_cases():
        n += 1
        Y0 = Y.copy()
        try:
            P = sp.prox.PsdProj(list(Y.shape))
            Z = P(1.0, Y)
            Z2 = sp.thresh.psd_proj(Y)
        except Exception as ex:
            res.append((["C11"], "psd_exception", "PsdProj raised %r for eigenvalues %s" % (ex, D)))
            continue
        if not np.array_equal(Y, Y0):
            res.append((["C02", "C11"], "input_mutated", "psd_proj modified its input"))
        for name, W in (("PsdProj", Z), ("psd_proj", Z2)):
            if np.shape(W) != Y.shape or not core.allclose(W, X, atol=1e-10):
                res.append((["C11"], "psd_value", "%s of Q diag%s Q^H (skew part %s, %dx%d %s): max |error| %.3g" % (name, D, skew, Y.shape[0], Y.shape[1], "complex" if np.iscomplexobj(Y) else "real",
                                                                                                                 np.abs(np.asarray(W) - X).max() if np.shape(W) == Y.shape else -1)))
    return res, n


def check_weighted(sp):
    """Array-valued parameters (per-element weights / thresholds / bounds): the elementwise closed forms in exact rationals;
    every object is called several times with different alpha (nothing a call leaves behind may influence the next one) and
    the caller's parameter arrays must stay untouched."""
    from fractions import Fraction as Fr

    res, n = [], 0
    ys = [Fr(3), Fr(-1, 2), Fr(0), Fr(5, 4), Fr(-7, 3), Fr(1)]
    ws = [Fr(1), Fr(2), Fr(1, 2), Fr(0), Fr(3), Fr(1, 4)]
    soft = lambda v, t: (v - t if v > t else (v + t if v < -t else Fr(0)))
    for cplx in (False, True):
        for shape in ([6], [2, 3], [3, 1, 2]):
            yv = np.array([float(v) for v in ys]).reshape(shape) * ((0.6 + 0.8j) if cplx else 1.0)
            lam = np.array([float(v) for v in ws]).reshape(shape)
            lam0 = lam.copy()
            cases = [("L1Reg(array lamda)", lambda: sp.prox.L1Reg(shape, lam), lambda al: [soft(v, al * w) for v, w in zip(ys, ws)]),
                     ("Conj(L1Reg(array lamda))", lambda: sp.prox.Conj(sp.prox.L1Reg(shape, lam)), lambda al: [v - soft(v, w) for v, w in zip(ys, ws)])]
            if not cplx:   # per-element bounds (the box is defined for real arrays): the elementwise clip, also under the Moreau identity
                lo_, hi_ = [Fr(-1), Fr(-1), Fr(-1, 4), Fr(2), Fr(-3), Fr(1)], [Fr(2), Fr(-1, 4), Fr(0), Fr(3), Fr(-2), Fr(1)]
                lo_a, hi_a = np.array([float(v) for v in lo_]).reshape(shape), np.array([float(v) for v in hi_]).reshape(shape)
                clip = lambda v, a, b: min(max(v, a), b)
                cases += [("BoxConstraint(array lower, array upper)", lambda: sp.prox.BoxConstraint(shape, lo_a, hi_a), lambda al: [clip(v, a, b) for v, a, b in zip(ys, lo_, hi_)]),
                          ("BoxConstraint(scalar lower, array upper)", lambda: sp.prox.BoxConstraint(shape, -3.0, hi_a), lambda al: [clip(v, Fr(-3), b) for v, b in zip(ys, hi_)]),
                          ("Conj(BoxConstraint(array bounds))", lambda: sp.prox.Conj(sp.prox.BoxConstraint(shape, lo_a, hi_a)), lambda al: [v - al * clip(v / al, a, b) for v, a, b in zip(ys, lo_, hi_)])]
                bounds0 = (lo_a.copy(), hi_a.copy())
            for name, mk, closed in cases:
                P = mk()
                for al in (Fr(1, 2), Fr(1, 2), Fr(3), Fr(1)):       # the same object, repeatedly, with different steps
                    n += 1
                    y0 = yv.copy()
                    try:
                        x = P(float(al), yv)
                    except Exception as ex:
                        res.append((["C11"], "exception", "%s shape %s raised %r" % (name, shape, ex)))
                        break
                    exp = np.array([float(v) for v in closed(al)]).reshape(shape) * ((0.6 + 0.8j) if cplx else 1.0)
                    if np.shape(x) != tuple(shape) or not core.allclose(x, exp, atol=1e-12):
                        res.append((["C11"], "value", "%s shape %s %s alpha=%s (object re-used): got %s, minimiser %s" % (name, shape, "complex" if cplx else "real", al, np.asarray(x).ravel()[:6], exp.ravel()[:6])))
                    if not np.array_equal(yv, y0):
                        res.append((["C02", "C11"], "input_mutated", "%s modified its input" % name))
                    if not np.array_equal(lam, lam0):
                        res.append((["C02", "C11"], "captured_mutated", "%s modified the weight array it was built from" % name))
                        lam[...] = lam0
                    if not cplx and not (np.array_equal(lo_a, bounds0[0]) and np.array_equal(hi_a, bounds0[1])):
                        res.append((["C02", "C11"], "captured_mutated", "%s modified the bound arrays it was built from" % name))
                        lo_a[...], hi_a[...] = bounds0
    return res, n


def check_mixed_kinds(sp):
    """A REAL input with COMPLEX parameters (centre / bias): the minimiser is complex and must come back complex - alone, inside
    Stack and inside Conj (closed forms with exact Pythagorean numbers)."""
    res, n = [], 0
    x = np.array([3.0, 0.0])                       # real input
    yc = np.array([0.0, 4.0j])                     # complex centre: x - yc = (3, -4j), norm 5
    cases = [
        ("L2Proj(eps=1, y=complex)", lambda: sp.prox.L2Proj([2], 1.0, y=yc), lambda al: yc + (x - yc) / 5.0),
        ("L2Reg(lamda=1, y=complex)", lambda: sp.prox.L2Reg([2], 1.0, y=yc), lambda al: (x + al * yc) / (1 + al)),
        ("LInfProj(eps=1, bias=complex)", lambda: sp.prox.LInfProj([2], 1.0, bias=yc), lambda al: yc + np.array([1.0, -1.0j])),
    ]
    for name, mk, closed in cases:
        for wrap in ("alone", "stack", "stack_last"):
            n += 1
            al = 0.5
            try:
                if wrap == "alone":
                    got = mk()(al, x.copy())
                    exp = closed(al)
                elif wrap == "stack":
                    P = sp.prox.Stack([mk(), sp.prox.L1Reg([2], 0.5)])
                    got = P(al, np.concatenate([x, np.array([2.0, -0.1])]))
                    exp = np.concatenate([closed(al), np.array([1.75, 0.0])])
                else:
                    P = sp.prox.Stack([sp.prox.L1Reg([2], 0.5), mk()])
                    got = P(al, np.concatenate([np.array([2.0, -0.1]), x]))
                    exp = np.concatenate([np.array([1.75, 0.0]), closed(al)])
            except Exception:
                continue     # a rejection of the mixed-kind call (L2Reg adds the complex bias into a real buffer and raises) is not a wrong answer
            if np.shape(got) != np.shape(exp) or not core.allclose(got, exp, atol=1e-12):
                res.append((["C11"], "value", "%s (%s) on a real input: got %s, minimiser %s" % (name, wrap, np.asarray(got).ravel(), exp)))
    return res, n


def run(ctx):
    import sigpy as sp

    r = core.EngineResult("prox")
    wd = tlc.fresh_dir("prox_%s" % ctx.tier)
    body, cfg = mc_text(ctx, 2 if ctx.thorough else 1)
    tlc.write_mc(wd, "MC_Prox", body, cfg)
    res = tlc.run_tlc(wd, "MC_Prox", dump=True, coverage=False, timeout=3600 if ctx.thorough else 900)
    r.add_tlc(res, "Prox")
    if res.violated:
        tr = tlc.error_trace(res.stdout)
        st = tr[-1] if tr else {}
        r.violations.append(core.Violation(["C11"], "prox", {"kind": "spec_invariant", "invariant": res.violated, "expr": summary(st["cur"]) if "cur" in st else "?"},
                                           "TLC: %s fails - the closed form transcribed from prox.py/thresh.py is not the minimiser of the documented problem" % res.violated, {"state": repr(st)[:3000]}))
        return r
    if r.machinery_error:
        return r
    n = 0
    kinds = {}
    rr = ctx.rng("prox_subset")
    for st in tlaval.read_dump(res.dump_path):
        if st["phase"] != "done":
            continue
        if ctx.thorough and rr.random() > 0.25:
            continue  # thorough explores ~16x more trees in TLC; a seeded quarter is replayed
        n += 1
        sm = summary(st["cur"])
        kinds[st["cur"]["k"]] = kinds.get(st["cur"]["k"], 0) + 1
        for props, kind, detail in check_eval(sp, st) + check_thresh(sp, st):
            r.violations.append(core.Violation(props, "prox", {"kind": kind, "top": st["cur"]["k"], "expr": sm, "classes": sorted(_classes(st["cur"]))}, detail, {"state": _plain(st)}))
        if len(r.samples) < 5 and n % 2500 == 1:
            r.samples.append({"expr": sm, "alpha": str(fr(st["alpha"])), "y": [str(cval(c)) for c in st["y"]], "minimiser": [str(cval(c)) for c in st["out"]]})
    pres, npsd = check_psd(sp)
    wres, nw = check_weighted(sp)
    pres = pres + wres
    npsd += nw
    mres, nm = check_mixed_kinds(sp)
    pres = pres + mres
    npsd += nm
    for props, kind, detail in pres:
        r.violations.append(core.Violation(props, "prox", {"kind": kind, "top": "PsdProj", "classes": ["PsdProj"]}, detail, {}))
    r.traces = n + npsd
    r.evaluations = n + npsd
    r.nontrivial = n + npsd
    r.exhaustive = not ctx.thorough
    r.notes.append("%d evaluations replayed (by top class %s) + %d PSD projections" % (n, kinds, npsd))
    r.count("C11", r.traces, r.evaluations, r.nontrivial)
    r.count("C02", r.traces, r.evaluations, r.nontrivial)
    return r


def _classes(e):
    s = {e["k"]}
    for c in e["s"]:
        s |= _classes(c)
    return s


def _plain(x):
    if isinstance(x, tuple):
        return [_plain(i) for i in x]
    if isinstance(x, dict):
        return {k: _plain(v) for k, v in x.items()}
    return x
