"""Engine rfassembly (beyond the listed properties; reported by ./check extra).

Pins.tla models the interleaving of hard sub-pulses and gradient blips that
dz_pins assembles.  TLC checks mutual exclusion of RF and gradient, equal
lengths and the final layout for the actual (n, hpw, lb) of a set of requests;
the final state of every instance is compared with the arrays dz_pins returns
(occupancy masks, blip areas, flip-angle preservation).
"""
from fractions import Fraction as Fr

import numpy as np

from .. import core, tlaval, tlc


def requests(ctx):
    rng = ctx.rng("pins")
    out = []
    while len(out) < (24 if ctx.thorough else 10):
        tb = Fr(rng.choice([2, 3, 4, 6]))
        sep = Fr(rng.choice([2, 3, 5, 8]))
        th = Fr(rng.choice([1, 2, 3, 5]), rng.choice([2, 4, 10]))
        kw = tb * sep / th
        n = 2 * (-((-kw.numerator) // kw.denominator) // 2)
        if n < 4 or n > 40 or n <= 2 * tb:
            continue
        out.append({"tb": tb, "sl_sep": sep, "sl_thick": th, "g_max": rng.choice([2.0, 4.0]), "g_slew": rng.choice([10000.0, 18000.0]), "dt": rng.choice([4e-6, 1e-5]),
                    "b1_max": rng.choice([0.1, 0.18, 0.3]), "ptype": rng.choice(["st", "ex", "se"])})
    return out


def run(ctx):
    core.use_repo()
    import sigpy.mri.rf as rf

    r = core.EngineResult("rfassembly")
    wd = tlc.fresh_dir("rfassembly_%s" % ctx.tier)
    reqs = requests(ctx)
    insts, outs = [], []
    for i, q in enumerate(reqs):
        a = dict(tb=float(q["tb"]), sl_sep=float(q["sl_sep"]), sl_thick=float(q["sl_thick"]), g_max=q["g_max"], g_slew=q["g_slew"], dt=q["dt"], b1_max=q["b1_max"], ptype=q["ptype"])
        try:
            pulse, g = rf.multiband.dz_pins(**a)
        except Exception as e:
            r.violations.append(core.Violation(["SPEC"], "rfassembly", {"kind": "raises", "args": {k: str(v) for k, v in q.items()}}, "dz_pins(%s) raised %r" % (a, e), {}))
            continue
        # the two designers the assembly uses (their own correctness is C19 / C20): envelope -> hpw, blip -> lb
        kz = a["tb"] / a["sl_thick"]
        n_code = int(2 * np.floor(np.ceil(kz / (1 / a["sl_sep"])) / 2))
        soft = rf.slr.dzrf(n_code, a["tb"], a["ptype"], "ls", 0.01, 0.01)
        blip, _ = rf.trajgrad.trap_grad(1 / a["sl_sep"] / 4258, a["g_max"], a["g_slew"], a["dt"])
        hpw = int(np.ceil(np.max(np.abs(soft)) / (2 * np.pi * 4258 * a["b1_max"] * a["dt"])))
        insts.append("[id |-> %d, tbn |-> %d, tbd |-> %d, sepn |-> %d, sepd |-> %d, thn |-> %d, thd |-> %d, hpw |-> %d, lb |-> %d]"
                     % (i, q["tb"].numerator, q["tb"].denominator, q["sl_sep"].numerator, q["sl_sep"].denominator, q["sl_thick"].numerator, q["sl_thick"].denominator, hpw, int(np.size(blip))))
        outs.append((i, q, a, np.asarray(pulse).ravel(), np.asarray(g).ravel(), soft, np.asarray(blip).ravel()))
    body = "EXTENDS Pins\nMCInsts == {%s}\n" % ",\n ".join(insts)
    cfg = "SPECIFICATION Spec\nCONSTANTS\n Insts <- MCInsts\nINVARIANT SameLength\nINVARIANT NeverTogether\nINVARIANT NeverSilent\nINVARIANT FinalLength\nINVARIANT EndsWithSub\nPROPERTY Finishes\n"
    tlc.write_mc(wd, "MC_Pins", body, cfg)
    res = tlc.run_tlc(wd, "MC_Pins", dump=True, coverage=False, timeout=900)
    r.add_tlc(res, "Pins")
    if res.violated:
        r.machinery_error = "Pins.tla violates %s" % res.violated
        return r
    if res.error:
        return r
    final = {st["inst"]["id"]: st for st in tlaval.read_dump(res.dump_path) if st["phase"] == "end"}
    n = 0
    for i, q, a, pulse, g, soft, blip in outs:
        st = final.get(i)
        key = {"kind": "layout", "args": {k: str(v) for k, v in q.items()}}
        if st is None:
            r.violations.append(core.Violation(["SPEC"], "rfassembly", key, "no final model state for request %s" % a, {}))
            continue
        n += 1
        rfm, gm = np.array(st["rfm"]), np.array(st["gm"])
        if len(pulse) != len(rfm) or len(g) != len(gm):
            r.violations.append(core.Violation(["SPEC"], "rfassembly", key, "dz_pins lengths rf %d, g %d; model %d (n = %d sub-pulses of %d samples, blips of %d)" % (len(pulse), len(g), len(rfm), st["k"], st["inst"]["hpw"], st["inst"]["lb"]), {}))
            continue
        bad = []
        if np.any((pulse != 0) & (rfm == 0)):
            bad.append("RF plays outside the sub-pulse windows")
        if np.any((g != 0) & (gm == 0)):
            bad.append("gradient plays outside the blip windows")
        if np.any((pulse != 0) & (g != 0)):
            bad.append("RF and gradient overlap")
        lb, hpw = st["inst"]["lb"], st["inst"]["hpw"]
        areas = [float(np.sum(g[j * (hpw + lb) + hpw:(j + 1) * (hpw + lb)]) * a["dt"]) for j in range(st["k"] - 1)]
        want = 1 / a["sl_sep"] / 4258
        if areas and max(abs(x - want) for x in areas) > 1e-9 * want + 1e-15:
            bad.append("blip areas %s differ from 1/(sl_sep gambar) = %.6g" % (areas[:3], want))
        flip = complex(np.sum(pulse) * 2 * np.pi * 4258 * a["dt"])
        if abs(flip - complex(np.sum(soft))) > 1e-9 * max(1.0, abs(complex(np.sum(soft)))):
            bad.append("total flip %s differs from the envelope's %s" % (flip, complex(np.sum(soft))))
        # each sub-pulse is constant and proportional to its envelope sample
        sub = np.array([pulse[j * (hpw + lb)] for j in range(st["k"])])
        if np.linalg.norm(sub * np.sum(soft) - soft * np.sum(sub)) > 1e-9 * max(1.0, np.linalg.norm(soft) * abs(np.sum(sub))):
            bad.append("sub-pulse amplitudes are not proportional to the SLR envelope")
        for b in bad:
            r.violations.append(core.Violation(["SPEC"], "rfassembly", key, "dz_pins(%s): %s" % (a, b), {}))
    r.traces += n
    r.evaluations += n
    r.nontrivial += n
    r.notes.append("Pins: %d requests, sub-pulse counts %s, %d final layouts compared with dz_pins" % (len(reqs), sorted({st["k"] for st in final.values()}), n))
    return r
