"""Engine lls (C14; recon part of C16 reuses it).

TLC explores LLS.tla: every option record is dispatched / validated / assembled
as _get_alg does, and AssembledIsDocumented + RejectedIffInexpressible are
checked (the pinned primal-dual G branch is kept as a negative control).
Every final state is replayed: the configuration is instantiated on small real
and complex instances, app.run() must return a point whose DOCUMENTED objective
is within tolerance of the optimum - computed independently by enumerating the
smooth pieces of the objective (KKT systems) - or raise where the spec says
rejected; all solvers that accept a problem must agree.
"""
import itertools
import multiprocessing as mp
import warnings

import numpy as np

from .. import core, tlaval, tlc

SOLVERS = ["None", "ConjugateGradient", "GradientMethod", "PrimalDualHybridGradient", "ADMM", "Bogus"]
LAM = 0.4
LAMG = 0.3
LAM2 = 0.7
BOX = (-0.2, 0.5)


def instance(seed, cplx):
    rs = np.random.RandomState(1000 + seed)
    A = rs.randn(3, 2) + (1j * rs.randn(3, 2) if cplx else 0)
    y = rs.randn(3, 1) + (1j * rs.randn(3, 1) if cplx else 0)
    z = np.array([[0.5], [-1.0]]) + (np.array([[0.25j], [0.5j]]) if cplx else 0)
    Gd = np.array([[1.0, -1.0], [0.0, 1.0]]) + (np.array([[0, 0.5j], [0, 0]]) if cplx else 0)
    return A, y, z, Gd


def gmatrix(kind, Gd):
    if kind == "None":
        return np.eye(2, dtype=Gd.dtype)
    if kind == "dense":
        return Gd
    return np.array([[1.0, -1.0], [-1.0, 1.0]], dtype=Gd.dtype)  # FiniteDifference([2, 1], axes=[0]): x - roll(x, 1)


def objective(A, y, z, lam, gk, Gm, x):
    x = x.reshape(2, 1)
    f = 0.5 * np.linalg.norm(A @ x - y) ** 2
    if lam > 0:
        f += lam / 2 * np.linalg.norm(x - (z if z is not None else 0)) ** 2
    v = Gm @ x
    if gk == "l1":
        f += LAMG * np.abs(v).sum()
    elif gk == "l2":
        f += LAM2 / 2 * np.linalg.norm(v) ** 2
    elif gk == "box":
        if (np.real(v) < BOX[0] - 1e-4).any() or (np.real(v) > BOX[1] + 1e-4).any():
            f = np.inf
    return float(np.real(f))


def optimum(A, y, z, lam, gk, Gm):
    """Exact minimiser by enumerating the smooth pieces (real data) or the closed form (quadratic g)."""
    H = A.conj().T @ A + lam * np.eye(2)
    rhs = A.conj().T @ y + (lam * z if (lam > 0 and z is not None) else 0)
    if gk in ("None", "l2"):
        Hh = H + (LAM2 * Gm.conj().T @ Gm if gk == "l2" else 0)
        x = np.linalg.solve(Hh, rhs)
        return x, objective(A, y, z, lam, gk, Gm, x)
    assert not np.iscomplexobj(A)
    m = Gm.shape[0]
    best, bestx = np.inf, None
    choices = [(-1, 0, 1)] * m if gk == "l1" else [("free", "lo", "hi")] * m
    for pat in itertools.product(*choices):
        lin = np.zeros((2, 1))
        rows, vals = [], []
        for i, c in enumerate(pat):
            if gk == "l1":
                if c == 0:
                    rows.append(Gm[i]); vals.append(0.0)
                else:
                    lin += LAMG * c * Gm[i].reshape(2, 1)
            else:
                if c != "free":
                    rows.append(Gm[i]); vals.append(BOX[0] if c == "lo" else BOX[1])
        if rows:
            C = np.array(rows)
            K = np.block([[H, C.T], [C, np.zeros((len(rows), len(rows)))]])
            r = np.concatenate([(rhs - lin).ravel(), np.array(vals)])
            sol = np.linalg.lstsq(K, r, rcond=None)[0]
            x = sol[:2].reshape(2, 1)
            if np.abs(C @ x - np.array(vals).reshape(-1, 1)).max() > 1e-9:
                continue
        else:
            x = np.linalg.solve(H, rhs - lin)
        f = objective(A, y, z, lam, gk, Gm, x)
        if f < best:
            best, bestx = f, x
    return bestx, best


def build_and_run(job):
    core.use_repo()
    import sigpy as sp
    from sigpy import app, linop, prox

    o, variant, cplx, seed = job["opt"], job["variant"], job["cplx"], job["seed"]
    A, y, z, Gd = instance(seed, cplx)
    lam = LAM if o["lamda"] == "pos" else 0
    zz = z if o["z"] == "given" else None
    Gm = gmatrix(o["G"], Gd)
    Aop = linop.MatMul([2, 1], A)
    if job.get("aop"):
        # forward operators whose normal operator is the Identity linop (which returns its input array): orthonormal FFT,
        # Identity, Circshift - any aliasing / in-place slip in a solver branch shows up only with such operators
        Aop = {"fft": lambda: linop.FFT([2, 1], axes=(0,)), "identity": lambda: linop.Identity([2, 1]), "circshift": lambda: linop.Circshift([2, 1], [1], axes=[0])}[job["aop"]]()
        A = np.stack([np.asarray(Aop(e_.reshape(2, 1).astype(np.complex128 if cplx else np.float64))).ravel() for e_ in np.eye(2)], axis=1)
        y = y[:2].astype(np.complex128 if (cplx or job["aop"] == "fft") else np.float64)
    G = None
    gshape = [2, 1]
    if o["G"] == "dense":
        G = linop.MatMul([2, 1], Gd)
    elif o["G"] == "fd":
        G = linop.FiniteDifference([2, 1], axes=[0])
        gshape = G.oshape
    img = bool(job.get("img"))
    ish = [2, 1]
    if img:
        # the unknown is a 2 x 2 IMAGE whose columns are two copies of the 2-unknown problem (all operators act column-wise), so
        # every column of the solution must be the minimiser of the documented objective - and the caller holds the image in
        # column-major order, which no reshape can flatten without a copy
        ish = [2, 2]
        Aop = linop.MatMul(ish, A)
        y_col, y = y, np.hstack([y, y])
        if zz is not None:
            zz_col, zz = zz, np.hstack([zz, zz])
        if o["G"] == "dense":
            G = linop.MatMul(ish, Gd)
            gshape = [2, 2]
        elif o["G"] == "fd":
            G = linop.FiniteDifference(ish, axes=[0])
            gshape = G.oshape
        else:
            gshape = [2, 2]
    pg = None
    if o["proxg"] == "l1":
        pg = prox.L1Reg(gshape, LAMG)
    elif o["proxg"] == "l2":
        pg = prox.L2Reg(gshape, LAM2)
    elif o["proxg"] == "box":
        pg = prox.BoxConstraint(gshape, BOX[0], BOX[1])
    kw = dict(show_pbar=False)
    solver = None if o["solver"] == "None" else o["solver"]
    eff = solver or ("ConjugateGradient" if pg is None else ("GradientMethod" if G is None else "PrimalDualHybridGradient"))
    L = np.linalg.norm(A, 2) ** 2 + lam
    if eff == "ConjugateGradient":
        kw.update(max_iter=30)
        if variant % 2 == 1:
            kw.update(P=linop.Multiply([2, 1], 1.0 / np.real(np.diag(A.conj().T @ A + lam * np.eye(2))).reshape(2, 1)))
    elif eff == "GradientMethod":
        kw.update(max_iter=4000)
        if variant % 2 == 1:
            kw.update(alpha=1.0 / L, accelerate=False)
    elif eff == "PrimalDualHybridGradient":
        kw.update(max_iter=6000)
        # step sizes given or defaulted independently: none / sigma only / both / tau only (the library derives the other one)
        if variant % 4 == 1:
            kw.update(sigma=0.5)
        elif variant % 4 == 2:
            nA = np.linalg.norm(np.vstack([A, Gm]) if G is not None else A, 2)
            kw.update(tau=0.9 / nA, sigma=0.9 / nA)
        elif variant % 4 == 3:
            kw.update(tau=0.7)
    elif eff == "ADMM":
        kw.update(max_iter=400, max_cg_iter=10, rho=[1.0, 0.5][variant % 2])
    if variant >= 2:
        kw.update(x=(np.array([[0.3], [-0.7]]) + (0.1j if cplx else 0)).astype(y.dtype))
    if job.get("pbar"):
        # progress bar on: App.run takes its other path and _summarize evaluates the documented objective after every update
        # (save_objective_values with the regulariser passed as g): the recorded values must be the documented objective
        kw.update(show_pbar=True, leave_pbar=False, save_objective_values=True)
        if o["proxg"] == "l1":
            kw.update(g=lambda v: LAMG * float(np.abs(v).sum()))
        elif o["proxg"] == "l2":
            kw.update(g=lambda v: LAM2 / 2 * float(np.linalg.norm(v) ** 2))
        elif o["proxg"] == "box":
            kw.update(g=lambda v: 0.0)
    if job.get("x32"):
        # warm start whose dtype differs from the data's (float32 / complex64): the solution must still be written into it
        kw.update(x=(np.array([[0.3], [-0.7]]) + (0.1j if cplx else 0)).astype(np.complex64 if cplx else np.float32))
    if img:
        x0i = np.hstack([np.array([[0.3], [-0.7]])] * 2) + (0.1j if cplx else 0)
        kw["x"] = np.asfortranarray((x0i if variant % 2 else 0 * x0i).astype(y.dtype))
        if "P" in kw:
            kw["P"] = linop.Multiply(ish, 1.0 / np.real(np.diag(A.conj().T @ A + lam * np.eye(2))).reshape(2, 1))
    if job.get("xview"):
        # warm start that is a plane of a larger array the caller owns (a 2-D view that no reshape can flatten without a copy):
        # the solution must be written into THAT memory
        vol = np.zeros((4, 2), dtype=y.dtype)
        xv = vol[::2, 1:2]
        xv[...] = (np.array([[0.3], [-0.7]]) + (0.1j if cplx else 0)).astype(y.dtype)
        kw.update(x=xv)
    np.random.seed(seed)
    y_before = y.copy()
    res = {"opt": o, "variant": variant, "cplx": cplx, "eff": eff}
    with warnings.catch_warnings():
        warnings.simplefilter("ignore")
        try:
            if job.get("pbar"):
                import contextlib
                import os

                with open(os.devnull, "w") as dn, contextlib.redirect_stderr(dn):   # the bars themselves are of no interest
                    ap = app.LinearLeastSquares(Aop, y, proxg=pg, lamda=lam, G=G, z=zz, solver=solver, **kw)
                    x = ap.run()
            elif job.get("positional"):
                # the leading parameters passed by position, in the order of the published signature
                # (A, y, x, proxg, lamda, G, g, z, solver): a positional caller must get the same problem
                kwp = dict(kw)
                x0p = kwp.pop("x", None)
                ap = app.LinearLeastSquares(Aop, y, x0p, pg, lam, G, None, zz, solver, **kwp)
                x = ap.run()
            else:
                ap = app.LinearLeastSquares(Aop, y, proxg=pg, lamda=lam, G=G, z=zz, solver=solver, **kw)
                x = ap.run()
        except Exception as e:
            res["raised"] = "%s: %s" % (type(e).__name__, str(e)[:200])
            return res
    res["y_unchanged"] = bool(np.array_equal(y, y_before))
    res["x"] = [complex(v) for v in np.asarray(x).ravel()]
    if img:
        if np.shape(x) != (2, 2):
            res["raised"] = "returned shape %s for a [2, 2] unknown" % (np.shape(x),)
            return res
        y, zz = y_col, (zz_col if zz is not None else None)
        res["f"] = max(objective(A, y, zz, lam, o["proxg"], Gm, np.asarray(x)[:, j].copy()) for j in range(2))
    else:
        res["f"] = objective(A, y, zz, lam, o["proxg"], Gm, np.asarray(x))
    res["returned_is_app_x"] = bool(x is ap.x)
    held = getattr(ap.alg, "x", None)
    res["returned_equals_alg_x"] = bool(held is None or (np.shape(held) == np.shape(x) and core.allclose(np.asarray(held), np.asarray(x), rtol=1e-5, atol=1e-6)))
    res["x32"] = bool(job.get("x32"))
    if job.get("pbar"):
        ov = list(getattr(ap, "objective_values", []))
        res["recorded_objective"] = float(ov[-1]) if ov else None
        res["recorded_count"] = len(ov)
        res["updates"] = int(ap.alg.iter)
    if "x" in kw:
        res["x_is_callers"] = bool(x is kw["x"])
    xs, fs = optimum(A, y, zz, lam, o["proxg"], Gm)
    res["fstar"] = fs
    res["xstar"] = [complex(v) for v in xs.ravel()]
    return res


def run(ctx):
    r = core.EngineResult("lls")
    wd = tlc.fresh_dir("lls_%s" % ctx.tier)
    consts = ('CONSTANTS\n Solvers = {%s}\n Lamdas = {"zero", "pos"}\n Zs = {"None", "given"}\n Proxgs = {"None", "l1", "l2", "box"}\n Gs = {"None", "dense", "fd"}\n'
              % ", ".join('"%s"' % s for s in SOLVERS))
    for pin, label in (("FALSE", "repaired"), ("TRUE", "pinned_negative_control")):
        cfg = "SPECIFICATION Spec\n" + consts + " PinnedPDHG = %s\nINVARIANT AssembledIsDocumented\nINVARIANT RejectedIffInexpressible\nPROPERTY Decides\n" % pin
        tlc.write_mc(wd, "MC_LLS_" + label, "EXTENDS LLS\n", cfg)
        res = tlc.run_tlc(wd, "MC_LLS_" + label, workers=4, dump=(pin == "FALSE"), timeout=300, coverage=(pin == "FALSE"))
        if pin == "FALSE":
            r.add_tlc(res, "LLS")
            if res.violated:
                r.violations.append(core.Violation(["C14"], "lls", {"kind": "spec_invariant", "invariant": res.violated},
                                                   "TLC: %s fails on LLS.tla - a branch of _get_alg assembles a different problem than documented" % res.violated, {}))
                return r
            dump = res.dump_path
        else:
            r.states += res.distinct
            r.transitions += res.generated
            if res.violated != "AssembledIsDocumented":
                r.machinery_error = "negative control lost: pinned PDHG/G branch no longer violates AssembledIsDocumented"
                return r
            r.notes.append("negative control: the pinned G branch (lamda term moved onto Gx) violates AssembledIsDocumented in TLC")
    if r.machinery_error:
        return r
    finals = [st for st in tlaval.read_dump(dump) if st["phase"] in ("ready", "rejected")]
    jobs = []
    nvar = 4 if ctx.thorough else 2
    for st in finals:
        o = st["opt"]
        for v in range(4 if o["solver"] in ("PrimalDualHybridGradient", "None") else nvar):
            for cplx in ([False, True] if o["proxg"] in ("None", "l2") else [False]):
                jobs.append({"opt": o, "variant": v + (2 if (v % 2 and ctx.seed % 2) else 0) * 0, "cplx": cplx, "seed": ctx.seed + v, "phase": st["phase"]})
        if st["phase"] == "ready":
            jobs.append({"opt": o, "variant": 0, "cplx": o["proxg"] in ("None", "l2") and (len(jobs) % 2 == 0), "seed": ctx.seed, "phase": st["phase"], "x32": True})
            jobs.append({"opt": o, "variant": 1, "cplx": False, "seed": ctx.seed + 1, "phase": st["phase"], "pbar": True})
            jobs.append({"opt": o, "variant": 1, "cplx": o["proxg"] in ("None", "l2") and (len(jobs) % 2 == 1), "seed": ctx.seed + 4, "phase": st["phase"], "xview": True})
            jobs.append({"opt": o, "variant": len(jobs) % 4, "cplx": o["proxg"] in ("None", "l2") and (len(jobs) % 3 == 1), "seed": ctx.seed + 5, "phase": st["phase"], "img": True})
            jobs.append({"opt": o, "variant": 0, "cplx": False, "seed": ctx.seed + 3, "phase": st["phase"], "positional": True})
            cx = o["proxg"] in ("None", "l2")
            jobs.append({"opt": o, "variant": len(jobs) % 2, "cplx": cx, "seed": ctx.seed + 2, "phase": st["phase"], "aop": "fft" if cx else ["identity", "circshift"][len(jobs) % 2]})
    with mp.get_context("fork").Pool(16) as pool:
        results = pool.map(build_and_run, jobs, chunksize=4)
    by_problem = {}
    for job, res in zip(jobs, results):
        o = job["opt"]
        key = {"solver": o["solver"], "lamda": o["lamda"], "z": o["z"], "proxg": o["proxg"], "G": o["G"], "variant": job["variant"], "complex": job["cplx"], "x32": bool(job.get("x32")), "xview": bool(job.get("xview")), "img": bool(job.get("img")), "pbar": bool(job.get("pbar")), "aop": job.get("aop", "matmul"), "positional": bool(job.get("positional"))}
        r.traces += 1
        r.evaluations += 1
        r.nontrivial += 1
        if job["phase"] == "rejected":
            if "raised" not in res:
                r.violations.append(core.Violation(["C14"], "lls", dict(key, kind="inexpressible_accepted"),
                                                   "configuration the solver cannot express did not raise; returned x = %s" % res.get("x"), {"result": res}))
            continue
        if "raised" in res:
            r.violations.append(core.Violation(["C14"], "lls", dict(key, kind="supported_raises"), "supported configuration raised %s" % res["raised"], {"result": res}))
            continue
        gap = res["f"] - res["fstar"]
        tol = 2e-3 * max(1.0, abs(res["fstar"]))     # (float32 warm starts reach ~1e-6 relative: well inside)
        if not np.isfinite(res["f"]) or gap > tol:
            r.violations.append(core.Violation(["C14"], "lls", dict(key, kind="not_minimiser", eff=res["eff"]),
                                               "documented objective at the returned x is %.6g, optimum %.6g (gap %.3g > %.3g); x = %s, x* = %s" % (res["f"], res["fstar"], gap, tol, res["x"], res["xstar"]), {"result": res}))
        if job.get("pbar"):
            ro = res.get("recorded_objective")
            if ro is None or abs(ro - res["f"]) > 1e-9 * max(1.0, abs(res["f"])) or res.get("recorded_count") != res.get("updates", 0) + 1:
                r.violations.append(core.Violation(["C14"], "lls", dict(key, kind="recorded_objective"),
                                                   "objective_values[-1] = %s after %s updates (%s values recorded), documented objective at the returned x = %.12g" % (ro, res.get("updates"), res.get("recorded_count"), res["f"]), {"result": res}))
        if res.get("y_unchanged") is False:
            r.violations.append(core.Violation(["C14"], "lls", dict(key, kind="data_overwritten"), "LinearLeastSquares overwrote the caller's data array y (the documented objective is stated for the y that was passed)", {"result": res}))
        if not res.get("returned_equals_alg_x", True):
            r.violations.append(core.Violation(["C15", "C14"], "lls", dict(key, kind="returns_other_than_alg_holds"), "App.run() returned an array that differs from the solution the algorithm holds (alg.x)", {"result": res}))
        if not res.get("returned_is_app_x", True) or res.get("x_is_callers") is False:
            r.violations.append(core.Violation(["C14", "C15"], "lls", dict(key, kind="not_callers_array"), "run() did not return the caller's / the app's x array", {"result": res}))
        pk = (o["lamda"], o["z"], o["proxg"], o["G"], job["cplx"], job["seed"])
        by_problem.setdefault(pk, []).append((res["eff"], res["f"]))
        if len(r.samples) < 5 and r.traces % 90 == 1:
            r.samples.append({"config": key, "solver_used": res["eff"], "objective": res["f"], "optimum": res["fstar"]})
    nrej = sum(1 for j in jobs if j["phase"] == "rejected")
    r.notes.append("%d configurations x variants replayed (%d expected rejections)" % (len(jobs), nrej))
    r.count("C14", r.traces, r.evaluations, r.nontrivial)
    r.count("C15", r.traces, r.evaluations, r.nontrivial)
    return r
