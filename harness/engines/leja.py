"""Engine leja (beyond the listed properties; reported by ./check extra).

Leja.tla models sigpy.util.leja (the root ordering the inverse SLR transform
relies on) on Gaussian-integer roots: the column-swapping mechanism with its
running product, checked by TLC against the meaning (a re-ordering that is
greedy for |p| prod |p - out_j|).  Ties are nondeterministic in the model.
Replay: for every instance the code's answer must be the final state of ONE of
the model's behaviours - in every dtype / container / layout a caller may pass -
and the argument must come back unchanged.
"""
import itertools
import warnings

import numpy as np

from .. import core, tlaval, tlc


def instances(ctx):
    rng = core.Ctx("leja", ctx.tier, 0).rng("leja")  # fixed family: products must stay below 2^31 in TLC
    pts1 = [(a, b) for a in (-1, 0, 1) for b in (-1, 0, 1)]
    out = []
    for n in (1, 2, 3):
        out += [list(s) for s in itertools.product(pts1, repeat=n)]
    bound = {4: 3, 5: 3, 6: 3, 7: 2, 8: 1, 9: 1, 10: 1}
    reps = 60 if ctx.thorough else 25
    for n, c in bound.items():
        for _ in range(reps):
            out.append([(rng.randint(-c, c), rng.randint(-c, c)) for _ in range(n)])
        for _ in range(reps // 2):  # roots of a real polynomial: conjugate pairs and real roots (ties of moduli are the normal case)
            s = []
            while len(s) < n:
                a, b = rng.randint(-c, c), rng.randint(0, c)
                s += [(a, b), (a, -b)] if b and len(s) + 2 <= n else [(a, 0)]
            rng.shuffle(s)
            out.append(s)
        for _ in range(reps // 4):  # real roots only, repeated roots
            out.append([(rng.randint(-c, c), 0) for _ in range(n)])
            p = (rng.randint(-c, c), rng.randint(-c, c))
            out.append([p if rng.random() < 0.5 else (rng.randint(-c, c), rng.randint(-c, c)) for _ in range(n)])
    seen, uniq = set(), []
    for s in out:
        t = tuple(s)
        if t not in seen:
            seen.add(t)
            uniq.append(s)
    return uniq


def to_tla(s):
    return "<<%s>>" % ", ".join("<<%d, %d>>" % p for p in s)


def variants(s):
    """The same roots as a caller may hold them."""
    z = np.array([complex(a, b) for a, b in s])
    vs = [("complex128", z), ("complex64", z.astype(np.complex64)), ("list", [complex(v) for v in z])]
    if len(s) >= 2:
        vs += [(lab, v) for lab, v in core.layouts(z)]
        if len(s) % 2 == 0:
            vs.append(("2-D", z.reshape(2, -1)))
    if all(b == 0 for _, b in s):
        vs += [("float64", z.real.copy()), ("float32", z.real.astype(np.float32))]
    return vs


def run(ctx):
    core.use_repo()
    import sigpy as sp

    r = core.EngineResult("leja")
    wd = tlc.fresh_dir("leja_%s" % ctx.tier)
    insts = instances(ctx)
    body = "EXTENDS Leja\nMCInsts == {%s}\n" % ",\n ".join(to_tla(s) for s in insts)
    cfg = ("SPECIFICATION Spec\nCONSTANTS\n Insts <- MCInsts\nINVARIANT AlwaysReordering\nINVARIANT RunningProductIsCriterion\nINVARIANT PlacedPrefixGreedy\n"
           "INVARIANT ResultIsGreedy\nPROPERTY PlacedOnlyOnce\nPROPERTY Terminates\n")
    tlc.write_mc(wd, "MC_Leja", body, cfg)
    res = tlc.run_tlc(wd, "MC_Leja", dump=True, coverage=True, timeout=1500)
    r.add_tlc(res, "Leja")
    if res.violated:
        r.machinery_error = "Leja.tla: the mechanism violates %s" % res.violated
        return r
    if res.error:
        return r
    allowed = {}
    for st in tlaval.read_dump(res.dump_path):
        if st["pc"] == "done":
            allowed.setdefault(tuple(tuple(p) for p in st["x"]), set()).add(tuple(tuple(p) for p in st["cols"]))
    n = ties = 0
    for s in insts:
        ok = allowed.get(tuple(s))
        key = {"kind": "leja", "roots": [list(p) for p in s]}
        if not ok:
            r.machinery_error = "no final model state for %s" % (s,)
            return r
        ties += len(ok) > 1
        for lab, v in variants(s):
            v0 = np.array(v, copy=True)
            try:
                with warnings.catch_warnings():
                    warnings.simplefilter("ignore")
                    got = sp.util.leja(v)
            except Exception as e:
                if not core.raised_in_code_under_test():
                    raise
                r.violations.append(core.Violation(["SPEC"], "leja", dict(key, variant=lab), "leja raised %r on %s roots %s" % (e, lab, s), {}))
                continue
            n += 1
            g = np.asarray(got).ravel()
            gt = tuple((int(round(float(np.real(c)))), int(round(float(np.imag(c))))) for c in g)
            exact = len(g) == len(s) and core.allclose(g, [complex(a, b) for a, b in gt], atol=1e-6)
            if not exact or gt not in ok:
                r.violations.append(core.Violation(["SPEC"], "leja", dict(key, variant=lab),
                                                   "leja(%s roots %s) = %s is not a behaviour of Leja.tla (%d admissible orderings, e.g. %s)" % (lab, s, list(g), len(ok), sorted(ok)[0]), {}))
            if not np.array_equal(np.asarray(v), v0):
                r.violations.append(core.Violation(["SPEC"], "leja", dict(key, variant=lab, what="purity"), "leja modified its %s argument" % lab, {}))
    r.traces += len(insts)
    r.evaluations += n
    r.nontrivial += ties
    r.notes.append("Leja: %d root sets (sizes 1-10, %d with more than one admissible ordering), %d calls (dtypes, containers, layouts) each one behaviour of the model" % (len(insts), ties, n))
    return r
