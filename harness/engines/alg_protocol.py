"""Engine alg_protocol (C15 protocol clause + early-stop probe; suite traces).

1. TLC model-checks AlgLoop.tla (invariants, action properties, liveness of the
   canonical loop) for max_iter 0..3 and dumps the labelled state graph.
2. Walks of that graph (seeded random walks + one walk per edge) are projected to
   API call sequences and driven into every Alg subclass and App in a subprocess
   with the trace hooks on (harness/drivers/alg_driver.py).
3. Every Alg object seen in the hook trace - the driven ones, their inner
   solvers, and (T->S) everything the repository's own tests construct - is
   validated by TLC against AlgLoopTrace.tla.
"""
import json
import os
import subprocess
import sys

from .. import core, tlaval, tlc, tracecheck

ALG_CLASSES = ["PowerMethod", "GradientMethod", "ConjugateGradient", "PrimalDualHybridGradient", "AltMin",
               "AugmentedLagrangianMethod", "SDMM", "NewtonsMethod", "GerchbergSaxton", "FailingAlg"]
APP_CLASSES = ["MaxEig", "LLS_ConjugateGradient", "LLS_GradientMethod", "LLS_PrimalDualHybridGradient", "LLS_ADMM",
               "L2ConstrainedMinimization", "ADMM",
               "MRI_SenseRecon", "MRI_L1WaveletRecon", "MRI_TotalVariationRecon", "MRI_JsenseRecon", "MRI_EspiritCalib"]
SUITE_QUICK = ["tests/test_alg.py", "tests/test_app.py"]
SUITE_THOROUGH = ["tests/test_alg.py", "tests/test_app.py", "tests/mri/test_app.py", "tests/mri/test_precond.py", "tests/mri/test_dcf.py",
                  "tests/mri/rf/test_ptx.py"]
INVS = ["TypeOK", "CanonicalBudget", "CounterIsUpdates", "ExhaustedMeansDone"]
PROPS = ["StepByOne", "QueryIsPure", "RunEndsDone", "RunTerminates"]


def model_check(ctx, r):
    wd = tlc.fresh_dir("algloop_%s" % ctx.tier)
    hi = 4 if ctx.thorough else 3
    body = "EXTENDS AlgLoop\nMCMaxIters == 0..%d\n" % hi
    cfg = "SPECIFICATION Spec\nCONSTANTS\n MaxIters <- MCMaxIters\n ExtraUpdates = 2\n" + "".join("INVARIANT %s\n" % i for i in INVS) + "".join("PROPERTY %s\n" % p for p in PROPS)
    tlc.write_mc(wd, "MC_AlgLoop", body, cfg)
    dot = os.path.join(wd, "graph.dot")
    res = tlc.run_tlc(wd, "MC_AlgLoop", workers=4, timeout=300, java_props=None, coverage=True, deadlock=False, env_extra=None)
    r.add_tlc(res, "AlgLoop")
    if res.violated:
        r.machinery_error = "AlgLoop.tla: %s violated on the protocol model" % res.violated
        return None
    # the nesting design (NestedRuns.tla), exhaustively for 2 (quick) / 3 (thorough) objects, exceptions included
    body = "EXTENDS NestedRuns\nBounded == \\A o \\in Objs : iter[o] <= 3\n"
    cfg = ("SPECIFICATION SpecRaise\nCONSTANTS\n Objs = {%s}\n Budgets = {0, 1, 2}\n MaxDepth = %d\nCONSTRAINT Bounded\n" % (("1, 2, 3", 4) if ctx.thorough else ("1, 2", 4))
           + "INVARIANT TypeOK\nINVARIANT NoReentrancy\nINVARIANT RunWithinBudget\nPROPERTY RunNeverOvershoots\nPROPERTY LIFO\nPROPERTY CounterOnlyByOwnUpdate\n")
    tlc.write_mc(wd, "MC_NestedRuns", body, cfg)
    res2 = tlc.run_tlc(wd, "MC_NestedRuns", workers=16, timeout=900, coverage=False)
    r.add_tlc(res2, "NestedRuns")
    if res2.violated:
        r.machinery_error = "NestedRuns.tla: %s violated on the nesting model" % res2.violated
        return None
    # unbounded safety: the inductive invariant of spec/apalache/MC_AlgLoopInd.tla, for every max_iter in Nat (Apalache)
    import shutil

    for f in ("AlgLoop.tla", os.path.join("apalache", "MC_AlgLoopInd.tla")):
        shutil.copy(os.path.join(tlc.SPEC_DIR, f), wd)
    for label, args in (("base case", ["--init=Init", "--length=0"]), ("induction step", ["--init=IndInit", "--length=1"])):
        try:
            pa = subprocess.run(["apalache-mc", "check"] + args + ["--inv=IndInvS", "--out-dir=" + os.path.join(wd, "apa"), "MC_AlgLoopInd.tla"], cwd=wd,
                                stdout=subprocess.PIPE, stderr=subprocess.STDOUT, text=True, timeout=600)
            out = pa.stdout
        except (OSError, subprocess.TimeoutExpired) as e:
            r.notes.append("Apalache %s not run (%s); the bounded TLC result stands" % (label, type(e).__name__))
            continue
        if "The outcome is: NoError" in out:
            r.notes.append("Apalache: %s of the inductive invariant IndInvS (all max_iter in Nat) - NoError" % label)
            r.cmds.append("apalache-mc check %s --inv=IndInvS MC_AlgLoopInd.tla" % " ".join(args))
        elif "The outcome is: Error" in out:
            r.machinery_error = "Apalache: %s of IndInvS fails on AlgLoop.tla (the design or the invariant changed)" % label
            return None
        else:
            r.notes.append("Apalache %s inconclusive: %s" % (label, out.strip().splitlines()[-1][:200] if out.strip() else "no output"))
    shutil.rmtree(os.path.join(wd, "apa"), ignore_errors=True)
    # the same inductive invariant as a machine-checked PROOF (TLAPS): spec/tlaps/AlgLoopProof.tla, for every MaxIters \subseteq Nat.
    # Negative control: with the strengthening conjunct "an update is in flight only below the budget" removed the proof must fail.
    shutil.copy(os.path.join(tlc.SPEC_DIR, "tlaps", "AlgLoopProof.tla"), wd)
    with open(os.path.join(wd, "AlgLoopProof.tla")) as f:
        proof = f.read()
    weak = proof.replace("MODULE AlgLoopProof", "MODULE AlgLoopProofWeak").replace('  /\\ (run = "running" /\\ upd = "running") => iter < max_iter\n', "")
    with open(os.path.join(wd, "AlgLoopProofWeak.tla"), "w") as f:
        f.write(weak)
    outcomes = {}
    for mod in ("AlgLoopProof", "AlgLoopProofWeak"):
        try:
            pt = subprocess.run(["tlapm", "-I", wd, "--cleanfp", "--stretch", "3", mod + ".tla"], cwd=wd, stdout=subprocess.PIPE, stderr=subprocess.STDOUT, text=True, timeout=900)
            outcomes[mod] = pt.stdout
        except (OSError, subprocess.TimeoutExpired) as e:
            outcomes[mod] = None
            r.notes.append("TLAPS not run on %s (%s); the Apalache / TLC results stand" % (mod, type(e).__name__))
    shutil.rmtree(os.path.join(wd, ".tlacache"), ignore_errors=True)
    po = outcomes.get("AlgLoopProof")
    if po is not None:
        import re as _re

        m_ = _re.search(r"All (\d+) obligations proved", po)
        if m_:
            r.notes.append("TLAPS: spec/tlaps/AlgLoopProof.tla - all %s obligations proved (Spec => []IndInvS for every budget)" % m_.group(1))
            r.cmds.append("tlapm -I spec spec/tlaps/AlgLoopProof.tla")
            wo = outcomes.get("AlgLoopProofWeak")
            if wo is not None and _re.search(r"All \d+ obligations proved", wo) and weak != proof.replace("MODULE AlgLoopProof", "MODULE AlgLoopProofWeak"):
                r.machinery_error = "TLAPS negative control lost: the proof goes through without the strengthening conjunct"
                return None
            if wo is not None:
                r.notes.append("TLAPS negative control: without the strengthening conjunct the induction step is not proved")
        else:
            r.machinery_error = "TLAPS: the proof of IndInvS no longer goes through (the design or the invariant changed): %s" % (po.strip().splitlines()[-1][:300] if po.strip() else "no output")
            return None
    # second run for the labelled graph (coverage and dot dump do not combine well)
    cmd = ["java", "-XX:+UseParallelGC", "-DTLA-Library=" + tlc.SPEC_DIR, "-cp", tlc.JARS, "tlc2.TLC", "-workers", "1", "-metadir", os.path.join(wd, "meta2"),
           "-noGenerateSpecTE", "-deadlock", "-dump", "dot,actionlabels", dot, "-config", os.path.join(wd, "MC_AlgLoop.cfg"), os.path.join(wd, "MC_AlgLoop.tla")]
    subprocess.run(cmd, cwd=wd, stdout=subprocess.PIPE, stderr=subprocess.STDOUT, timeout=300)
    return tlaval.read_dot(dot)


def walks(graph, rng, nwalks, maxlen):
    nodes, edges, init = graph
    out = {}
    for s, d, a in edges:
        out.setdefault(s, []).append((d, a))
    seqs = []

    def project(path):
        """path: list of (action, dst state) -> API calls; a run is taken whole."""
        calls = []
        i = 0
        while i < len(path):
            a, st = path[i]
            if a == "UpdateBegin":
                calls.append("update")
            elif a == "DoneQuery":
                calls.append("done")
            elif a == "RunBegin":
                calls.append("run")
                # skip to the end of the run (RunEnd / abort) - App.run is one call
                while i < len(path) and path[i][0] not in ("RunEnd",) and not (path[i][0] == "UpdateAbort"):
                    i += 1
            i += 1
        return calls

    for w in range(nwalks):
        cur = rng.choice(sorted(init))
        path = []
        for _ in range(rng.randint(2, maxlen)):
            nxt = out.get(cur)
            if not nxt:
                break
            d, a = rng.choice(sorted(nxt))
            path.append((a, nodes[d]))
            cur = d
        mi = nodes[cur]["max_iter"]
        seqs.append((mi, project(path)))
    # canonical programs for every budget
    for mi in sorted({n["max_iter"] for n in nodes.values()}):
        seqs.append((mi, ["run"]))
        seqs.append((mi, ["done", "update"] * (mi + 2) + ["done"]))
        seqs.append((mi, ["update"] * (mi + 2) + ["done", "run"]))
        seqs.append((mi, ["run", "run"]))        # run() twice: the second one must not update and returns the same solution
    return seqs


def parse_hook_trace(path):
    """ndjson -> per (pid, uid) Alg event streams + call events."""
    algs, calls = {}, []
    if not os.path.exists(path):
        return algs, calls
    for ln in open(path):
        try:
            e = json.loads(ln)
        except ValueError:
            continue
        ev = e["ev"]
        if ev.startswith("alg.") or ev == "probe":
            key = (e["pid"], e["uid"])
            algs.setdefault(key, {"cls": e.get("cls", "?"), "ev": []})
            if ev != "probe":
                algs[key]["cls"] = e["cls"]
            code = {"alg.update.begin": "ub", "alg.update.end": "ue", "alg.done": "done", "probe": "probe"}[ev]
            algs[key]["ev"].append({"e": code, "iter": e["iter"], "max_iter": e["max_iter"], "done": bool(e.get("done", False)),
                                    "changed": e.get("changed", 0), "breakdown": e.get("breakdown", 0), "seq": e["seq"]})
        elif ev in ("app.run.begin", "app.run.end"):
            key = (e["pid"], e["alg"])
            algs.setdefault(key, {"cls": e.get("alg_cls", "?"), "ev": []})
            algs[key]["app"] = e["cls"]
            algs[key]["ev"].append({"e": "rb" if ev.endswith("begin") else "re", "iter": e.get("iter", 0), "max_iter": e.get("max_iter", 0),
                                    "done": False, "changed": 0, "breakdown": 0, "seq": e["seq"]})
        elif ev in ("linop.call", "prox.call"):
            calls.append(e)
    return algs, calls


def nested_traces(path, origin, default_unwind):
    """ndjson -> one trace per job / test of the WHOLE interleaved event stream (all objects), objects renumbered 1..K."""
    per_pid = {}
    if not os.path.exists(path):
        return []
    for ln in open(path):
        try:
            e = json.loads(ln)
        except ValueError:
            continue
        per_pid.setdefault(e.get("pid", 0), []).append(e)
    out = []
    code = {"alg.update.begin": "ub", "alg.update.end": "ue", "alg.done": "done", "app.run.begin": "rb", "app.run.end": "re"}

    def flush(pid, label, evs, unwind):
        if not evs:
            return
        ids = {}
        iter0, budget0, tev = [], [], []
        for e in evs:
            uid = e["alg"] if e["ev"].startswith("app.") else e["uid"]
            if uid not in ids:
                ids[uid] = len(ids) + 1
                iter0.append(None)
                budget0.append(None)
            o = ids[uid]
            c = code[e["ev"]]
            if c != "rb" and iter0[o - 1] is None:
                iter0[o - 1] = e["iter"] - (1 if c == "ue" else 0)
                budget0[o - 1] = e["max_iter"]
            tev.append({"e": c, "o": o, "iter": int(e.get("iter", 0)), "max_iter": int(e.get("max_iter", 0)), "done": bool(e.get("done", False))})
        out.append({"id": "%s/%d/%s#%d" % (origin, pid, label, len(out)), "iter0": [0 if v is None else int(v) for v in iter0],
                    "budget0": [0 if v is None else int(v) for v in budget0], "max_unwind": int(unwind), "ev": tev,
                    "classes": sorted({e.get("cls", "?") for e in evs})})

    for pid, evs in per_pid.items():
        evs.sort(key=lambda e: e["seq"])
        label, cur, unwind, depth, objs = "start", [], default_unwind, 0, set()
        for e in evs:
            ev = e["ev"]
            if ev == "job":
                flush(pid, label, cur, unwind)
                label, cur, unwind, depth, objs = str(e["k"])[-60:], [], default_unwind, 0, set()
            elif ev == "job.raise":
                unwind = 99
            elif ev in code:
                cur.append(e)
                objs.add(e["alg"] if ev.startswith("app.") else e["uid"])
                if ev.endswith(".begin"):
                    depth += 1
                elif ev.endswith(".end"):
                    depth -= 1
                # long streams are cut where no frame is open (pure bookkeeping: an unbalanced stream is never cut)
                if depth == 0 and (len(cur) >= 1500 or len(objs) >= 24):
                    flush(pid, label, cur, unwind)
                    cur, objs = [], set()
        flush(pid, label, cur, unwind)
    return out


def validate_nested(r, traces, wd, label):
    if not traces:
        return
    maxk = max(len(t["iter0"]) for t in traces)
    slim = [{k: t[k] for k in ("id", "iter0", "budget0", "max_unwind", "ev")} for t in traces]
    sub = os.path.join(wd, "nested_" + label)
    os.makedirs(sub, exist_ok=True)
    res, rej = tracecheck.validate("NestedTrace", slim, sub, constants=["Objs <- MCObjs", "Budgets = {0}", "MaxDepth = 1000000"], timeout=1500,
                                   defs="MCObjs == 1..%d\n" % maxk)
    r.add_tlc(res, "nested_" + label)
    if res.violated:
        r.violations.append(core.Violation(["SPEC"], "alg_protocol", {"kind": "nested_invariant", "invariant": res.violated, "origin": label},
                                           "invariant %s of NestedRuns.tla fails on a recorded execution" % res.violated, {}))
    byid = {t["id"]: t for t in traces}
    for tid, line in rej.items():
        t = byid.get(tid)
        if t is None:
            continue
        cur = t["ev"][line - 1] if line - 1 < len(t["ev"]) else None
        r.violations.append(core.Violation(["SPEC"], "alg_protocol", {"kind": "nesting_rejected", "classes": t["classes"], "origin": label},
                                           "event stream %s (%s) rejected by NestedTrace at event %d: %s; preceding: %s" % (tid, t["classes"], line, cur, t["ev"][max(0, line - 5):line - 1]),
                                           {"line": line}))
    r.notes.append("nested streams (%s): %d traces, %d events, up to %d objects, deepest nesting %d, %d rejected" % (
        label, len(traces), sum(len(t["ev"]) for t in traces), maxk, max(_depth(t) for t in traces), len(rej)))


def _depth(t):
    d = m = 0
    for e in t["ev"]:
        if e["e"] in ("ub", "rb"):
            d += 1
            m = max(m, d)
        elif e["e"] in ("ue", "re"):
            d -= 1
    return m


def to_traces(algs, origin):
    traces = []
    for (pid, uid), a in sorted(algs.items()):
        evs = sorted(a["ev"], key=lambda x: x["seq"])
        if not evs:
            continue
        mi = next((e["max_iter"] for e in evs if e["e"] not in ("rb",)), 0)
        tid = "%s/%s/%d/%d" % (origin, a["cls"], pid, uid)
        traces.append({"id": tid, "cls": a["cls"], "app": a.get("app", ""), "max_iter": mi,
                       "ev": [{k: v for k, v in e.items() if k != "seq"} for e in evs]})
    return traces


def validate(r, traces, wd, label):
    if not traces:
        return
    res, rej = tracecheck.validate("AlgLoopTrace", traces, wd, constants=["MaxIters = {0}", "ExtraUpdates = 1000000"], timeout=900)
    r.add_tlc(res, label)
    if res.violated:
        r.violations.append(core.Violation(["C15"], "alg_protocol", {"kind": "trace_invariant", "invariant": res.violated, "origin": label},
                                           "design invariant %s fails on a recorded execution" % res.violated, {}))
    byid = {t["id"]: t for t in traces}
    for tid, line in rej.items():
        t = byid.get(tid)
        if t is None:
            continue
        prev = t["ev"][line - 2] if line >= 2 else None
        cur = t["ev"][line - 1] if line - 1 < len(t["ev"]) else None
        kind = "trace_rejected"
        if cur and cur["e"] == "ue" and prev and cur["iter"] != prev["iter"] + 1:
            kind = "iter_not_plus_one"
        elif cur and cur["e"] == "done" and cur["iter"] >= cur["max_iter"] and not cur["done"]:
            kind = "not_done_at_budget"
        elif cur and cur["e"] == "probe":
            kind = "early_stop_not_fixed_point"
        r.violations.append(core.Violation(["C15"], "alg_protocol", {"kind": kind, "cls": t["cls"], "app": t.get("app", ""), "origin": tid.split("/")[0]},
                                           "trace %s of %s rejected by AlgLoopTrace at event %d: %s (previous %s)" % (tid, t["cls"], line, cur, prev),
                                           {"trace": t, "line": line}))
    r.traces += len(traces)
    r.evaluations += len(traces)
    r.nontrivial += sum(1 for t in traces if sum(1 for e in t["ev"] if e["e"] == "ue") >= 2)


def run(ctx):
    r = core.EngineResult("alg_protocol")
    graph = model_check(ctx, r)
    if graph is None or r.machinery_error:
        return r
    rng = ctx.rng("alg_walks")
    seqs = walks(graph, rng, 60 if ctx.thorough else 18, 16)
    jobs = []
    for ci, cls in enumerate(ALG_CLASSES + APP_CLASSES):
        for si, (mi, calls) in enumerate(seqs):
            if cls in APP_CLASSES and "run" not in calls:
                calls = calls + ["run"]
            if (cls in ("SDMM", "GerchbergSaxton", "LLS_ADMM", "ADMM", "L2ConstrainedMinimization") or cls.startswith("MRI_")) and si % 3 != 0:
                continue  # slower classes get a third of the walks
            jobs.append({"cls": cls, "max_iter": mi, "calls": calls, "seed": ctx.seed * 1000 + si, "variant": si, "probe": False})
    # early-stop probes: tol = 0, generous budget, every variant
    for cls in ALG_CLASSES[:-1] + APP_CLASSES:
        for v in range(12 if ctx.thorough else 6):
            for mi in (5, 40):
                jobs.append({"cls": cls, "max_iter": mi, "calls": ["run"] if cls in APP_CLASSES else ["run"], "seed": ctx.seed * 1000 + v, "variant": v, "probe": True})
    wd = tlc.fresh_dir("alg_protocol_%s" % ctx.tier)
    jp, tp, trp = os.path.join(wd, "jobs.json"), os.path.join(wd, "targets.json"), os.path.join(wd, "hooks.ndjson")
    json.dump(jobs, open(jp, "w"))
    env = dict(os.environ)
    env[core.GUARD] = trp
    env["PYTHONPATH"] = core.ROOT + os.pathsep + core.REPO
    p = subprocess.run([sys.executable, "-m", "harness.drivers.alg_driver", jp, tp], cwd=core.ROOT, env=env, stdout=subprocess.PIPE, stderr=subprocess.STDOUT, text=True, timeout=1800)
    if p.returncode != 0 or not os.path.exists(tp):
        r.machinery_error = "alg_driver failed: " + p.stdout[-1500:]
        return r
    targets = json.load(open(tp))
    for t in targets:
        if "error" in t:
            r.violations.append(core.Violation(["C15"], "alg_protocol", {"kind": "driver_exception", "cls": t.get("cls", "?"), "variant": t.get("variant")},
                                               "driving %s raised: %s" % (t.get("cls"), t["error"]), {"target": t}))
            continue
        for o in t["obs"]:
            if o[0] == "run" and not o[2]:
                r.violations.append(core.Violation(["C15"], "alg_protocol", {"kind": "run_output_not_held", "cls": t["cls"]},
                                                   "App.run() did not return the solution the app holds (_output())", {"target": t}))
            if o[0] in ("run", "loop") and o[1] > t["max_iter"] and not any(c == "update" for c in t["calls"]):
                r.violations.append(core.Violation(["C15"], "alg_protocol", {"kind": "budget_exceeded", "cls": t["cls"]},
                                                   "canonical loop performed %d updates with max_iter %d" % (o[1], t["max_iter"]), {"target": t}))
    algs, calls = parse_hook_trace(trp)
    traces = to_traces(algs, "driver")
    validate(r, traces, wd, "driver")
    validate_nested(r, nested_traces(trp, "driver", 0), wd, "driver")
    nprobe = sum(1 for t in targets if t.get("probe"))
    r.notes.append("driver: %d jobs, %d Alg objects traced, %d early-stop probes fired" % (len(jobs), len(traces), nprobe))
    if len(r.samples) < 3 and traces:
        r.samples.append({"trace_id": traces[0]["id"], "events": traces[0]["ev"][:8]})
        pt = [t for t in targets if t.get("probe")]
        if pt:
            r.samples.append({"early_stop_probe": {k: pt[0][k] for k in ("cls", "variant", "max_iter", "probe")}})
    # ---- T->S: the repository's own tests as drivers
    suite = SUITE_THOROUGH if ctx.thorough else SUITE_QUICK
    strp = os.path.join(wd, "suite.ndjson")
    env2 = dict(os.environ)
    env2[core.GUARD] = strp
    env2["PYTHONPATH"] = core.ROOT + os.pathsep + env2.get("PYTHONPATH", "")
    p = subprocess.run([sys.executable, "-m", "pytest", "-q", "-x", "-p", "no:cacheprovider", "-p", "harness.pytest_marks"] + suite, cwd=core.REPO, env=env2,
                       stdout=subprocess.PIPE, stderr=subprocess.STDOUT, text=True, timeout=3000)
    salgs, scalls = parse_hook_trace(strp)
    straces = to_traces(salgs, "suite")
    validate(r, straces, wd, "suite")
    validate_nested(r, nested_traces(strp, "suite", 99), wd, "suite")
    r.notes.append("suite (%s): pytest exit %d, %d Alg objects traced, %d linop/prox call events" % (" ".join(suite), p.returncode, len(straces), len(scalls)))
    # purity / advertised-shape on every traced Linop / Prox call of driver and suite (binds C02/C03 to suite executions)
    bad_mut = [c for c in calls + scalls if c["in_crc0"] != c["in_crc1"]]
    for c in bad_mut[:20]:
        r.violations.append(core.Violation(["C02"], "alg_protocol", {"kind": "call_mutated_input", "cls": c["cls"], "what": c["ev"]},
                                           "%s %s modified its input array during a traced call" % (c["ev"], c["cls"]), {"event": c}))
    for c in (calls + scalls):
        if c["ev"] == "linop.call":
            adv = c["oshape"]
            if len(adv) == len(c["out_shape"]) and any(a != -1 and a != o for a, o in zip(adv, c["out_shape"])):
                r.violations.append(core.Violation(["C03"], "alg_protocol", {"kind": "call_output_shape", "cls": c["cls"]},
                                                   "Linop %s returned shape %s but advertises %s" % (c["cls"], c["out_shape"], adv), {"event": c}))
    r.count("C15", r.traces, r.evaluations, r.nontrivial)
    r.count("C02", len(calls) + len(scalls), len(calls) + len(scalls), len({(c["cls"], tuple(c["in_shape"])) for c in calls + scalls}))
    for f in (trp, strp):
        if os.path.exists(f) and os.path.getsize(f) > 50_000_000:
            os.remove(f)
    return r
