"""Engine sense (C16; MRI factories for C01).

TLC enumerates Sense.tla configurations (coil count, coil_batch_size incl. None
and non-dividing sizes, Cartesian / non-Cartesian, weights) and checks the
batch plan.  The harness assembles the explicit multi-coil encoding matrix
(centred orthonormal DFT or exact NDFT, per-coil maps, sqrt of weights) and
compares it with the dense matrix of the real factory, checks the adjoint, and
that every batching gives the same forward and adjoint.  SenseRecon,
TotalVariationRecon and L1WaveletRecon (Haar on a shape where it is unitary)
are run on small consistent problems against an independent reference.
"""
import multiprocessing as mp
import warnings

import numpy as np

from .. import core, tlaval, tlc
from . import linop_build
from .fourier import dft_matrix

_SP = None
SHAPES = [(4, 4), (3, 4), (5, 2), (2, 3, 2)]


def _sp():
    global _SP
    if _SP is None:
        core.use_repo()
        import sigpy
        import sigpy.mri  # noqa: F401

        _SP = sigpy
    return _SP


def centred_dft(shape):
    F = np.ones((1, 1))
    for m in shape:
        F = np.kron(F, dft_matrix(m, m // 2, -1, "isqrt"))
    return F


def ndft(shape, coord):
    npts = coord.shape[0]
    F = np.ones((npts,) + tuple(shape), dtype=np.complex128)
    for d, N in enumerate(shape):
        n = np.arange(N) - N // 2
        ph = np.exp(-2j * np.pi * np.outer(coord[:, d], n) / N)
        sl = [slice(None)] + [None] * len(shape)
        sl[d + 1] = slice(None)
        F = F * ph[tuple(sl)]
    return F.reshape(npts, -1) / np.sqrt(np.prod(shape))


def check_state(job):
    sp = _sp()
    st, seed = job
    c = st["cfg"]
    rs = np.random.RandomState(seed)
    out = []
    shape = SHAPES[seed % len(SHAPES)]
    nc = c["ncoils"]
    mps = (rs.randint(-2, 3, (nc,) + shape) + 1j * rs.randint(-2, 3, (nc,) + shape)).astype(np.complex128)
    n = int(np.prod(shape))
    if c["kind"] == "cart":
        coord = None
        F = centred_dft(shape)
        kshape = shape
        tol = 1e-10
    else:
        npts = 7
        coord = np.round(rs.uniform(-0.5, 0.5, (npts, len(shape))) * np.array(shape) * 8) / 8
        F = ndft(shape, coord)
        kshape = (npts,)
        tol = 0.03
    w = None
    if c["weighted"]:
        w = rs.choice([0.0, 1.0, 4.0, 0.25], size=kshape)
        if seed % 3 == 0:
            w = rs.choice([0, 1, 2, 3], size=kshape).astype([np.uint8, np.int16, np.int64][seed % 9 // 3])   # e.g. averages per line stored as small integers
    E = np.vstack([np.diag(np.sqrt(w.astype(np.float64)).ravel() if w is not None else np.ones(F.shape[0])) @ F @ np.diag(mps[k].ravel()) for k in range(nc)])
    bsz = None if c["batch"] == 0 else c["batch"]
    mps0 = mps.copy()
    with warnings.catch_warnings():
        warnings.simplefilter("ignore")
        try:
            A = sp.mri.linop.Sense(mps, coord=coord, weights=w, coil_batch_size=bsz)
            D, dfs = linop_build.dense(A)
            AH, _ = linop_build.dense(A.H)
        except Exception as e:
            return c, [(["C16"], "exception", "Sense(...) raised %r / %r" % (e, getattr(e, "__cause__", None)))]
    if D is None or list(A.oshape) != [nc] + list(kshape) or list(A.ishape) != list(shape):
        out.append((["C16", "C03"], "shape", "Sense advertises %s <- %s, expected %s <- %s" % (A.oshape, A.ishape, [nc] + list(kshape), list(shape))))
        return c, out
    err = np.linalg.norm(D - E) / max(np.linalg.norm(E), 1e-300)
    if err > tol:
        out.append((["C16"], "encoding", "dense(Sense) differs from the explicit multi-coil encoding: relative error %.3g > %.3g" % (err, tol)))
    if AH is None or not core.allclose(AH, D.conj().T, atol=1e-10 * max(1.0, np.abs(D).max())):
        out.append((["C16", "C01"], "adjoint", "Sense.H is not the conjugate transpose of Sense"))
    if not np.array_equal(mps, mps0):
        out.append((["C02", "C16"], "maps_mutated", "the sensitivity maps were modified"))
    # every batching must give the same forward / adjoint
    A1 = sp.mri.linop.Sense(mps, coord=coord, weights=w)
    D1, _ = linop_build.dense(A1)
    if D1 is None or not core.allclose(D, D1, atol=1e-12 * max(1.0, np.abs(D1).max())):
        out.append((["C16"], "batch_variance", "coil_batch_size=%s changes the operator (max diff %.3g)" % (bsz, np.abs(D - D1).max() if D1 is not None else -1)))
    for kind, d in dfs:
        out.append((["C02"], kind, d))
    # time-segmented off-resonance correction (tseg): the operator is sum_l diag(b_l) F S diag(ct_l) with the library's own
    # segment weights; it too must not depend on how the coils are batched, and its adjoint is its conjugate transpose
    if coord is not None and len(shape) == 2:        # (the segment weights are defined for 2-D field maps: `[Nt 2]` trajectories)
        b0 = rs.randn(*shape) * 400.0
        tseg = {"b0": b0, "dt": 1e-3, "lseg": 2 + seed % 2, "n_bins": 8}
        with warnings.catch_warnings():
            warnings.simplefilter("ignore")
            try:
                At = sp.mri.linop.Sense(mps, coord=coord, weights=w, tseg=tseg, coil_batch_size=bsz)
                At1 = sp.mri.linop.Sense(mps, coord=coord, weights=w, tseg=tseg)
                Dt, _ = linop_build.dense(At)
                Dt1, _ = linop_build.dense(At1)
                DtH, _ = linop_build.dense(At.H)
                bseg, ctseg = sp.mri.util.tseg_off_res_b_ct(b0, tseg["n_bins"], tseg["lseg"], tseg["dt"], len(coord) * tseg["dt"])
            except Exception as e:
                if not core.raised_in_code_under_test():
                    raise
                out.append((["C16"], "exception", "Sense(tseg=...) raised %r / %r" % (e, getattr(e, "__cause__", None))))
                return c, out
        sw = np.sqrt(w.astype(np.float64)).ravel() if w is not None else np.ones(F.shape[0])
        Et = np.vstack([sum(np.diag(sw * bseg[:, l]) @ F @ np.diag(ctseg[:, l].ravel() * mps[k].ravel()) for l in range(tseg["lseg"])) for k in range(nc)])
        if Dt is None or Dt1 is None or Dt.shape != Dt1.shape or not core.allclose(Dt, Dt1, atol=1e-12 * max(1.0, np.abs(Dt1).max())):
            out.append((["C16"], "batch_variance", "with off-resonance segments (tseg) coil_batch_size=%s changes the operator (max diff %.3g; difference to the operator WITHOUT tseg %.3g)"
                        % (bsz, np.abs(Dt - Dt1).max() if Dt is not None and Dt1 is not None and Dt.shape == Dt1.shape else -1, np.abs(Dt - D).max() if Dt is not None and Dt.shape == D.shape else -1)))
        elif np.linalg.norm(Dt - Et) / max(np.linalg.norm(Et), 1e-300) > tol:
            out.append((["C16"], "encoding", "dense(Sense(tseg)) differs from sum_l diag(b_l) F S diag(ct_l): relative error %.3g > %.3g" % (np.linalg.norm(Dt - Et) / np.linalg.norm(Et), tol)))
        if Dt is not None and np.linalg.norm(Dt1 - D) <= 1e-3 * np.linalg.norm(D):
            out.append((["SPEC"], "vacuous", "the tseg instance does not differ from the plain operator"))
        if DtH is None or Dt is None or not core.allclose(DtH, Dt.conj().T, atol=1e-10 * max(1.0, np.abs(Dt).max())):
            out.append((["C16", "C01"], "adjoint", "Sense(tseg).H is not the conjugate transpose of Sense(tseg)"))
    return c, out


def factory_probes(ctx):
    """C01/C04 for the remaining MRI operator factories: dense(A.H) = dense(A)^H, shapes swapped, A.H.H = A, A.N = A^H A."""
    sp = _sp()
    import sigpy.mri.rf  # noqa: F401

    out = []
    n = 0
    rs = ctx.nprng("mri_factories")
    cases = []
    for trial in range(4 if not ctx.thorough else 10):
        nc = int(rs.choice([1, 2, 3]))
        mk = [int(rs.choice([2, 3])), int(rs.choice([2, 3]))]
        ik = [int(rs.choice([4, 5])), int(rs.choice([4, 6]))]
        mps_ker = rs.randn(nc, *mk) + 1j * rs.randn(nc, *mk)
        img_ker = rs.randn(*ik) + 1j * rs.randn(*ik)
        grd = [ik[0] - mk[0] + 1, ik[1] - mk[1] + 1]
        coord = np.round(rs.uniform(-0.5, 0.5, (6, 2)) * np.array(grd) * 8) / 8
        w = rs.choice([0.25, 1.0, 4.0], size=(6,))
        for use_coord in (False, True):
            for use_w in (False, True):
                if use_w and not use_coord:
                    wv = rs.choice([0.25, 1.0, 4.0], size=grd)
                else:
                    wv = w
                kw = dict(coord=coord if use_coord else None, weights=wv if use_w else None, grd_shape=grd if use_coord else None)
                cases.append(("ConvSense", lambda kw=kw, ik=ik, mps_ker=mps_ker: sp.mri.linop.ConvSense(ik, mps_ker, **kw)))
                cases.append(("ConvImage", lambda kw=kw, nc=nc, mk=mk, img_ker=img_ker: sp.mri.linop.ConvImage([nc] + mk, img_ker, **kw)))
        # parallel-transmit small-tip system matrix
        dim = int(rs.choice([3, 4]))
        nt = int(rs.choice([5, 7]))
        sens = rs.randn(nc, dim, dim) + 1j * rs.randn(nc, dim, dim)
        kc = rs.randn(nt, 2)
        b0 = rs.randn(dim, dim) * 10
        cases.append(("PtxSpatialExplicit", lambda sens=sens, kc=kc, dim=dim: sp.mri.rf.linop.PtxSpatialExplicit(sens, kc, 4e-6, (dim, dim))))
        cases.append(("PtxSpatialExplicit_b0", lambda sens=sens, kc=kc, dim=dim, b0=b0: sp.mri.rf.linop.PtxSpatialExplicit(sens, kc, 4e-6, (dim, dim), b0=b0)))
    for name, mk_ in cases:
        n += 1
        with warnings.catch_warnings():
            warnings.simplefilter("ignore")
            try:
                A = mk_()
                F, d1 = linop_build.dense(A)
                G, d2 = linop_build.dense(A.H)
                H2, _ = linop_build.dense(A.H.H, check_i=False)
                Nn, _ = linop_build.dense(A.N, check_i=False)
            except Exception as e:
                out.append((["C01"], "factory_exception", "%s raised %r / %r" % (name, e, getattr(e, "__cause__", None))))
                continue
        if F is None or G is None:
            out.append((["C03"], "factory_shape", "%s: output shape differs from the advertised one" % name))
            continue
        sc = max(1.0, np.abs(F).max())
        if list(A.H.ishape) != list(A.oshape) or list(A.H.oshape) != list(A.ishape):
            out.append((["C01"], "factory_adjoint_shape", "%s.H shapes are not swapped" % name))
        if not core.allclose(G, F.conj().T, atol=1e-9 * sc, rtol=0):
            out.append((["C01"], "factory_adjoint", "%s: <Ax,y> != <x,A^H y>, max |diff| %.3g" % (name, np.abs(G - F.conj().T).max())))
        if H2 is None or not core.allclose(H2, F, atol=1e-9 * sc, rtol=0):
            out.append((["C01"], "factory_involution", "%s.H.H does not act like the original" % name))
        if Nn is None or not core.allclose(Nn, F.conj().T @ F, atol=1e-9 * sc * sc, rtol=0):
            out.append((["C04"], "factory_normal", "%s.N differs from A^H A" % name))
        for kind, d in d1 + d2:
            out.append((["C02"], "factory_" + kind, "%s: %s" % (name, d)))
    return out, n


def ref_pdhg(E, y, lam, Gm, iters=20000):
    """Independent numpy primal-dual reference for 1/2||Ex-y||^2 + lam*||Gx||_1 (complex)."""
    n = E.shape[1]
    x = np.zeros(n, dtype=np.complex128)
    xb = x.copy()
    K = np.vstack([E, Gm])
    L = np.linalg.norm(K, 2)
    tau = sigma = 0.99 / L
    u1 = np.zeros(E.shape[0], dtype=np.complex128)
    u2 = np.zeros(Gm.shape[0], dtype=np.complex128)
    for _ in range(iters):
        u1 = (u1 + sigma * (E @ xb) - sigma * y) / (1 + sigma)
        v = u2 + sigma * (Gm @ xb)
        u2 = v / np.maximum(1.0, np.abs(v) / lam) if lam > 0 else np.zeros_like(v)
        xn = x - tau * (E.conj().T @ u1 + Gm.conj().T @ u2)
        xb = 2 * xn - x
        x = xn
    return x


ALL_PARTS = ("A", "B", "3d", "C", "D", "E", "F")


def recon_job(job):
    seed, tier, trial, part = job
    return recon_checks(core.Ctx("C16", tier, seed), trials=[trial], parts=(part,))


def recon_checks(ctx, trials=None, parts=ALL_PARTS):
    """One (trial, part) pair per worker process: the set-up of a trial is cheap and regenerated from its own seed."""
    sp = _sp()
    out = []
    n_eval = 0
    shape = (4, 4)
    nc = 3
    F = centred_dft(shape)
    for trial in (trials if trials is not None else range(3 if not ctx.thorough else 8)):
        rs = ctx.nprng("sense_recon/%d" % trial)
        mps = rs.randn(nc, *shape) + 1j * rs.randn(nc, *shape)
        xt = rs.randn(*shape) + 1j * rs.randn(*shape)
        E = np.vstack([F @ np.diag(mps[k].ravel()) for k in range(nc)])
        y = (E @ xt.ravel()).reshape((nc,) + shape)
        # SenseRecon: ridge closed form, every applicable solver, lamda in {0, > 0}, batching
        for lam in ((0.0, 0.05) if "A" in parts else ()):
            xs = np.linalg.solve(E.conj().T @ E + lam * np.eye(16), E.conj().T @ y.ravel())
            fs = 0.5 * np.linalg.norm(E @ xs - y.ravel()) ** 2 + lam / 2 * np.linalg.norm(xs) ** 2
            for solver, kw in ((None, dict(max_iter=60)), ("GradientMethod", dict(max_iter=3000)), ("PrimalDualHybridGradient", dict(max_iter=4000)), ("ADMM", dict(max_iter=200, max_cg_iter=10))):
                for bsz in (None, 2):
                    n_eval += 1
                    np.random.seed(trial)
                    with warnings.catch_warnings():
                        warnings.simplefilter("ignore")
                        try:
                            x = sp.mri.app.SenseRecon(y.copy(), mps, lamda=lam, solver=solver, coil_batch_size=bsz, show_pbar=False, **kw).run()
                        except Exception as e:
                            out.append((["C16"], "recon_exception", "SenseRecon(solver=%s, lamda=%s) raised %r" % (solver, lam, e)))
                            continue
                    f = 0.5 * np.linalg.norm(E @ x.ravel() - y.ravel()) ** 2 + lam / 2 * np.linalg.norm(x) ** 2
                    if f - fs > 2e-3 * max(1.0, fs):
                        out.append((["C16", "C14"], "senserecon_objective", "SenseRecon(solver=%s, lamda=%s, batch=%s): objective %.6g vs optimum %.6g" % (solver, lam, bsz, f, fs)))
                    if lam == 0 and np.linalg.norm(x - xt) > 1e-3 * np.linalg.norm(xt) and solver in (None,):
                        out.append((["C16"], "not_reproduced", "consistent fully determined data: SenseRecon does not reproduce the image (rel err %.3g)" % (np.linalg.norm(x - xt) / np.linalg.norm(xt))))
        # explicit non-binary weights (density compensation / soft gating) and a 3-D image
        wts = rs.choice([0.25, 1.0, 4.0], size=shape)
        Ew = np.vstack([np.diag(np.sqrt(wts).ravel()) @ F @ np.diag(mps[k].ravel()) for k in range(nc)])
        yw = (np.vstack([F @ np.diag(mps[k].ravel()) for k in range(nc)]) @ xt.ravel()).reshape((nc,) + shape)
        for lam in ((0.0, 0.05) if "B" in parts else ()):
            yy = (np.sqrt(wts)[None] * yw).ravel()
            xs = np.linalg.solve(Ew.conj().T @ Ew + lam * np.eye(16), Ew.conj().T @ yy)
            fs = 0.5 * np.linalg.norm(Ew @ xs - yy) ** 2 + lam / 2 * np.linalg.norm(xs) ** 2
            for bsz in (None, 2):
                n_eval += 1
                with warnings.catch_warnings():
                    warnings.simplefilter("ignore")
                    x = sp.mri.app.SenseRecon(yw.copy(), mps, lamda=lam, weights=wts, coil_batch_size=bsz, show_pbar=False, max_iter=80).run()
                f = 0.5 * np.linalg.norm(Ew @ x.ravel() - yy) ** 2 + lam / 2 * np.linalg.norm(x) ** 2
                if f - fs > 2e-3 * max(1.0, fs):
                    out.append((["C16"], "senserecon_weighted", "SenseRecon(weights, lamda=%s, batch=%s): weighted objective %.6g vs optimum %.6g" % (lam, bsz, f, fs)))
        # measured samples that are EXACTLY zero in every coil, with positive weights given: they are data (the documented
        # objective counts them), not unsampled locations
        if "B" in parts:
            yz = yw.copy()
            yz[:, 0, 1] = 0
            yz[:, 2, 3] = 0
            wz = np.where(wts > 0, wts, 1.0)
            Ez = np.vstack([np.diag(np.sqrt(wz).ravel()) @ F @ np.diag(mps[k].ravel()) for k in range(nc)])
            yyz = (np.sqrt(wz)[None] * yz).ravel()
            for name, lamz, mkz in (("SenseRecon", 0.05, lambda: sp.mri.app.SenseRecon(yz.copy(), mps, lamda=0.05, weights=wz.copy(), show_pbar=False, max_iter=100)),
                                    ("SenseRecon(all-ones weights)", 0.05, lambda: sp.mri.app.SenseRecon(yz.copy(), mps, lamda=0.05, weights=np.ones(shape), show_pbar=False, max_iter=100))):
                n_eval += 1
                Eu = Ez if "ones" not in name else E
                yu = yyz if "ones" not in name else yz.ravel()
                xsz = np.linalg.solve(Eu.conj().T @ Eu + lamz * np.eye(16), Eu.conj().T @ yu)
                fsz = 0.5 * np.linalg.norm(Eu @ xsz - yu) ** 2 + lamz / 2 * np.linalg.norm(xsz) ** 2
                with warnings.catch_warnings():
                    warnings.simplefilter("ignore")
                    xz = mkz().run()
                fz = 0.5 * np.linalg.norm(Eu @ xz.ravel() - yu) ** 2 + lamz / 2 * np.linalg.norm(xz) ** 2
                if fz - fsz > 2e-3 * max(1.0, fsz):
                    out.append((["C16"], "senserecon_weighted", "%s with data that are exactly zero at two weighted locations: documented objective %.6g vs optimum %.6g" % (name, fz, fsz)))
        if trial == 0 and "3d" in parts:
            sh3 = (2, 3, 2)
            F3 = centred_dft(sh3)
            m3 = rs.randn(nc, *sh3) + 1j * rs.randn(nc, *sh3)
            x3 = rs.randn(*sh3) + 1j * rs.randn(*sh3)
            E3 = np.vstack([F3 @ np.diag(m3[k].ravel()) for k in range(nc)])
            y3 = (E3 @ x3.ravel()).reshape((nc,) + sh3)
            n_eval += 2
            with warnings.catch_warnings():
                warnings.simplefilter("ignore")
                xr = sp.mri.app.SenseRecon(y3.copy(), m3, lamda=0, show_pbar=False, max_iter=100).run()
                xtv = sp.mri.app.TotalVariationRecon(y3.copy(), m3, 0.0, show_pbar=False, max_iter=3000).run()
            if np.linalg.norm(xr - x3) > 1e-3 * np.linalg.norm(x3):
                out.append((["C16"], "not_reproduced", "3-D SenseRecon does not reproduce the image (rel err %.3g)" % (np.linalg.norm(xr - x3) / np.linalg.norm(x3))))
            if np.linalg.norm(xtv - x3) > 5e-3 * np.linalg.norm(x3):
                out.append((["C16"], "not_reproduced", "3-D TotalVariationRecon(lamda=0) does not reproduce the image (rel err %.3g)" % (np.linalg.norm(xtv - x3) / np.linalg.norm(x3))))
            # 3-D zero-filled undersampling whose pattern changes along every k-space axis, weights None: the sampling mask the
            # apps estimate from the data must be the true 3-D pattern (a determined system then reproduces the image)
            sh3u = (4, 3, 2)
            F3u = centred_dft(sh3u)
            m3u = rs.randn(nc, *sh3u) + 1j * rs.randn(nc, *sh3u)
            x3u = rs.randn(*sh3u) + 1j * rs.randn(*sh3u)
            mask3 = np.ones(sh3u)
            mask3[1::2] = 0
            mask3[0, 1, 0] = 0
            mask3[1, 0, 1] = 1
            E3u = np.vstack([np.diag(mask3.ravel()) @ F3u @ np.diag(m3u[k].ravel()) for k in range(nc)])
            if np.linalg.matrix_rank(E3u) == x3u.size:
                y3u = (E3u @ x3u.ravel()).reshape((nc,) + sh3u)
                for name, mk in (("SenseRecon", lambda: sp.mri.app.SenseRecon(y3u.copy(), m3u, lamda=0, show_pbar=False, max_iter=300)),
                                 ("L1WaveletRecon", lambda: sp.mri.app.L1WaveletRecon(y3u.copy(), m3u, 0.0, wave_name="haar", show_pbar=False, max_iter=6000)),
                                 ("TotalVariationRecon", lambda: sp.mri.app.TotalVariationRecon(y3u.copy(), m3u, 0.0, show_pbar=False, max_iter=8000))):
                    n_eval += 1
                    with warnings.catch_warnings():
                        warnings.simplefilter("ignore")
                        xu = mk().run()
                    # compare through the documented objective with the TRUE mask (robust against slow convergence of an ill-conditioned system)
                    fu = 0.5 * np.linalg.norm(E3u @ xu.ravel() - y3u.ravel()) ** 2
                    if fu > 1e-4 * 0.5 * np.linalg.norm(y3u) ** 2:
                        out.append((["C16"], "not_reproduced", "3-D zero-filled undersampled %s (weights=None): residual of the explicit masked encoding %.3g of the data energy (rel err of x %.3g)"
                                    % (name, fu / (0.5 * np.linalg.norm(y3u) ** 2), np.linalg.norm(xu - x3u) / np.linalg.norm(x3u))))
            # documented objective with the FULL finite-difference gradient (all image axes), lamda > 0
            G3, _ = linop_build.dense(sp.linop.FiniteDifference(list(sh3)), check_i=False)
            lam3 = 0.3
            n_eval += 1
            with warnings.catch_warnings():
                warnings.simplefilter("ignore")
                xt3 = sp.mri.app.TotalVariationRecon(y3.copy(), m3, lam3, show_pbar=False, max_iter=4000).run()
            obj3 = lambda v: 0.5 * np.linalg.norm(E3 @ v.ravel() - y3.ravel()) ** 2 + lam3 * np.abs(G3 @ v.ravel()).sum()
            xr3 = ref_pdhg(E3, y3.ravel(), lam3, G3, iters=8000)
            if obj3(xt3) - obj3(xr3) > 2e-3 * max(1.0, obj3(xr3)):
                out.append((["C16", "C14"], "recon_objective", "3-D TotalVariationRecon(lamda=%s): documented objective %.6g, independent reference %.6g" % (lam3, obj3(xt3), obj3(xr3))))
        # TV and L1-wavelet (Haar on 4x4 is unitary): independent numpy primal-dual reference
        Gop = sp.linop.FiniteDifference(list(shape))
        Gm, _ = linop_build.dense(Gop, check_i=False)
        Wop = sp.linop.Wavelet(list(shape), wave_name="haar")
        Wm, _ = linop_build.dense(Wop, check_i=False)
        for name, Km, mk in (("TotalVariationRecon", Gm, lambda lam: sp.mri.app.TotalVariationRecon(y.copy(), mps, lam, show_pbar=False, max_iter=5000)),
                             ("L1WaveletRecon", Wm, lambda lam: sp.mri.app.L1WaveletRecon(y.copy(), mps, lam, wave_name="haar", show_pbar=False, max_iter=3000))):
            for lam in ((0.0, 0.1) if "C" in parts else ()):
                n_eval += 1
                np.random.seed(trial)
                with warnings.catch_warnings():
                    warnings.simplefilter("ignore")
                    try:
                        x = mk(lam).run()
                    except Exception as e:
                        out.append((["C16"], "recon_exception", "%s(lamda=%s) raised %r" % (name, lam, e)))
                        continue
                obj = lambda v: 0.5 * np.linalg.norm(E @ v.ravel() - y.ravel()) ** 2 + lam * np.abs(Km @ v.ravel()).sum()
                if lam == 0:
                    if np.linalg.norm(x - xt) > 2e-3 * np.linalg.norm(xt):
                        out.append((["C16"], "not_reproduced", "%s with lamda=0 on consistent data: rel err %.3g" % (name, np.linalg.norm(x - xt) / np.linalg.norm(xt))))
                else:
                    xr = ref_pdhg(E, y.ravel(), lam, Km, iters=6000)
                    if obj(x) - obj(xr) > 2e-3 * max(1.0, obj(xr)):
                        out.append((["C16", "C14"], "recon_objective", "%s(lamda=%s): objective %.6g, independent reference %.6g" % (name, lam, obj(x), obj(xr))))
        # the same two regularised recons with explicit non-binary weights: documented objective 1/2 |W^(1/2) (E x - y)|^2 + lam |K x|_1
        yyw = (np.sqrt(wts)[None] * yw).ravel()
        for name, Km, mk in (("TotalVariationRecon", Gm, lambda lam: sp.mri.app.TotalVariationRecon(yw.copy(), mps, lam, weights=wts, show_pbar=False, max_iter=5000)),
                             ("L1WaveletRecon", Wm, lambda lam: sp.mri.app.L1WaveletRecon(yw.copy(), mps, lam, weights=wts, wave_name="haar", show_pbar=False, max_iter=3000))):
            for lam in ((0.0, 0.1) if "D" in parts else ()):
                n_eval += 1
                np.random.seed(trial)
                with warnings.catch_warnings():
                    warnings.simplefilter("ignore")
                    try:
                        x = mk(lam).run()
                    except Exception as e:
                        out.append((["C16"], "recon_exception", "%s(weights, lamda=%s) raised %r" % (name, lam, e)))
                        continue
                objw = lambda v: 0.5 * np.linalg.norm(Ew @ v.ravel() - yyw) ** 2 + lam * np.abs(Km @ v.ravel()).sum()
                if lam == 0:
                    if np.linalg.norm(x - xt) > 2e-3 * np.linalg.norm(xt):
                        out.append((["C16"], "not_reproduced", "%s with weights and lamda=0 on consistent data: rel err %.3g" % (name, np.linalg.norm(x - xt) / np.linalg.norm(xt))))
                else:
                    xr = ref_pdhg(Ew, yyw, lam, Km, iters=6000)
                    if objw(x) - objw(xr) > 2e-3 * max(1.0, objw(xr)):
                        out.append((["C16", "C14"], "recon_objective", "%s(weights, lamda=%s): weighted objective %.6g, independent reference %.6g" % (name, lam, objw(x), objw(xr))))
        # non-Cartesian data (coord given), with and without density-compensation weights, every recon app and solver.
        # The encoding matrix is the library's own dense Sense operator WITHOUT weights (its agreement with the exact NDFT
        # encoding is the operator check above); the documented objective adds the square-root weights by hand.
        if trial < (2 if not ctx.thorough else 4) and "E" in parts:
            npts = 28
            coord = rs.uniform(-2, 2, (npts, 2))
            En, _ = linop_build.dense(sp.mri.linop.Sense(mps, coord=coord), check_i=False)
            if En is None or np.shape(En) != (nc * npts, xt.size):
                out.append((["C16", "C03"], "shape", "the non-Cartesian Sense operator cannot be applied / returns another shape than it advertises (dense probe: %s)" % (None if En is None else np.shape(En),)))
                return out, n_eval
            yn = (En @ xt.ravel() + 0.05 * (rs.randn(nc * npts) + 1j * rs.randn(nc * npts))).reshape(nc, npts)
            dcf = rs.uniform(0.25, 1.5, npts)
            for wv in (None, dcf):
                sw = np.ones(npts) if wv is None else np.sqrt(wv)
                Ewn = (np.tile(sw, nc)[:, None]) * En
                ywn = (sw[None] * yn).ravel()
                for lam in (0.0, 0.05):
                    xs = np.linalg.solve(Ewn.conj().T @ Ewn + lam * np.eye(16), Ewn.conj().T @ ywn)
                    fs = 0.5 * np.linalg.norm(Ewn @ xs - ywn) ** 2 + lam / 2 * np.linalg.norm(xs) ** 2
                    for solver, kw in ((None, dict(max_iter=80)), ("PrimalDualHybridGradient", dict(max_iter=5000))):
                        n_eval += 1
                        with warnings.catch_warnings():
                            warnings.simplefilter("ignore")
                            try:
                                x = sp.mri.app.SenseRecon(yn.copy(), mps, lamda=lam, weights=None if wv is None else wv.copy(), coord=coord.copy(), solver=solver, show_pbar=False, **kw).run()
                            except Exception as e:
                                out.append((["C16"], "recon_exception", "non-Cartesian SenseRecon(solver=%s, lamda=%s, weights=%s) raised %r" % (solver, lam, wv is not None, e)))
                                continue
                        f = 0.5 * np.linalg.norm(Ewn @ x.ravel() - ywn) ** 2 + lam / 2 * np.linalg.norm(x) ** 2
                        if f - fs > 2e-3 * max(1.0, fs):
                            out.append((["C16"], "senserecon_noncartesian", "non-Cartesian SenseRecon(solver=%s, lamda=%s, weights=%s): objective %.6g vs optimum %.6g" % (solver, lam, wv is not None, f, fs)))
                lam = 0.1
                for name, Km, mk in (("TotalVariationRecon", Gm, lambda: sp.mri.app.TotalVariationRecon(yn.copy(), mps, lam, weights=None if wv is None else wv.copy(), coord=coord.copy(), show_pbar=False, max_iter=5000)),
                                     ("L1WaveletRecon", Wm, lambda: sp.mri.app.L1WaveletRecon(yn.copy(), mps, lam, weights=None if wv is None else wv.copy(), coord=coord.copy(), wave_name="haar", show_pbar=False, max_iter=3000))):
                    n_eval += 1
                    with warnings.catch_warnings():
                        warnings.simplefilter("ignore")
                        try:
                            x = mk().run()
                        except Exception as e:
                            out.append((["C16"], "recon_exception", "non-Cartesian %s(weights=%s) raised %r" % (name, wv is not None, e)))
                            continue
                    objn = lambda v: 0.5 * np.linalg.norm(Ewn @ v.ravel() - ywn) ** 2 + lam * np.abs(Km @ v.ravel()).sum()
                    xr = ref_pdhg(Ewn, ywn, lam, Km, iters=6000)
                    if objn(x) - objn(xr) > 2e-3 * max(1.0, objn(xr)):
                        out.append((["C16", "C14"], "recon_objective", "non-Cartesian %s(lamda=%s, weights=%s): objective %.6g, independent reference %.6g" % (name, lam, wv is not None, objn(x), objn(xr))))
        # the regularised recons through every solver LinearLeastSquares offers for them (Cartesian, lamda > 0)
        if trial == 0 and "F" in parts:
            lam = 0.1
            for name, Km, solvers, mk in (
                    ("TotalVariationRecon", Gm, ("PrimalDualHybridGradient", "ADMM"), lambda so, kw: sp.mri.app.TotalVariationRecon(y.copy(), mps, lam, solver=so, show_pbar=False, **kw)),
                    ("L1WaveletRecon", Wm, ("GradientMethod", "PrimalDualHybridGradient", "ADMM"), lambda so, kw: sp.mri.app.L1WaveletRecon(y.copy(), mps, lam, wave_name="haar", solver=so, show_pbar=False, **kw))):
                obj = lambda v: 0.5 * np.linalg.norm(E @ v.ravel() - y.ravel()) ** 2 + lam * np.abs(Km @ v.ravel()).sum()
                xr = ref_pdhg(E, y.ravel(), lam, Km, iters=6000)
                for so in solvers:
                    n_eval += 1
                    kw = dict(max_iter=400, max_cg_iter=10) if so == "ADMM" else dict(max_iter=5000)
                    with warnings.catch_warnings():
                        warnings.simplefilter("ignore")
                        try:
                            x = mk(so, kw).run()
                        except Exception as e:
                            out.append((["C16"], "recon_exception", "%s(solver=%s) raised %r" % (name, so, e)))
                            continue
                    if obj(x) - obj(xr) > 2e-3 * max(1.0, obj(xr)):
                        out.append((["C16", "C14"], "recon_objective", "%s(solver=%s, lamda=%s): objective %.6g, independent reference %.6g" % (name, so, lam, obj(x), obj(xr))))
    return out, n_eval


def run(ctx):
    r = core.EngineResult("sense")
    wd = tlc.fresh_dir("sense_%s" % ctx.tier)
    cfg = 'INIT Init\nNEXT Next\nCONSTANTS\n MaxCoils = %d\n Kinds = {"cart", "noncart"}\nINVARIANT BatchPartition\nINVARIANT SingleWhenLarge\n' % (5 if ctx.thorough else 4)
    tlc.write_mc(wd, "MC_Sense", "EXTENDS Sense\n", cfg)
    res = tlc.run_tlc(wd, "MC_Sense", dump=True, coverage=False, timeout=600)
    r.add_tlc(res, "Sense")
    if res.violated:
        r.violations.append(core.Violation(["C16"], "sense", {"kind": "spec_invariant", "invariant": res.violated}, "TLC: %s fails on the coil-batching plan" % res.violated, {}))
        return r
    if r.machinery_error:
        return r
    jobs = []
    for k, st in enumerate(tlaval.read_dump(res.dump_path)):
        for rep in range(len(SHAPES) if ctx.thorough else 2):
            jobs.append((st, ctx.seed * 977 + k * 7 + rep))
    _sp()
    with mp.get_context("fork").Pool(16) as pool:
        results = pool.map(check_state, jobs, chunksize=4)
    for c, out in results:
        r.traces += 1
        r.evaluations += 1
        r.nontrivial += 1 if c["ncoils"] > 1 else 0
        for props, kind, detail in out:
            r.violations.append(core.Violation(props, "sense", {"kind": kind, "ncoils": c["ncoils"], "batch": c["batch"], "coords": c["kind"], "weighted": c["weighted"]}, detail, {}))
    r.samples.append({"config": dict(results[len(results) // 2][0]), "batch_plan": [list(b) for b in jobs[len(results) // 2][0]["batches"]]})
    fout, nf = factory_probes(ctx)
    for props, kind, detail in fout:
        r.violations.append(core.Violation(props, "sense", {"kind": kind}, detail, {}))
    r.traces += nf
    r.evaluations += nf
    r.nontrivial += nf
    r.notes.append("%d ConvSense / ConvImage / PtxSpatialExplicit operators probed (adjoint, involution, normal)" % nf)
    rjobs = [(ctx.seed, ctx.tier, trial, part) for trial in range(3 if not ctx.thorough else 8) for part in ALL_PARTS
            if not (part in ("3d", "F") and trial != 0) and not (part == "E" and trial >= (2 if not ctx.thorough else 4))]
    with mp.get_context("fork").Pool(16) as pool:
        parts_out = pool.map(recon_job, rjobs, chunksize=1)
    rout = [o for po, _ in parts_out for o in po]
    ne = sum(n_ for _, n_ in parts_out)
    for props, kind, detail in rout:
        r.violations.append(core.Violation(props, "sense", {"kind": kind}, detail, {}))
    r.traces += ne
    r.evaluations += ne
    r.nontrivial += ne
    r.notes.append("%d operator configurations (dense vs explicit encoding, adjoint, batch invariance) and %d reconstructions" % (len(jobs), ne))
    r.count("C16", r.traces, r.evaluations, r.nontrivial)
    r.count("C01", len(jobs), len(jobs), len(jobs))
    return r
