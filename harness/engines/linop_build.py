"""Spec expression (api tree of LinopAlgebra.tla) -> real sigpy Linop, and the
probes used by the conformance replay: dense matrix, purity, determinism."""
import numpy as np

from .. import core


def _arr(shape, re, im, dtype=np.complex128):
    a = (np.array(re, dtype=np.float64) + 1j * np.array(im, dtype=np.float64)).astype(dtype)
    return a.reshape(shape)


def _ax(v):
    return None if len(v) == 0 else v[0]


def _seq_or_none(v):
    return None if len(v) == 0 else list(v)


class Builder:
    """Builds real operators; identical sub-expressions are built once, so that
    `Dup` in the spec becomes re-use of the same Python object (cached .H/.N)."""

    def __init__(self, sp):
        self.sp = sp
        self.memo = {}
        self.captured = []  # arrays operators were built from

    def build(self, api):
        key = repr(api)
        if key in self.memo:
            return self.memo[key]
        obj = self._build(api)
        self.memo[key] = obj
        return obj

    def _build(self, e):
        L = self.sp.linop
        k, a, s = e["k"], e["a"], e["s"]
        if k == "Identity":
            return L.Identity(list(a[0]))
        if k == "Reshape":
            return L.Reshape(list(a[0]), list(a[1]))
        if k == "Transpose":
            return L.Transpose(list(a[0]), axes=None if len(a[1]) == 0 else tuple(a[1]))
        if k == "Resize":
            return L.Resize(list(a[0]), list(a[1]), ishift=_seq_or_none(a[2]), oshift=_seq_or_none(a[3]))
        if k == "Flip":
            return L.Flip(list(a[0]), axes=_seq_or_none(a[1]))
        if k == "Circshift":
            return L.Circshift(list(a[0]), list(a[1]), axes=_seq_or_none(a[2]))
        if k == "Downsample":
            return L.Downsample(list(a[0]), list(a[1]), shift=list(a[2]) if any(a[2]) else None)      # a zero shift is the default: passed as None
        if k == "Upsample":
            return L.Upsample(list(a[0]), list(a[1]), shift=list(a[2]) if any(a[2]) else None)
        if k == "Sum":
            return L.Sum(list(a[0]), tuple(a[1]))
        if k == "Tile":
            return L.Tile(list(a[0]), tuple(a[1]))
        if k in ("Slice", "Embed"):
            idx = tuple(slice(st, sp_, sz) for st, sp_, sz in zip(a[1], a[2], a[3]))
            return (L.Slice if k == "Slice" else L.Embed)(list(a[0]), idx)
        if k == "FiniteDifference":
            return L.FiniteDifference(list(a[0]), axes=_seq_or_none(a[1]))
        if k == "A2B":
            return L.ArrayToBlocks(list(a[0]), list(a[1]), list(a[2]))
        if k == "B2A":
            return L.BlocksToArray(list(a[0]), list(a[1]), list(a[2]))
        if k == "Multiply":
            if len(a[1]) == 0:
                c = complex(a[2][0], a[3][0])
                mult = c.real if c.imag == 0 else c
                if float(mult.real if isinstance(mult, complex) else mult).is_integer() and not isinstance(mult, complex):
                    mult = int(mult)
                return L.Multiply(list(a[0]), mult, conj=bool(a[4][0]))
            m = _arr(list(a[1]), a[2], a[3])
            if len(a) > 5 and len(a[5]) > 0 and a[5][0] in (1, 2):
                # a multiplier array stored in a narrow integer dtype (an 8-bit mask / small integer weights): the same numbers
                m = np.real(m).astype(np.uint8 if a[5][0] == 1 else np.int16)
            self.captured.append(m)
            return L.Multiply(list(a[0]), m, conj=bool(a[4][0]))
        if k in ("MatMul", "RightMatMul"):
            m = _arr(list(a[1]), a[2], a[3])
            self.captured.append(m)
            return getattr(L, k)(list(a[0]), m, adjoint=bool(a[4][0]))
        ops = [self.build(c) for c in s]
        if k == "Mul":
            return ops[0] * ops[1]
        if k == "Add":
            return ops[0] + ops[1]
        if k == "Sub":
            return ops[0] - ops[1]
        if k == "AddN":
            return L.Add(ops)
        if k == "ComposeN":
            return L.Compose(ops)
        if k in ("ScaleL", "ScaleR"):
            c = complex(a[0][0], a[0][1])
            c = (int(c.real) if c.imag == 0 else c)
            return c * ops[0] if k == "ScaleL" else ops[0] * c
        if k == "Conj":
            return L.Conj(ops[0])
        if k == "Hstack":
            return L.Hstack(ops, axis=_ax(a[0]))
        if k == "Vstack":
            return L.Vstack(ops, axis=_ax(a[0]))
        if k == "Diag":
            return L.Diag(ops, oaxis=_ax(a[0]), iaxis=_ax(a[1]))
        if k == "H":
            return ops[0].H
        if k == "N":
            return ops[0].N
        raise KeyError("unknown api kind %r" % k)


def spec_matrix(m):
    """TLA+ matrix (tuple of rows of (re, im)) -> complex ndarray."""
    a = np.array(m, dtype=np.float64)
    return a[..., 0] + 1j * a[..., 1]


def dense(A, check_i=True, dtype=np.complex128):
    """Dense matrix of a Linop by basis probing, plus a list of defects seen on
    the way (output shape not advertised, input mutated, i*e_j column not i
    times the e_j column)."""
    ish, osh = tuple(A.ishape), tuple(A.oshape)
    n = int(np.prod(ish)) if ish else 1
    mrows = int(np.prod(osh)) if osh else 1
    M = np.zeros((mrows, n), dtype=np.complex128)
    defects = []
    for j in range(n):
        x = np.zeros(n, dtype=dtype)
        x[j] = 1
        x = x.reshape(ish)
        x0 = x.copy()
        y = A(x)
        if tuple(y.shape) != osh:
            defects.append(("oshape", "A(x).shape = %s but A.oshape = %s" % (tuple(y.shape), osh)))
            return None, defects
        if not np.array_equal(x, x0):
            defects.append(("mutated", "input array modified by apply (basis vector %d)" % j))
        M[:, j] = np.asarray(y).ravel()
        if check_i:
            xi = np.zeros(n, dtype=dtype)
            xi[j] = 1j
            yi = np.asarray(A(xi.reshape(ish))).ravel()
            if not core.allclose(yi, 1j * M[:, j], atol=1e-9, rtol=1e-9):
                defects.append(("not_c_linear", "A(i*e_%d) != i*A(e_%d): real and imaginary parts mixed or dropped" % (j, j)))
    return M, defects
