"""Engine trap (C20).

TLC sweeps the dimensionless (G, a) grid of Trap.tla (both designers) and the
spoke assemblies of Spokes.tla, checking the requirement predicates on the
transcribed mechanism; every dumped state is mapped to several dimensional
(gmax, dgdt, dt, area) tuples, the real function is called, the REQUIREMENTS
are checked on the returned samples and the waveform is compared with the
model descriptor (skipped at exact ceil/floor ties, where float rounding may
legitimately pick the neighbouring integer).
"""
from fractions import Fraction

import numpy as np

from .. import core, tlaval, tlc

UNITS = [(1e4, 4e-6), (150.0, 1e-4), (2e4, 1e-5), (1e5, 1e-6), (3.3e3, 2.5e-5)]  # (dgdt, dt)
REQ = ["Defined", "EndsAtZero", "AreaExact", "AmplitudeLimit", "SlewLimit", "ClosedFormSound"]


def frac(q):
    return Fraction(q[0], q[1])


def check_wave(fn, wave, ramppts, gmax, dgdt, dt, area):
    """Requirement predicates on a returned waveform; returns list of (kind, detail)."""
    w = np.asarray(wave, dtype=np.float64).ravel()
    out = []
    tol = 1e-9
    if w.size < 2 or not np.all(np.isfinite(w)):
        return [("area", "no waveform returned for a positive area (%d samples, finite: %s)" % (w.size, bool(np.all(np.isfinite(w)))))]
    if w[0] != 0 or w[-1] != 0:
        out.append(("ends", "first/last sample %g/%g not zero" % (w[0], w[-1])))
    if fn == "trap_grad":
        got = w.sum() * dt
        if abs(got - area) > tol * abs(area):
            out.append(("area", "total area %.12g != requested %.12g" % (got, area)))
    else:
        flat = w[ramppts + 1: len(w) - (ramppts + 1)]
        got = flat.sum() * dt
        if len(flat) < 1 or abs(got - area) > tol * abs(area):
            out.append(("area", "area under the flat top %.12g != requested %.12g" % (got, area)))
    if w.max() > gmax * (1 + tol) or w.min() < -tol * gmax:
        out.append(("amplitude", "max sample %.12g exceeds gmax %.12g" % (w.max(), gmax)))
    sl = np.abs(np.diff(w)).max() / dt
    if sl > dgdt * (1 + 1e-7):
        out.append(("slew", "max slew %.12g exceeds dgdt %.12g" % (sl, dgdt)))
    return out


def run(ctx):
    import sigpy.mri.rf as rf

    r = core.EngineResult("trap")
    wd = tlc.fresh_dir("trap_%s" % ctx.tier)
    if ctx.thorough:
        gset, aset, sb = "{R(k, 4) : k \\in 1..64} \\cup {R(k, 100) : k \\in 1..20}", "{R(k, 8) : k \\in 1..800} \\cup {R(k, 1000) : k \\in 1..40}", 400
    else:
        gset, aset, sb = "{R(k, 4) : k \\in 1..24} \\cup {R(1, 50), R(7, 100)}", "{R(k, 8) : k \\in 1..160} \\cup {R(k, 1000) : k \\in {1, 30, 499, 500, 501}}", 200
    body = "EXTENDS Trap\nMCG == %s\nMCA == %s\n" % (gset, aset)
    cfg = "INIT Init\nNEXT Next\nCONSTANTS\n GVals <- MCG\n AVals <- MCA\n SqrtBound = %d\n" % sb + "".join("INVARIANT %s\n" % i for i in REQ)
    tlc.write_mc(wd, "MC_Trap", body, cfg)
    res = tlc.run_tlc(wd, "MC_Trap", dump=True, coverage=False, timeout=1800)
    r.add_tlc(res, "Trap")
    if res.violated:
        tr = tlc.error_trace(res.stdout)
        st = tr[-1] if tr else {}
        r.violations.append(core.Violation(["C20"], "trap", {"kind": "spec_requirement", "invariant": res.violated, "fn": st.get("fn"), "G": st.get("G"), "a": st.get("a")},
                                           "TLC: requirement %s fails on the transcribed design branches of %s at G=%s a=%s" % (res.violated, st.get("fn"), st.get("G"), st.get("a")), {"state": repr(st)}))
    if r.machinery_error:
        return r
    nstates = 0
    ties = 0
    if res.dump_path:
        for st in tlaval.read_dump(res.dump_path):
            if st["fn"] == "none":
                continue
            nstates += 1
            G, a, des = frac(st["G"]), frac(st["a"]), st["des"]
            ties += 1 if st["tie"] else 0
            for ui, (dgdt, dt) in enumerate(UNITS):
                if (nstates + ui) % (1 if ctx.thorough else 2) != 0:
                    continue
                gmax = float(G) * dgdt * dt
                area = float(a) * dgdt * dt * dt
                key = {"fn": st["fn"], "G": str(G), "a": str(a), "dgdt": dgdt, "dt": dt}
                r.evaluations += 1
                try:
                    wave, ramppts = getattr(rf, st["fn"])(area, gmax, dgdt, dt)
                except Exception as e:
                    r.violations.append(core.Violation(["C20"], "trap", dict(key, kind="exception"), "%s(%g, %g, %g, %g) raised %r" % (st["fn"], area, gmax, dgdt, dt, e), {}))
                    continue
                bad = check_wave(st["fn"], wave, ramppts, gmax, dgdt, dt, area)
                for kind, d in bad:
                    r.violations.append(core.Violation(["C20"], "trap", dict(key, kind=kind), "%s(area=%g, gmax=%g, dgdt=%g, dt=%g): %s" % (st["fn"], area, gmax, dgdt, dt, d), {"wave": np.asarray(wave).ravel()[:60].tolist()}))
                if not st["tie"] and not bad:
                    w = np.asarray(wave).ravel()
                    L = 2 * (des["r"] + 1) + des["n"]
                    peak = float(frac(des["peak"])) * dgdt * dt
                    if len(w) != L or ramppts != des["r"] or abs(w.max() - peak) > 1e-9 * peak:
                        r.violations.append(core.Violation(["C20"], "trap", dict(key, kind="model_mismatch"),
                                                           "waveform (len %d, ramppts %d, peak %.10g) differs from the specified design (len %d, ramppts %d, peak %.10g)" % (len(w), ramppts, w.max(), L, des["r"], peak), {}))
            if len(r.samples) < 4 and nstates % 997 == 1:
                r.samples.append({"fn": st["fn"], "G": str(G), "a": str(a), "design": {"kind": des["kind"], "ramppts": des["r"], "nflat": des["n"], "peak": str(frac(des["peak"]))}, "tie": st["tie"]})
        r.traces += nstates
    r.nontrivial = nstates - ties
    r.notes.append("%d designs (%d at exact ceil/floor ties: requirements only), %d dimensional calls" % (nstates, ties, r.evaluations))
    # ---------------- spokes
    sp_g = "{R(1, 2), R(3, 1), R(10, 1)}"
    sp_sub = "{R(1, 4), R(5, 1), R(40, 1)}"
    blipvals = ["RInt(0)", "R(1, 3)", "R(-2, 1)", "R(7, 1)", "R(60, 1)"] + (["R(-300, 1)"] if ctx.thorough else [])
    seqs = ["<<%s>>" % b for b in blipvals] + ["<<%s, %s>>" % (b, c) for b in blipvals for c in blipvals]
    if ctx.thorough:
        seqs += ["<<%s, %s, %s>>" % (b, c, d) for b in blipvals[:4] for c in blipvals[:4] for d in blipvals[:4]]
    body = "EXTENDS Spokes\nMCG == %s\nMCSub == %s\nMCBlips == {%s}\n" % (sp_g, sp_sub, ", ".join(seqs))
    cfg = "INIT Init\nNEXT Next\nCONSTANTS\n GVals <- MCG\n SubAreas <- MCSub\n BlipSeqs <- MCBlips\n SqrtBound = 400\nINVARIANT AxesEqual\nINVARIANT WindowAreas\nINVARIANT BlipLimits\nINVARIANT SubLimits\n"
    tlc.write_mc(wd, "MC_Spokes", body, cfg)
    res2 = tlc.run_tlc(wd, "MC_Spokes", dump=True, coverage=False, timeout=900)
    r.add_tlc(res2, "Spokes")
    if res2.violated:
        r.violations.append(core.Violation(["C20"], "trap", {"kind": "spec_requirement", "invariant": res2.violated, "fn": "spokes_grad"}, "TLC: %s fails on Spokes.tla" % res2.violated, {}))
    nsp = 0
    if res2.dump_path and not r.machinery_error:
        finished = [st for st in tlaval.read_dump(res2.dump_path) if st["done"] == len(st["blips"])]   # replay finished assemblies
        groups = {}
        for st in finished:
            groups.setdefault((st["G"], st["sub"], len(st["blips"])), []).append(st)
        for st in finished:
            nsp += 1
            # the y axis is the same assembly applied to the ky increments: it is bound to a SECOND behaviour of the model with the
            # same limits and number of spokes (so kx and ky increments differ in size and sign, or one of them is zero)
            grp = groups[(st["G"], st["sub"], len(st["blips"]))]
            sty = grp[(grp.index(st) + 1 + nsp % 3) % len(grp)]
            G, sub = frac(st["G"]), frac(st["sub"])
            dgdt, dt = UNITS[nsp % len(UNITS)]
            gmax = float(G) * dgdt * dt
            gam = 4257.0
            sub_area = float(sub) * dgdt * dt * dt
            # spokes_grad derives the slice-select area from tbw / (sl_thick/10) / 4257
            tbw, sl_thick = 4.0, 4.0 / (sub_area * gam) * 10
            axes_bl = []
            cols = []
            for sta in (st, sty):
                bl = [float(frac(b)) * dgdt * dt * dt for b in sta["blips"]]
                # spoke locations whose successive differences (last back to 0) are the blip areas * gamma
                kk = [0.0]
                for b in bl[:-1]:
                    kk.append(kk[-1] + b * gam)
                # the last increment returns to 0: choose the start so that it equals bl[-1]
                shift = -(kk[-1] + bl[-1] * gam)
                cols.append(np.array([v + shift for v in kk]))
                axes_bl.append(bl)
            k = np.stack(cols, axis=1)
            fits = bool(st["ok"]) and bool(sty["ok"])
            key = {"fn": "spokes_grad", "G": str(G), "sub": str(sub), "blips": [str(frac(b)) for b in st["blips"]], "blips_y": [str(frac(b)) for b in sty["blips"]], "fits": fits}
            r.evaluations += 1
            try:
                g = rf.spokes_grad(k, tbw, sl_thick, gmax, dgdt, dt)
            except Exception as e:
                if fits:
                    r.violations.append(core.Violation(["C20"], "trap", dict(key, kind="exception"), "spokes_grad raised %r for a spoke set whose blips fit" % (e,), {}))
                continue
            if not fits:
                continue  # blips longer than a sub-pulse: outside what the assembly can express (DESIGN.md, C20)
            tol = 1e-9
            if np.abs(g).max() > gmax * (1 + tol):
                r.violations.append(core.Violation(["C20"], "trap", dict(key, kind="amplitude"), "spokes gradient exceeds gmax", {}))
            if np.abs(np.diff(g, axis=1)).max() / dt > dgdt * (1 + 1e-7):
                r.violations.append(core.Violation(["C20"], "trap", dict(key, kind="slew"), "spokes gradient exceeds the slew limit: %g > %g" % (np.abs(np.diff(g, axis=1)).max() / dt, dgdt), {}))
            sub_w, _ = rf.min_trap_grad(tbw / (sl_thick / 10) / 4257, gmax, dgdt, dt)  # the very expression spokes_grad evaluates
            Lsub = sub_w.size
            for ax, bl in enumerate(axes_bl):
                for i, b in enumerate(bl):
                    got = g[ax, i * Lsub:(i + 1) * Lsub].sum() * dt
                    if abs(got - b) > 1e-9 * max(abs(b), 1e-30) + 1e-18:
                        r.violations.append(core.Violation(["C20"], "trap", dict(key, kind="kspace_increment", spoke=i, axis="xy"[ax]),
                                                           "%s-gradient area inside spoke window %d is %.10g, requested increment %.10g" % ("xy"[ax], i, got, b), {}))
            if len(r.samples) < 6 and nsp % 50 == 1:
                r.samples.append(key)
        r.traces += nsp
        r.nontrivial += nsp
    # spoke coordinates that are "equal" up to floating-point residue (0.1 + 0.2 next to 0.3): the tiny non-zero increments must
    # not produce non-finite samples, and limits / increments still hold
    for kf in (np.array([[0.1 + 0.2, 0.0], [0.3, 0.1 + 0.2], [0.3, 0.3]]), np.array([[1.0, 1.0 / 3], [1.0 - 1e-16, 1.0 / 3 + 1e-17], [0.5, 0.0]])):
        for dgdt, dt in UNITS[:2]:
            gmax = 4.0 * dgdt * dt * 50
            r.evaluations += 1
            try:
                gf_ = rf.spokes_grad(kf, 4.0, 0.5, gmax, dgdt, dt)
            except Exception as e:
                r.violations.append(core.Violation(["C20"], "trap", {"kind": "exception", "fn": "spokes_grad", "k": kf.tolist()}, "spokes_grad raised %r for nearly coincident spoke coordinates" % (e,), {}))
                continue
            if not np.isfinite(gf_).all():
                r.violations.append(core.Violation(["C20"], "trap", {"kind": "undefined", "fn": "spokes_grad", "k": kf.tolist()}, "spokes_grad returned non-finite samples for spoke coordinates that differ by floating-point residue", {}))
                continue
            if np.abs(gf_).max() > gmax * (1 + 1e-9) or np.abs(np.diff(gf_, axis=1)).max() / dt > dgdt * (1 + 1e-7):
                r.violations.append(core.Violation(["C20"], "trap", {"kind": "slew", "fn": "spokes_grad", "k": kf.tolist()}, "amplitude / slew limit exceeded for nearly coincident spoke coordinates", {}))
            kk_ = np.cumsum(gf_[:2], axis=1)[:, -1] * dt * 4257
            if np.abs(kk_ + kf[0]).max() > 1e-6:       # from the first spoke location to the origin: net change -k[0]
                r.violations.append(core.Violation(["C20"], "trap", {"kind": "kspace_increment", "fn": "spokes_grad", "k": kf.tolist()}, "the x / y gradients move k-space by %s in total, the spoke set asks for %s" % (kk_, -kf[0]), {}))
    # the same spoke locations given with an integer dtype (a valid "spoke location set"): the result must not depend on the dtype
    for kint in (np.array([[1, 0], [-1, 0], [0, 1], [0, -1], [0, 0]]), np.array([[2, -1]]), np.array([[3, 3], [-2, 5]], dtype=np.int32)):
        for dgdt, dt in UNITS[:2]:
            gmax = 4.0 * dgdt * dt * 50
            args = (4.0, 0.5, gmax, dgdt, dt)
            r.evaluations += 1
            try:
                gi = rf.spokes_grad(kint, *args)
                gf = rf.spokes_grad(kint.astype(np.float64), *args)
            except Exception as e:
                r.violations.append(core.Violation(["C20"], "trap", {"kind": "exception", "fn": "spokes_grad", "k_dtype": str(kint.dtype)}, "spokes_grad raised %r for integer spoke locations %s" % (e, kint.tolist()), {}))
                continue
            if gi.shape != gf.shape or not core.allclose(gi, gf, rtol=1e-12, atol=0):
                r.violations.append(core.Violation(["C20"], "trap", {"kind": "kspace_increment", "fn": "spokes_grad", "k_dtype": str(kint.dtype), "k": kint.tolist()},
                                                   "spoke locations %s given as %s produce a different gradient than the same locations as float64 (max |diff| %.3g): k-space is not moved by the requested increments"
                                                   % (kint.tolist(), kint.dtype, float(np.abs(gi - gf).max()) if gi.shape == gf.shape else -1), {}))
    r.notes.append("%d spoke assemblies replayed" % nsp)
    r.count("C20", r.traces, r.evaluations, r.nontrivial)
    return r
