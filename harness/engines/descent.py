"""Engine descent (C13; early-stop rule of GradientMethod for C15).

Exact tier: ProxGrad.tla (plain proximal gradient on separable quadratics +
{0, l1, l2^2, box}, exact rationals) is model-checked and every dumped state is
replayed on the real GradientMethod; the O(1/k) gap bound is evaluated on the
exact iterates in unbounded rational arithmetic.  Trace tier: plain /
accelerated GradientMethod and PrimalDualHybridGradient (constant steps,
array-valued steps, strong-convexity acceleration) on larger real / complex
problems with known minimiser, validated by TLC against DescentTrace.tla.
"""
from fractions import Fraction

import numpy as np

from .. import core, tlaval, tlc, tracecheck

LO, HI = Fraction(-1, 2), Fraction(2)


def fr(q):
    return Fraction(q[0], q[1])


def exact_F(st, x):
    d, c, gk = st["d"], st["c"], st["gk"]
    lam = fr(st["lam"])
    L = max(d) * st["adiv"]
    if gk == "l2":
        lam = lam * L
    f = Fraction(0)
    for i in range(len(d)):
        f += Fraction(d[i], 2) * x[i] ** 2 - c[i] * x[i]
        if gk == "l1":
            f += lam * abs(x[i])
        elif gk == "l2":
            f += lam / 2 * x[i] ** 2
    return f


def exact_xstar(st):
    d, c, gk, x0 = st["d"], st["c"], st["gk"], st["x0"]
    lam = fr(st["lam"])
    if gk == "l2":
        lam = lam * max(d) * st["adiv"]
    soft = lambda v, t: 0 if abs(v) <= t else (abs(v) - t) * (1 if v > 0 else -1)
    clip = lambda v: min(max(v, LO), HI)
    xs = []
    for i in range(len(d)):
        di, ci = Fraction(d[i]), Fraction(c[i])
        if di > 0:
            xs.append({"none": ci / di, "l1": soft(ci, lam) / di, "l2": ci / (di + lam), "box": clip(ci / di)}[gk])
        else:
            xs.append({"none": Fraction(x0[i]), "l1": Fraction(0), "l2": ci / lam if lam else 0,
                       "box": HI if ci > 0 else (LO if ci < 0 else clip(Fraction(x0[i])))}[gk])
    return xs


def replay_state(sp, st):
    d = np.array(st["d"], dtype=np.float64)
    c = np.array(st["c"], dtype=np.float64)
    x = np.array(st["x0"], dtype=np.float64)
    xp = x
    L = max(st["d"]) * st["adiv"]
    lam = float(fr(st["lam"])) * (L if st["gk"] == "l2" else 1)
    pg = {"none": None, "l1": sp.prox.L1Reg([2], lam), "l2": sp.prox.L2Reg([2], lam), "box": sp.prox.BoxConstraint([2], float(LO), float(HI))}[st["gk"]]
    gbuf = np.zeros(2)

    def gradf_buf(v):                    # a gradient routine that writes into one persistent output buffer (a caller's choice)
        gbuf[:] = d * v - c
        return gbuf

    gradf = gradf_buf if (st["iter"] + st["adiv"] + len(st["gk"])) % 2 == 0 else (lambda v: d * v - c)
    alg = sp.alg.GradientMethod(gradf, x, 1.0 / L, proxg=pg, accelerate=False, max_iter=3, tol=0)
    out = []
    for k in range(st["iter"]):
        if alg.done():
            out.append(("done_early", "real solver done() after %d updates; model continues to %d" % (k, st["iter"])))
            return out
        alg.update()
    ex = np.array([float(fr(q)) for q in st["x"]])
    if not core.allclose(alg.x, ex, atol=1e-12 * max(1.0, np.abs(ex).max()), rtol=0):
        out.append(("iterate", "after %d updates x = %s, exact proximal-gradient iterate %s" % (st["iter"], alg.x, ex)))
    if alg.x is not xp:
        out.append(("not_in_place", "alg.x is not the caller's array"))
    mdone = st["iter"] >= 3 or not st["moved"] or (st["gk"] == "l2" and st["iter"] >= 2 and False)
    if bool(alg.done()) != bool(mdone):
        out.append(("done", "done() = %s, model %s (iter %d, moved %s)" % (alg.done(), mdone, st["iter"], st["moved"])))
    return out


def fx(v):
    v = float(v)
    if not np.isfinite(v):
        return 2000000000
    return int(min(2e9, round(abs(v) * 1e9)))


def make_problem(rs, n, cplx, gk, kind):
    """A (n x n), x*, y with x* the exact minimiser of 1/2||Ax-y||^2 + g(x)."""
    if kind == "nesterov":
        A = (2 * np.eye(n) - np.eye(n, k=1) - np.eye(n, k=-1)).astype(np.complex128 if cplx else np.float64)
        A = A + (1e-2 if n > 1 else 0) * np.eye(n)
    else:
        Q1, _ = np.linalg.qr(rs.randn(n, n) + (1j * rs.randn(n, n) if cplx else 0))
        Q2, _ = np.linalg.qr(rs.randn(n, n) + (1j * rs.randn(n, n) if cplx else 0))
        cmax = {"random": 10 ** rs.uniform(0.5, 2), "illcond": 10 ** 1.5}.get(kind, rs.uniform(1.5, 5.0))   # "wellcond": the budgeted convergence clause; "illcond": singular values up to 10^1.5 (cond of A^H A = 1e3)
        sv = np.exp(rs.uniform(0, np.log(cmax), n))
        A = (Q1 * sv) @ Q2.conj().T
        if kind == "rowscaled":
            # rows and columns of very different size: the diagonal-preconditioning steps 1/sum|A_ij| then differ by an order
            # of magnitude between components (array-valued tau and sigma that are far from constant)
            A = np.exp(rs.uniform(np.log(0.25), np.log(4.0), n))[:, None] * A * np.exp(rs.uniform(np.log(0.5), np.log(2.0), n))[None, :]
    xs = rs.randn(n) + (1j * rs.randn(n) if cplx else 0)
    lam = 0.0
    if gk == "l1":
        lam = 0.5
        xs[rs.rand(n) < 0.5] = 0
        s = np.where(xs != 0, xs / np.maximum(np.abs(xs), 1e-300), rs.uniform(-0.9, 0.9, n))
        r = -lam * np.linalg.solve(A.conj().T, s)         # A^H (A x* - y) + lam s = 0
    elif gk == "l2":
        lam = 0.7
        r = -lam * np.linalg.solve(A.conj().T, xs)
    elif gk == "box":
        xs = np.real(xs)
        lo, hi = -0.5, 0.8
        xs = np.clip(xs, lo, hi)
        mu = np.where(xs >= hi, rs.uniform(0.1, 1, n), np.where(xs <= lo, -rs.uniform(0.1, 1, n), 0.0))   # -grad f in the normal cone
        r = -np.linalg.solve(A.conj().T, mu)
    else:
        r = np.zeros(n, dtype=A.dtype)
    y = A @ xs - r
    return A, xs.astype(A.dtype), y.astype(A.dtype), lam


def gval(gk, lam, x):
    if gk == "l1":
        return lam * np.abs(x).sum()
    if gk == "l2":
        return lam / 2 * np.linalg.norm(x) ** 2
    return 0.0


def make_prox(sp, gk, lam, n):
    sh = list(n) if isinstance(n, (list, tuple)) else [n]
    return {"none": None, "l1": sp.prox.L1Reg(sh, lam), "l2": sp.prox.L2Reg(sh, lam), "box": sp.prox.BoxConstraint(sh, -0.5, 0.8)}[gk]


def flat(v):
    """Logical (C-order) flattening of whatever layout the caller's array has."""
    return np.asarray(v).reshape(-1)


def record_gm(sp, rs, k):
    n = int(rs.choice([6, 10, 20, 40]))
    gk = str(rs.choice(["none", "l1", "l2", "box"]))
    cplx = bool(rs.rand() < 0.4) and gk != "box"
    kind = "nesterov" if rs.rand() < 0.3 else "random"
    acc = bool(rs.rand() < 0.5)
    forced = None
    if k < 4:
        # always present: the ill-conditioned worst cases on which the O(1/k^2) bound is tight over long runs
        n, gk, cplx, kind, acc = [(40, "none", False, "nesterov", True), (30, "l1", False, "illcond", True), (40, "none", False, "nesterov", False), (30, "l1", True, "illcond", True)][k]
        forced = 400
    A, xs, y, lam = make_problem(rs, n, cplx, gk, kind)
    L = np.linalg.norm(A, 2) ** 2
    alpha = 1.0 / L / float(rs.choice([1.0, 1.0, 2.0]))
    F = lambda v: 0.5 * np.linalg.norm(A @ v - y) ** 2 + gval(gk, lam, v)
    Fs = F(xs)
    # zero start or warm start (the rate bounds are stated in ||x0 - x*||), and the caller's array contiguous or a strided view
    x0 = np.zeros(n, dtype=A.dtype) if k % 2 == 0 else (xs + 0.5 * (rs.randn(n) + (1j * rs.randn(n) if cplx else 0))).astype(A.dtype)
    if gk == "box":
        x0 = np.clip(np.real(x0), -0.5, 0.8).astype(A.dtype)
    shape = [n]
    if k % 4 == 3:
        xbuf = np.zeros(2 * n, dtype=A.dtype)
        x = xbuf[1::2]
        x[:] = x0
    elif k % 4 == 1:
        # the unknown is an IMAGE held by the caller in column-major order / as a plane of a volume (operators see it flattened)
        shape = [n // 2, 2]
        if k % 8 == 1:
            x = np.asfortranarray(x0.reshape(shape))
        else:
            x = np.zeros(shape + [3], dtype=A.dtype)[:, :, 1]
            x[...] = x0.reshape(shape)
    else:
        x = x0.copy()
    F = lambda v: 0.5 * np.linalg.norm(A @ flat(v) - y) ** 2 + gval(gk, lam, flat(v))
    gradf = lambda v: (A.conj().T @ (A @ flat(v) - y)).reshape(np.shape(v))
    D2 = np.linalg.norm(x0 - xs) ** 2
    Leff = 1.0 / alpha
    K = int(rs.choice([30, 80, 200])) if forced is None else forced
    if forced is not None:
        alpha = 1.0 / L
        Leff = L
    alg = sp.alg.GradientMethod(gradf, x, alpha, proxg=make_prox(sp, gk, lam, shape), accelerate=acc, max_iter=K, tol=0)
    ev = []
    Fprev = F(x)
    F0gap = max(Fprev - Fs, 1e-300)
    while not alg.done():
        alg.update()
        kk = alg.iter
        Fk = F(alg.x)
        bound = Leff * D2 / (2 * kk) if not acc else 2 * Leff * D2 / (kk + 1) ** 2
        ev.append({"e": "gm", "iter": int(kk), "ratio": fx(max(Fk - Fs, 0) / max(bound, 1e-300)), "up": fx(max(Fk - Fprev, 0) / F0gap), "mdist": 0, "prod": 0,
                   "saddle_defect": 0, "final_dist": 0, "caller_prod": 0, "in_place": 1})
        Fprev = Fk
        if alg.iter > K + 2:
            break          # more updates than max_iter: the end event carries the count and the trace is rejected
    # fixed point: one update started at the minimiser
    xf = xs.copy()
    a2 = sp.alg.GradientMethod(lambda v: A.conj().T @ (A @ v - y), xf, alpha, proxg=make_prox(sp, gk, lam, n), accelerate=acc, max_iter=1, tol=0)
    a2.update()
    defect = np.linalg.norm(a2.x - xs) / max(np.linalg.norm(xs), 1.0)
    ev.append({"e": "end", "iter": int(alg.iter), "ratio": 0, "up": 0, "mdist": 0, "prod": 0, "saddle_defect": fx(defect),
               "final_dist": fx(np.sqrt(max(Fprev - Fs, 0) / F0gap)), "caller_prod": 0, "in_place": int(alg.x is x or np.array_equal(np.asarray(x), np.asarray(alg.x)))})
    return {"id": "gm%d" % k, "accelerate": int(acc), "constant_steps": 1, "max_iter": K, "final_tol": 1000000000, "ev": ev,
            "meta": {"n": n, "g": gk, "complex": cplx, "kind": kind, "accelerate": acc, "alpha_L": round(alpha * L, 2),
                     "x": "strided" if k % 4 == 3 else ("column-major image" if k % 8 == 1 else "plane of a volume") if k % 4 == 1 else "contiguous"}}


# relative distance to the minimiser that an accelerated run must reach within its 3000 updates (unit 1e-9); measured on the
# unchanged tree over 400 runs: worst 1.1e-4 (primal acceleration, scalar steps), 1.9e-5 (dual, array steps); 3e-3 leaves a
# factor 27.  A wrong step rescaling makes the steps degenerate and the iterates stall (seed C13-3 stalls at 3e-2).
ACCEL_FINAL_TOL = 3000000
# dual acceleration: worst 6.5e-5 over 170 runs (row-scaled problems included); with the smallest step replaced by the largest
# in the rescaling rule the median run stalls at 1.3e-3
ACCEL_DUAL_FINAL_TOL = 1000000


def record_pdhg(sp, rs, k, force_mode=None):
    n = int(rs.choice([4, 8, 16]))
    gk = str(rs.choice(["none", "l1", "l2", "l2", "box"])) if force_mode != "accel_p_arr" else "l2"
    cplx = bool(rs.rand() < 0.4) and gk != "box"
    A, xs, y, lam = make_problem(rs, n, cplx, gk, "wellcond")
    # step-size modes: constant scalar / constant per-component (diagonal preconditioning of Pock & Chambolle 2011:
    # tau_j = 1/sum_i |A_ij|, sigma_i = 1/sum_j |A_ij|, both non-constant arrays) / strong-convexity acceleration through the
    # primal (g = lam/2 |x|^2, gamma_primal = lam) or the dual (f^* is 1-strongly convex, gamma_dual = 1), each with scalar
    # and with array-valued steps
    modes = ["scalar", "array", "accel_d", "accel_d_arr"] + (["accel_p", "accel_p_arr", "accel_p"] if gk == "l2" else [])
    mode = force_mode or (modes[k % len(modes)] if k < 2 * len(modes) else str(rs.choice(modes)))
    if mode.endswith("array") or mode.endswith("_arr"):
        A, xs, y, lam = make_problem(rs, n, cplx, gk, "rowscaled")
    us = A @ xs - y
    nA = np.linalg.norm(A, 2)
    if mode.endswith("array") or mode.endswith("_arr"):
        absA = np.abs(A)
        tau = 0.95 / absA.sum(axis=0)
        sigma = 1.0 / absA.sum(axis=1)
    else:
        sigma = float(rs.choice([0.1, 1.0, 5.0]))
        tau = 0.95 / (sigma * nA ** 2)
    accel = mode.startswith("accel")
    K = 3000
    gp = lam if mode.startswith("accel_p") else 0
    gd = 1.0 if mode.startswith("accel_d") else 0
    shape = [n]
    img = k % 4 == 0 and not (mode.endswith("array") or mode.endswith("_arr"))
    if k % 4 == 2:
        # the caller's primal / dual arrays are strided views: they must still hold the iterates
        xbuf, ubuf = np.zeros(2 * n, dtype=A.dtype), np.zeros((n, 2), dtype=A.dtype)
        x, u = xbuf[::2], ubuf[:, 1]
    elif img:
        # primal and dual are IMAGES: one in column-major order, one a plane of a volume (operators see them flattened)
        shape = [n // 2, 2]
        x = np.asfortranarray(np.zeros(shape, dtype=A.dtype))
        u = np.zeros([3] + shape, dtype=A.dtype).transpose(1, 2, 0)[:, :, 1]
    else:
        x = np.zeros(n, dtype=A.dtype)
        u = np.zeros(n, dtype=A.dtype)
    tau_a = tau.copy() if isinstance(tau, np.ndarray) else tau
    sig_a = sigma.copy() if isinstance(sigma, np.ndarray) else sigma
    pg = make_prox(sp, gk, lam, shape) or sp.prox.NoOp(shape)
    Aop = (lambda v: A @ v) if not img else (lambda v: (A @ flat(v)).reshape(shape))
    AHop = (lambda v: A.conj().T @ v) if not img else (lambda v: (A.conj().T @ flat(v)).reshape(shape))
    alg = sp.alg.PrimalDualHybridGradient(sp.prox.L2Reg(shape, 1, y=-y.reshape(shape)), pg, Aop, AHop, x, u, tau_a, sig_a,
                                          gamma_primal=gp, gamma_dual=gd, max_iter=K, tol=0)
    ts0 = np.mean(np.asarray(tau, dtype=float)) * np.mean(np.asarray(sigma, dtype=float))

    def M(dx, du):
        return float(np.real(np.vdot(dx, dx / tau)) + np.real(np.vdot(du, du / sigma)) - 2 * np.real(np.vdot(du, A @ dx)))

    ev = []
    xprev = flat(x).copy()
    m1 = None
    while not alg.done():
        alg.update()
        kk = alg.iter
        if kk <= 400:
            md = 0
            if not accel:
                m = M(xprev - xs, flat(alg.u) - us)
                if m1 is None:
                    m1 = max(m, 1e-300)
                md = fx(m / m1)
            # tau_i * sigma_j is invariant under the acceleration for every pair (both are rescaled uniformly)
            pr = fx(abs(np.mean(np.asarray(alg.tau, dtype=float)) * np.mean(np.asarray(alg.sigma, dtype=float)) / ts0 - 1)
                    + float(np.max(np.abs(np.asarray(alg.tau, dtype=float) / np.asarray(tau, dtype=float) * np.mean(np.asarray(alg.sigma, dtype=float)) / np.mean(np.asarray(sigma, dtype=float)) - 1))))
            ev.append({"e": "pd", "iter": int(kk), "ratio": 0, "up": 0, "mdist": md, "prod": pr, "saddle_defect": 0, "final_dist": 0, "caller_prod": 0, "in_place": 1})
        xprev = flat(alg.x).copy()
        if alg.iter > K + 2:
            break
    # saddle point is a fixed point
    x2, u2 = xs.copy(), us.copy()
    a2 = sp.alg.PrimalDualHybridGradient(sp.prox.L2Reg([n], 1, y=-y), make_prox(sp, gk, lam, n) or sp.prox.NoOp([n]), lambda v: A @ v, lambda v: A.conj().T @ v, x2, u2,
                                         tau.copy() if isinstance(tau, np.ndarray) else tau, sigma.copy() if isinstance(sigma, np.ndarray) else sigma, max_iter=1, tol=0)
    a2.update()
    defect = (np.linalg.norm(a2.x - xs) + np.linalg.norm(a2.u - us)) / max(np.linalg.norm(xs) + np.linalg.norm(us), 1.0)
    fd = np.linalg.norm(flat(alg.x) - xs) / max(np.linalg.norm(xs), 1e-12)
    # array-valued steps handed in by the caller (the class rescales them in place under acceleration): whatever happens to the
    # caller's arrays, the PAIR must stay what it was - tau_i * sigma_j unchanged - so that it is still admissible for a later use
    caller_prod = 0.0
    if isinstance(tau_a, np.ndarray) and isinstance(sig_a, np.ndarray):
        caller_prod = float(np.max(np.abs(np.outer(np.asarray(tau_a, dtype=float), np.asarray(sig_a, dtype=float)) / np.outer(np.asarray(tau, dtype=float), np.asarray(sigma, dtype=float)) - 1)))
    ev.append({"e": "end", "iter": int(alg.iter), "ratio": 0, "up": 0, "mdist": 0, "prod": 0, "saddle_defect": fx(defect), "final_dist": fx(fd), "caller_prod": fx(caller_prod),
               "in_place": int((alg.x is x or np.array_equal(np.asarray(x), np.asarray(alg.x))) and (alg.u is u or np.array_equal(np.asarray(u), np.asarray(alg.u))))})
    # only the first 400 updates are logged: iter of the end event is not checked against the log
    return {"id": "pd%d" % k, "accelerate": int(accel), "constant_steps": int(not accel), "max_iter": K, "final_tol": 100000 if not accel else (ACCEL_FINAL_TOL if mode.startswith("accel_p") else ACCEL_DUAL_FINAL_TOL), "ev": ev, "final_dist_float": float(fd),
            "meta": {"n": n, "g": gk, "complex": cplx, "steps": mode, "sigma": sigma if not isinstance(sigma, np.ndarray) else "array",
                     "xu": "strided" if k % 4 == 2 else "images (column-major, plane of a volume)" if img else "contiguous"}}


def run(ctx):
    import sigpy as sp

    r = core.EngineResult("descent")
    wd = tlc.fresh_dir("descent_%s" % ctx.tier)
    body = ("EXTENDS ProxGrad\nMCDs == {<<4, 1>>, <<2, 2>>, <<8, 1>>, <<4, 0>>, <<1, 8>>, <<1, 1>>}\nMCCs == {<<a, b>> : a \\in {-3, 0, 2}, b \\in {-1, 0, 5}}\n"
            "MCLam == {R(1, 1), R(2, 1)}\nMCX0 == {<<0, 0>>, <<2, -1>>}\nMCLo == R(-1, 2)\nMCHi == R(2, 1)\n")
    cfg = ('INIT Init\nNEXT Next\nCONSTANTS\n Ds <- MCDs\n Cs <- MCCs\n Gkinds = {"none", "l1", "l2", "box"}\n LamVals <- MCLam\n X0s <- MCX0\n AlphaDivs = {1, 2}\n MaxIter = 3\n'
           ' BoxLo <- MCLo\n BoxHi <- MCHi\nINVARIANT XstarIsFixed\nINVARIANT EarlyStopOnlyAtFixedPoint\nPROPERTY ObjectiveNonIncreasing\nPROPERTY DistanceNonIncreasing\n')
    tlc.write_mc(wd, "MC_ProxGrad", body, cfg)
    res = tlc.run_tlc(wd, "MC_ProxGrad", dump=True, coverage=False, timeout=900)
    r.add_tlc(res, "ProxGrad")
    if res.violated:
        r.violations.append(core.Violation(["C13"], "descent", {"kind": "spec_invariant", "invariant": res.violated}, "TLC: %s fails on ProxGrad.tla" % res.violated, {}))
        return r
    if r.machinery_error:
        return r
    n = 0
    for st in tlaval.read_dump(res.dump_path):
        n += 1
        for kind, detail in replay_state(sp, st):
            r.violations.append(core.Violation(["C13"] + (["C15"] if kind in ("done", "done_early") else []), "descent",
                                               {"kind": kind, "d": list(st["d"]), "c": list(st["c"]), "g": st["gk"], "lam": str(fr(st["lam"])), "x0": list(st["x0"]), "adiv": st["adiv"], "iter": st["iter"]}, detail, {}))
        # O(1/k) bound on the exact iterates, in unbounded rationals
        if st["iter"] >= 1:
            x = [fr(q) for q in st["x"]]
            xs = exact_xstar(st)
            gap = exact_F(st, x) - exact_F(st, xs)
            L = max(st["d"]) * st["adiv"]
            D2 = sum((Fraction(a) - b) ** 2 for a, b in zip(st["x0"], xs))
            if gap < 0 or gap * 2 * st["iter"] > L * D2:
                r.violations.append(core.Violation(["C13"], "descent", {"kind": "spec_gap_bound", "d": list(st["d"]), "g": st["gk"], "iter": st["iter"]},
                                                   "exact model iterate violates F(x_k)-F* <= L||x0-x*||^2/(2k): gap %s" % gap, {}))
        if len(r.samples) < 3 and st["iter"] == 2 and n % 500 == 0:
            r.samples.append({"d": list(st["d"]), "c": list(st["c"]), "g": st["gk"], "x0": list(st["x0"]), "iter": 2, "x": [str(fr(q)) for q in st["x"]]})
    r.traces += n
    r.evaluations += n
    r.nontrivial += n
    rs = ctx.nprng("descent_traces")
    ng, npd = (150, 90) if ctx.thorough else (50, 30)
    traces = [record_gm(sp, rs, k) for k in range(ng)] + [record_pdhg(sp, rs, k) for k in range(npd)]
    # accelerated runs with strongly non-constant array-valued steps (the rescaling rule must use the SMALLEST step)
    nacc = 36 if ctx.thorough else 12
    traces += [record_pdhg(sp, rs, npd + k, force_mode="accel_d_arr" if k % 3 else "accel_p_arr") for k in range(nacc)]
    npd += nacc
    slim = [{k2: v for k2, v in t.items() if k2 != "meta"} for t in traces]
    tres, rej = tracecheck.validate("DescentTrace", slim, wd, constants=["Slack = 1000"], timeout=900, invariants=())
    r.add_tlc(tres, "DescentTrace")
    byid = {t["id"]: t for t in traces}
    for tid, line in rej.items():
        t = byid[tid]
        cur = t["ev"][line - 1] if line - 1 < len(t["ev"]) else None
        r.violations.append(core.Violation(["C13"], "descent", {"kind": "trace_rejected", "alg": "GradientMethod" if tid.startswith("gm") else "PrimalDualHybridGradient", "meta": t["meta"],
                                                                "event": cur["e"] if cur else "?"},
                                           "run %s %s rejected by DescentTrace at event %d: %s" % (tid, t["meta"], line, cur), {"trace_head": t["ev"][:5], "line": line}))
    r.traces += len(traces)
    r.evaluations += len(traces)
    r.nontrivial += len(traces)
    r.samples.append({"trace": traces[0]["meta"], "events": traces[0]["ev"][:3]})
    r.samples.append({"trace": traces[-1]["meta"], "events": traces[-1]["ev"][:3]})
    r.notes.append("%d exact states replayed; %d GradientMethod and %d PDHG runs validated as traces" % (n, ng, npd))
    r.count("C13", r.traces, r.evaluations, r.nontrivial)
    r.count("C15", n, n, n)
    return r
