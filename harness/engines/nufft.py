"""Engine nufft (C06; Toeplitz clause of C04; NUFFT purity/determinism for C02; NUFFT adjoint for C01).

TLC enumerates image shapes x coordinate families of Nufft.tla, emits the exact
NDFT as matrices of integer exponents of a root of unity and checks the exact
laws (periodicity, centre reference, periodicity of the oversampled coordinate
map).  The harness realises the NDFT matrix F, probes sigpy.nufft /
nufft_adjoint / linop.NUFFT to dense matrices for every (oversamp, width) and
logs relative defects; the thresholds live in AccuracyTrace.tla constants and
TLC accepts or rejects each measurement series.
"""
import itertools
import multiprocessing as mp

import numpy as np

from .. import core, tlaval, tlc, tracecheck
from . import linop_build

DEN = 8
OVERSAMPS = [1.25, 1.5, 2.0]
WIDTHS = [3, 4, 5, 6]
# thresholds (relative l2 / Frobenius error of nufft against the exact NDFT).  (1.25, 4) and (2, >=4) are the property's
# own figures (3 % and 0.3 %); the others were measured once on the repaired tree (worst case over the quick-tier
# shapes x families, see DESIGN.md section 5 C06) and frozen at 3x the measurement.
ACC = {}
_SP = None


def _sp():
    global _SP
    if _SP is None:
        core.use_repo()
        import sigpy

        _SP = sigpy
    return _SP


def cls_name(os_, w):
    return "os%d_w%d" % (int(round(os_ * 100)), w)


def ndft_matrix(st):
    shape = tuple(st["cfg"]["shape"])
    npts = len(st["cfg"]["pts"])
    F = np.ones((npts,) + shape, dtype=np.complex128)
    for d, N in enumerate(shape):
        E = np.array(st["expo"][d], dtype=np.float64)                 # npts x N exponents of exp(2 pi i/(DEN*N))
        ph = np.exp(2j * np.pi * E / (DEN * N))
        sl = [slice(None)] + [None] * len(shape)
        sl[d + 1] = slice(None)
        F = F * ph[tuple(sl)]
    return F.reshape(npts, -1) / np.sqrt(np.prod(shape))


def dense_fn(fn, ishape, oshape):
    n = int(np.prod(ishape))
    M = np.zeros((int(np.prod(oshape)), n), dtype=np.complex128)
    for j in range(n):
        x = np.zeros(n, dtype=np.complex128)
        x[j] = 1
        M[:, j] = np.asarray(fn(x.reshape(ishape))).ravel()
    return M


def fx(v):
    v = float(v)
    if not np.isfinite(v):
        return 2000000000
    return int(min(2e9, round(abs(v) * 1e9)))


def measure(job):
    """Returns (meta, list of (cls, value, note)) for one (shape, family) and all (oversamp, width)."""
    sp = _sp()
    st, seed, pairs = job
    rs = np.random.RandomState(seed)
    shape = list(st["cfg"]["shape"])
    pts = np.array(st["cfg"]["pts"], dtype=np.float64) / DEN
    F = ndft_matrix(st)
    npts = len(pts)
    out = []
    nF = np.linalg.norm(F)
    G = F.conj().T @ F
    for os_, w in pairs:
        c = cls_name(os_, w)
        coord = pts.copy()
        coord0 = coord.copy()
        A = dense_fn(lambda x: sp.nufft(x, coord, oversamp=os_, width=w), shape, [npts])
        out.append((c, np.linalg.norm(A - F) / nF, "fro"))
        for _ in range(2):
            x = rs.randn(*shape) + 1j * rs.randn(*shape)
            # error of the output for a random image, relative to the size an output of the exact transform has for such an
            # image (||F||_F ||x|| / sqrt(n)); dividing by ||F x|| of the particular x amplifies noise without bound for
            # clustered coordinates, where F is nearly rank deficient (false-alarm log 13)
            out.append((c, np.linalg.norm((A - F) @ x.ravel()) / (nF * np.linalg.norm(x) / np.sqrt(x.size)), "random x"))
        # adjoint: exact conjugate transpose, same scaling
        AH = dense_fn(lambda y: sp.nufft_adjoint(y, coord, oshape=shape, oversamp=os_, width=w), [npts], shape)
        out.append(("adjoint_exact", np.linalg.norm(AH - A.conj().T) / max(np.linalg.norm(A), 1e-300), "nufft_adjoint vs nufft^H (%s)" % c))
        out.append((c + "_gram", np.linalg.norm(AH @ A - G) / np.linalg.norm(G), "gram"))
        if not np.array_equal(coord, coord0):
            out.append(("purity", 1.0, "nufft/nufft_adjoint modified the coordinate array"))
    # oversampling ratios BETWEEN the tabulated ones, called after them in the same process (the property quantifies over the
    # whole interval [1.25, 2]; ratios that round to an oversampled grid already used must not reuse anything computed for the
    # other ratio).  Accuracy improves with the ratio, so the bound of the next lower tabulated ratio applies.
    for os2, lower in ((1.3, 1.25), (1.4, 1.25), (1.75, 1.5), (1.9, 1.5)):
        for w in (4, 6):
            if (lower, w) not in pairs:
                continue
            coord = pts.copy()
            A2 = dense_fn(lambda x: sp.nufft(x, coord, oversamp=os2, width=w), shape, [npts])
            out.append((cls_name(lower, w), np.linalg.norm(A2 - F) / nF, "fro, oversamp=%s (bound of oversamp=%s)" % (os2, lower)))
            AH2 = dense_fn(lambda y: sp.nufft_adjoint(y, coord, oshape=shape, oversamp=os2, width=w), [npts], shape)
            out.append(("adjoint_exact", np.linalg.norm(AH2 - A2.conj().T) / max(np.linalg.norm(A2), 1e-300), "nufft_adjoint vs nufft^H (oversamp=%s, width=%s)" % (os2, w)))
    # ... and the tabulated ratios once more after them: same operator as the first time (no dependence on the call history)
    for os_, w in pairs[:2]:
        coord = pts.copy()
        A3 = dense_fn(lambda x: sp.nufft(x, coord, oversamp=os_, width=w), shape, [npts])
        out.append((cls_name(os_, w), np.linalg.norm(A3 - F) / nF, "fro, repeated after other oversampling ratios"))
    # image and coordinates in other memory layouts (Fortran order, strided views): same transform, arguments untouched
    coord = pts.copy()
    xl = rs.randn(*shape) + 1j * rs.randn(*shape)
    y_ref = sp.nufft(xl, coord)
    z_ref = sp.nufft_adjoint(y_ref, coord, oshape=shape)
    for (lab, xv), (_, cv) in zip(core.layouts(xl) or [("C", xl)] * 2, core.layouts(coord) or [("C", coord)] * 2):
        xv0, cv0 = xv.copy(), cv.copy()
        yv = sp.nufft(xv, cv)
        zv = sp.nufft_adjoint(np.asfortranarray(y_ref) if lab.startswith("F") else y_ref, cv, oshape=shape)
        out.append(("batch_exact", float(np.linalg.norm(yv - y_ref) / max(np.linalg.norm(y_ref), 1e-300) + np.linalg.norm(zv - z_ref) / max(np.linalg.norm(z_ref), 1e-300)), "nufft / nufft_adjoint with %s arguments vs C order" % lab))
        if not (np.array_equal(xv, xv0) and np.array_equal(cv, cv0)):
            out.append(("purity", 1.0, "nufft / nufft_adjoint modified a %s argument" % lab))
    # scalar parameters given as NumPy scalars (an element of np.arange / rng.choice, a float32) are the same numbers
    for os_n, w_n in ((np.float32(1.25), np.int64(4)), (np.float64(2.0), np.int32(4)), (1.5, np.float32(4.0))):
        try:
            yn = sp.nufft(xl, pts.copy(), oversamp=os_n, width=w_n)
            yp = sp.nufft(xl, pts.copy(), oversamp=float(os_n), width=int(w_n))
            out.append(("scalar_type", float(np.linalg.norm(yn - yp) / max(np.linalg.norm(yp), 1e-300)), "nufft with oversamp=%r, width=%r vs the builtin numbers" % (os_n, w_n)))
        except Exception as e:
            out.append(("scalar_type", 1.0, "nufft raised %s for oversamp=%r, width=%r" % (type(e).__name__, os_n, w_n)))
    # single-precision coordinates, used for several calls (forward twice, then the adjoint): not overwritten, same result
    c32 = pts.astype(np.float32)
    c32_0 = c32.copy()
    F32 = ndft_matrix(st) if np.array_equal(c32.astype(np.float64), pts) else None
    ya = sp.nufft(xl, c32)
    yb = sp.nufft(xl, c32)
    za = sp.nufft_adjoint(ya, c32, oshape=shape)
    if F32 is not None:
        out.append((cls_name(1.25, 4), np.linalg.norm(yb - F32 @ xl.ravel()) / (nF * np.linalg.norm(xl) / np.sqrt(xl.size)), "second call with float32 coordinates vs the exact transform"))
    out.append(("determinism", float(np.abs(ya - yb).max()), "nufft called twice with the same float32 coordinate array"))
    if not np.array_equal(c32, c32_0):
        out.append(("purity", 1.0, "nufft / nufft_adjoint modified the float32 coordinate array"))
    # batch axis, complex64 precision, real input, operator-level checks at the defaults
    coord = pts.copy()
    xb = rs.randn(2, *shape) + 1j * rs.randn(2, *shape)
    yb = sp.nufft(xb, coord)
    y0 = np.stack([sp.nufft(xb[i], coord) for i in range(2)])
    out.append(("batch_exact", np.linalg.norm(yb - y0) / max(np.linalg.norm(y0), 1e-300), "batch axis"))
    # ... and the adjoint with batch axes: one and two leading axes, output shape given and estimated from the coordinates
    for nb in ([2], [2, 1]):
        ybb = (rs.randn(*nb, npts) + 1j * rs.randn(*nb, npts))
        flat_b = ybb.reshape(-1, npts)
        zb = sp.nufft_adjoint(ybb, coord, oshape=nb + list(shape))
        z0 = np.stack([sp.nufft_adjoint(flat_b[i], coord, oshape=shape) for i in range(len(flat_b))]).reshape(nb + list(shape))
        out.append(("batch_exact", (np.linalg.norm(zb - z0) / max(np.linalg.norm(z0), 1e-300)) if zb.shape == z0.shape else 1.0, "nufft_adjoint with batch axes %s" % nb))
        if min(sp.estimate_shape(coord)) < 1:
            continue          # (coordinates spanning less than one grid unit give an empty estimated shape: not a usable call)
        ze = sp.nufft_adjoint(ybb, coord)
        z1 = np.stack([sp.nufft_adjoint(flat_b[i], coord) for i in range(len(flat_b))])
        z1 = z1.reshape(nb + list(z1.shape[1:]))
        out.append(("batch_exact", (np.linalg.norm(ze - z1) / max(np.linalg.norm(z1), 1e-300)) if ze.shape == z1.shape else 1.0,
                    "nufft_adjoint with batch axes %s and the output shape estimated from the coordinates (got shape %s, per item %s)" % (nb, ze.shape, z1.shape)))
    for tz in (False, True):
        coord = pts.copy()
        c0 = coord.copy()
        L = sp.linop.NUFFT(shape, coord, toeplitz=tz)
        x = rs.randn(*shape) + 1j * rs.randn(*shape)
        y1 = L(x).copy()
        z1 = L.H(y1).copy()
        Nn = dense_fn(lambda v: L.N(v), shape, shape)
        Fw = dense_fn(lambda v: L(v), shape, [npts])
        AHA = Fw.conj().T @ Fw
        y2 = L(x)
        z2 = L.H(y1)
        out.append(("determinism", float(np.abs(y2 - y1).max() + np.abs(z2 - z1).max()), "A(x), A.H(y) before/after .N (toeplitz=%s)" % tz))
        if not np.array_equal(coord, c0):
            out.append(("purity", 1.0, "taking/applying .N modified the coordinate array the operator was built from (toeplitz=%s)" % tz))
        out.append(("normal_toeplitz" if tz else "normal_exact", np.linalg.norm(Nn - AHA) / max(np.linalg.norm(AHA), 1e-300), "A.N vs A^H A (toeplitz=%s)" % tz))
        GH, _ = linop_build.dense(L.H)
        out.append(("adjoint_exact", np.linalg.norm(GH - Fw.conj().T) / max(np.linalg.norm(Fw), 1e-300), "linop NUFFT.H vs dense(A)^H"))
    # operator level with NON-default oversamp / width: NUFFT, a directly constructed NUFFTAdjoint, and their adjoints taken from
    # either side (Linop.H caches only one direction: A.H.H is rebuilt by NUFFTAdjoint._adjoint_linop) must carry the same parameters
    for os_, w in [pw for pw in pairs if pw != (1.25, 4)][:2]:
        coord = pts.copy()
        L = sp.linop.NUFFT(shape, coord, oversamp=os_, width=w)
        Fw = dense_fn(lambda v: L(v), shape, [npts])
        nFw = max(np.linalg.norm(Fw), 1e-300)
        for label, op, ref in (("NUFFT.H", L.H, Fw.conj().T), ("NUFFT.H.H", L.H.H, Fw), ("(2j*NUFFT).H.H", (2j * L).H.H, 2j * Fw)):
            M, _ = linop_build.dense(op)
            out.append(("adjoint_exact", np.linalg.norm(M - ref) / nFw, "%s vs the dense matrix (oversamp=%s, width=%s)" % (label, os_, w)))
        B = sp.linop.NUFFTAdjoint(shape, coord, oversamp=os_, width=w)
        Bm, _ = linop_build.dense(B)
        BH, _ = linop_build.dense(B.H)
        out.append(("adjoint_exact", np.linalg.norm(BH - Bm.conj().T) / max(np.linalg.norm(Bm), 1e-300), "NUFFTAdjoint(...).H vs dense(NUFFTAdjoint)^H (oversamp=%s, width=%s)" % (os_, w)))
        out.append(("adjoint_exact", np.linalg.norm(Bm - Fw.conj().T) / nFw, "NUFFTAdjoint(...) vs dense(NUFFT)^H (oversamp=%s, width=%s)" % (os_, w)))
        Nn = dense_fn(lambda v: L.N(v), shape, shape)
        out.append(("normal_exact", np.linalg.norm(Nn - Fw.conj().T @ Fw) / max(np.linalg.norm(Fw.conj().T @ Fw), 1e-300), "A.N vs A^H A (oversamp=%s, width=%s)" % (os_, w)))
    # leading batch axes in the operator's input shape (coils, frames): the normal operator, exact and Toeplitz
    if int(np.prod(shape)) <= 64:
        for nb in ([2], [1], [2, 2]):
            bshape = nb + shape
            for tz in (False, True):
                coord = pts.copy()
                Lb = sp.linop.NUFFT(bshape, coord, toeplitz=tz)
                Fb, _ = linop_build.dense(Lb)
                Nb, _ = linop_build.dense(Lb.N)
                AHAb = Fb.conj().T @ Fb
                out.append(("normal_toeplitz" if tz else "normal_exact", np.linalg.norm(Nb - AHAb) / max(np.linalg.norm(AHAb), 1e-300), "A.N vs A^H A with input shape %s (toeplitz=%s)" % (bshape, tz)))
    meta = {"shape": shape, "family": st["cfg"]["family"], "npts": npts}
    return meta, [(c, float(v), note) for c, v, note in out]


def bounds_table():
    b = {}
    for (os_, w), v in ACC.items():
        b[cls_name(os_, w)] = fx(v)
        b[cls_name(os_, w) + "_gram"] = fx(2.5 * v)
    b["adjoint_exact"] = fx(1e-10)
    b["batch_exact"] = fx(1e-12)
    b["normal_exact"] = fx(1e-10)
    b["normal_toeplitz"] = fx(0.035)      # "within the interpolation accuracy of the NUFFT" at the defaults (complex64 PSF)
    b["scalar_type"] = fx(1e-5)       # a float32 width / ratio goes through single-precision arithmetic for beta (measured 1.3e-7)
    b["determinism"] = 0
    b["purity"] = 0
    return b


ACC.update({(1.25, 3): 0.25, (1.25, 4): 0.03, (1.25, 5): 0.016, (1.25, 6): 0.0024,
            (1.5, 3): 0.076, (1.5, 4): 0.011, (1.5, 5): 0.0024, (1.5, 6): 0.00032,
            (2.0, 3): 0.03, (2.0, 4): 0.003, (2.0, 5): 0.00045, (2.0, 6): 0.000047})
# measured worst cases on the repaired tree (quick-tier shapes x families): 0.084 0.018 0.0053 0.00080 / 0.025 0.0036 0.00080 0.00011 /
# 0.0101 0.00105 0.00015 0.000016; Toeplitz normal 0.0116


def run(ctx, calibrate=False):
    r = core.EngineResult("nufft")
    wd = tlc.fresh_dir("nufft_%s" % ctx.tier)
    if ctx.thorough:
        shapes = "{<<3>>, <<4>>, <<7>>, <<8>>, <<13>>, <<16>>, <<4, 4>>, <<5, 6>>, <<7, 3>>, <<8, 8>>, <<3, 4, 5>>, <<4, 4, 4>>}"
    else:
        shapes = "{<<4>>, <<7>>, <<16>>, <<4, 4>>, <<5, 6>>, <<3, 4, 5>>}"
    body = "EXTENDS Nufft\nMCShapes == %s\nMCOs == {R(5, 4), R(3, 2), R(2, 1)}\n" % shapes
    cfg = ('INIT Init\nNEXT Next\nCONSTANTS\n Shapes <- MCShapes\n Families = {"ongrid", "half", "eighths", "cluster", "outside"}\n Den = %d\n Oversamps <- MCOs\n'
           'INVARIANT Periodic\nINVARIANT CentreReference\nINVARIANT MechanismPeriodic\nINVARIANT OsGridCoversImage\n' % DEN)
    tlc.write_mc(wd, "MC_Nufft", body, cfg)
    res = tlc.run_tlc(wd, "MC_Nufft", dump=True, coverage=False, timeout=900)
    r.add_tlc(res, "Nufft")
    if res.violated:
        r.machinery_error = "Nufft.tla: exact law %s fails" % res.violated
        return r
    if r.machinery_error:
        return r
    states = list(tlaval.read_dump(res.dump_path))
    pairs_all = list(itertools.product(OVERSAMPS, WIDTHS))
    jobs = []
    for k, st in enumerate(states):
        big = int(np.prod(st["cfg"]["shape"])) > 40
        pairs = pairs_all if (ctx.thorough or not big) else [(1.25, 4), (2.0, 4), (1.5, 6)]
        jobs.append((st, ctx.seed * 31 + k, pairs))
    _sp()
    with mp.get_context("fork").Pool(16) as pool:
        results = pool.map(measure, jobs, chunksize=1)
    if calibrate:
        return results
    traces = []
    for k, (meta, ms) in enumerate(results):
        traces.append({"id": "nufft%d" % k, "meta": meta, "ev": [{"cls": c, "val": fx(v)} for c, v, _ in ms], "notes": [n for _, _, n in ms]})
    b = bounds_table()
    defs = "MCBounds == " + " @@ ".join('"%s" :> %d' % (k2, v) for k2, v in sorted(b.items())) + "\n"
    tres, rej = tracecheck.validate("AccuracyTrace", [{"id": t["id"], "ev": t["ev"]} for t in traces], wd, constants=["Bounds <- MCBounds"], invariants=(), defs=defs, timeout=600)
    r.add_tlc(tres, "AccuracyTrace")
    byid = {t["id"]: t for t in traces}
    for tid, line in rej.items():
        t = byid[tid]
        e = t["ev"][line - 1]
        cls_ = e["cls"]
        props = ["C06"]
        if cls_ in ("normal_toeplitz", "normal_exact"):
            props = ["C04"]
        elif cls_ in ("purity", "determinism"):
            props = ["C02"]
        elif cls_ == "adjoint_exact":
            props = ["C01", "C06"]
        r.violations.append(core.Violation(props, "nufft", {"kind": cls_, "shape": t["meta"]["shape"], "family": t["meta"]["family"]},
                                           "%s: measured %.3g exceeds the bound %.3g of AccuracyTrace (%s)" % (cls_, e["val"] / 1e9, b.get(cls_, 0) / 1e9, t["notes"][line - 1]), {"trace": t}))
    r.traces += len(traces)
    r.evaluations += sum(len(t["ev"]) for t in traces)
    r.nontrivial += len(traces)
    r.samples.append({"config": traces[0]["meta"], "measurements": [dict(e, note=n) for e, n in zip(traces[0]["ev"][:6], traces[0]["notes"][:6])]})
    r.notes.append("%d (shape, family) configurations x (oversamp, width) pairs; %d measurements validated against the AccuracyTrace bounds" % (len(traces), r.evaluations))
    for p in ("C06", "C04", "C02", "C01"):
        r.count(p, r.traces, r.evaluations, r.nontrivial)
    return r
