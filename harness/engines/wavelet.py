"""Engine wavelet (C10; Wavelet operators for C01).

TLC enumerates Wavelet.tla configurations (orthogonal families with their
filter lengths, shapes incl. odd extents and extents shorter than the filter,
axes subsets incl. negative indices, levels None/1/2/3) and computes the
coefficient-array shape by the exact shape calculus.  The harness compares it
with sigpy.fwt(x).shape and linop.Wavelet(...).oshape and measures
iwt(fwt x) = x, ||fwt x|| = ||x||, <fwt x, c> = <x, iwt c> for real and complex
x; the defects are validated by TLC against AccuracyTrace.tla.
"""
import multiprocessing as mp
import warnings

import numpy as np

from .. import core, tlaval, tlc, tracecheck

_SP = None


def _sp():
    global _SP
    if _SP is None:
        core.use_repo()
        import sigpy

        _SP = sigpy
    return _SP


def fx(v):
    v = float(v)
    if not np.isfinite(v):
        return 2000000000
    return int(min(2e9, round(abs(v) * 1e9)))


def wavelet_table(thorough):
    import pywt

    names = ["haar", "db2", "db4", "sym3", "coif1"] if not thorough else (
        ["haar"] + ["db%d" % i for i in range(2, 9)] + ["sym%d" % i for i in range(2, 9)] + ["coif%d" % i for i in range(1, 6)])
    out = []
    for n in names:
        w = pywt.Wavelet(n)
        assert w.orthogonal
        out.append((n, w.dec_len))
    return out


def measure(job):
    sp = _sp()
    st, seed = job
    c = st["cfg"]
    rs = np.random.RandomState(seed)
    shape = list(c["shape"])
    axes = None if len(c["axes"]) == 0 else tuple(c["axes"])
    level = None if c["level"] == 0 else c["level"]
    spec_osh = tuple(st["oshape"])
    ev = []
    with warnings.catch_warnings():
        warnings.simplefilter("ignore")
        try:
            W = sp.linop.Wavelet(shape, axes=axes, wave_name=c["wave"], level=level)
        except Exception as e:
            return c, [("exception", 1.0, "linop.Wavelet raised %r" % (e,))]
        ev.append(("advertised_shape", 0.0 if tuple(W.oshape) == spec_osh else 1.0, "Wavelet.oshape %s vs shape calculus %s" % (tuple(W.oshape), spec_osh)))
        for cplx in (False, True):
          try:
            x = rs.randn(*shape) + (1j * rs.randn(*shape) if cplx else 0)
            x0 = x.copy()
            y = sp.fwt(x, wave_name=c["wave"], axes=axes, level=level)
            ev.append(("coeff_shape", 0.0 if tuple(y.shape) == spec_osh else 1.0, "fwt(x).shape %s vs %s" % (tuple(y.shape), spec_osh)))
            if tuple(y.shape) != tuple(W.oshape):
                continue
            nx = np.linalg.norm(x)
            ev.append(("norm", abs(np.linalg.norm(y) - nx) / nx, "||fwt x|| vs ||x|| (%s)" % ("complex" if cplx else "real")))
            xr = W.H(y)
            ev.append(("reconstruct", np.linalg.norm(xr - x) / nx if tuple(xr.shape) == tuple(shape) else 1.0, "iwt(fwt x) vs x"))
            cc = rs.randn(*y.shape) + (1j * rs.randn(*y.shape) if cplx else 0)
            lhs = np.vdot(cc, W(x))
            rhs = np.vdot(W.H(cc), x)
            ev.append(("adjoint", abs(lhs - rhs) / max(abs(lhs), np.linalg.norm(cc) * nx * 1e-3), "<fwt x, c> vs <x, iwt c>"))
            ev.append(("purity", 0.0 if np.array_equal(x, x0) else 1.0, "fwt modified its input"))
            for lab, xv in core.layouts(x):
                xv0 = xv.copy()
                yv = sp.fwt(xv, wave_name=c["wave"], axes=axes, level=level)
                ev.append(("reconstruct", np.linalg.norm(yv - y) / max(np.linalg.norm(y), 1e-300) if yv.shape == y.shape else 1.0, "fwt of %s input vs the same values in C order" % lab))
                ev.append(("purity", 0.0 if np.array_equal(xv, xv0) else 1.0, "fwt modified its %s input" % lab))
                xb = sp.iwt(np.asfortranarray(y) if lab.startswith("F") else y, list(shape), W.coeff_slices if hasattr(W, "coeff_slices") else sp.wavelet.get_wavelet_shape(shape, c["wave"], axes, level)[1], wave_name=c["wave"], axes=axes, level=level)
                ev.append(("reconstruct", np.linalg.norm(xb - x) / nx if tuple(xb.shape) == tuple(shape) else 1.0, "iwt of %s coefficients vs x" % lab))
            if not cplx and np.iscomplexobj(y):
                ev.append(("dtype", 1.0, "real input gave complex coefficients"))
          except Exception as e:
            if not core.raised_in_code_under_test():
                raise
            ev.append(("exception", 1.0, "fwt / Wavelet / Wavelet.H raised %r on a shape-calculus state" % (e,)))
        ev.append(("adjoint_shapes", 0.0 if (list(W.H.ishape) == list(W.oshape) and list(W.H.oshape) == list(W.ishape)) else 1.0, "Wavelet.H shapes"))
        # data of very small and very large magnitude: every identity is homogeneous, nothing may underflow to a shortcut or overflow
        try:
            for scl, dt_ in ((1e-170, np.float64), (1e150, np.complex128), (1e-25, np.float32), (1e18, np.complex64)):
                xs_ = ((rs.randn(*shape) + (1j * rs.randn(*shape) if np.issubdtype(dt_, np.complexfloating) else 0)) * scl).astype(dt_)
                ys_ = sp.fwt(xs_, wave_name=c["wave"], axes=axes, level=level)
                xb_ = sp.iwt(ys_, list(shape), sp.wavelet.get_wavelet_shape(shape, c["wave"], axes, level)[1], wave_name=c["wave"], axes=axes, level=level) if tuple(ys_.shape) == spec_osh else None
                nxs = float(np.linalg.norm(xs_.astype(np.complex128) / scl))
                rel = 1.0 if xb_ is None or tuple(xb_.shape) != tuple(shape) else float(np.linalg.norm((xb_.astype(np.complex128) - xs_.astype(np.complex128)) / scl)) / max(nxs, 1e-300)
                ev.append(("reconstruct" if dt_ in (np.float64, np.complex128) else "reconstruct32", rel, "iwt(fwt x) vs x for data of magnitude %g (%s)" % (scl, np.dtype(dt_).name)))
        except Exception as e:
            ev.append(("exception", 1.0, "extreme magnitudes raised %r" % (e,)))
        # level / axes given as NumPy integers and lists
        try:
            xq = rs.randn(*shape)
            yq = sp.fwt(xq, wave_name=c["wave"], axes=axes, level=level)
            yq2 = sp.fwt(xq, wave_name=c["wave"], axes=None if axes is None else [np.int64(a_) for a_ in axes], level=None if level is None else np.int64(level))
            ev.append(("reconstruct", 0.0 if (yq.shape == yq2.shape and np.array_equal(yq, yq2)) else 1.0, "fwt with level / axes given as NumPy integers vs builtin ints"))
        except Exception as e:
            ev.append(("exception", 1.0, "fwt with NumPy-integer level / axes raised %r" % (e,)))
        # the adjoint taken from either side carries the same wavelet / axes / level: Wavelet.H.H, a directly built InverseWavelet
        # and its own adjoint must act like Wavelet.H resp. Wavelet
        if tuple(W.oshape) == spec_osh:
            try:
                V = sp.linop.InverseWavelet(shape, axes=axes, wave_name=c["wave"], level=level)
                x = rs.randn(*shape) + 1j * rs.randn(*shape)
                cc = rs.randn(*spec_osh) + 1j * rs.randn(*spec_osh)
                y = W(x)
                xr = W.H(cc)
                ny, nr = max(np.linalg.norm(y), 1e-300), max(np.linalg.norm(xr), 1e-300)
                ev.append(("adjoint", np.linalg.norm(W.H.H(x) - y) / ny, "Wavelet.H.H vs Wavelet"))
                ev.append(("adjoint", np.linalg.norm(V(cc) - xr) / nr if list(V.ishape) == list(spec_osh) else 1.0, "InverseWavelet(...) vs Wavelet.H"))
                ev.append(("adjoint", np.linalg.norm(V.H(x) - y) / ny, "InverseWavelet(...).H vs Wavelet"))
                ev.append(("adjoint", np.linalg.norm(V.H.H(cc) - xr) / nr, "InverseWavelet(...).H.H vs Wavelet.H"))
            except Exception as e:
                ev.append(("exception", 1.0, "InverseWavelet / double adjoint raised %r" % (e,)))
    return c, ev


def run(ctx):
    r = core.EngineResult("wavelet")
    wd = tlc.fresh_dir("wavelet_%s" % ctx.tier)
    wt = wavelet_table(ctx.thorough)
    if ctx.thorough:
        shapes = "{<<n>> : n \\in {1, 2, 3, 5, 8, 13, 16, 31}} \\cup {<<a, b>> : a \\in {1, 4, 7}, b \\in {2, 5, 8}} \\cup {<<2, 3, 4>>, <<5, 4, 6>>, <<8, 8, 3>>}"
    else:
        shapes = "{<<n>> : n \\in {1, 3, 8, 13}} \\cup {<<4, 5>>, <<7, 2>>, <<8, 8>>} \\cup {<<2, 3, 4>>, <<5, 4, 6>>}"
    body = "EXTENDS Wavelet\nMCW == {%s}\nMCShapes == %s\n" % (", ".join('<<"%s", %d>>' % w for w in wt), shapes)
    cfg = "INIT Init\nNEXT Next\nCONSTANTS\n Wavelets <- MCW\n Shapes <- MCShapes\n Levels = {0, 1, 2, 3}\nINVARIANT NotShorter\nINVARIANT HaarCritical\nINVARIANT StepBound\nINVARIANT LevelDefined\n"
    tlc.write_mc(wd, "MC_Wavelet", body, cfg)
    res = tlc.run_tlc(wd, "MC_Wavelet", dump=True, coverage=False, timeout=1800)
    r.add_tlc(res, "Wavelet")
    if res.violated:
        r.machinery_error = "Wavelet.tla: law %s fails on the shape calculus" % res.violated
        return r
    if r.machinery_error:
        return r
    jobs = [(st, ctx.seed * 131 + k) for k, st in enumerate(tlaval.read_dump(res.dump_path))]
    _sp()
    with mp.get_context("fork").Pool(16) as pool:
        results = pool.map(measure, jobs, chunksize=8)
    traces = []
    for k, (c, ev) in enumerate(results):
        traces.append({"id": "w%d" % k, "cfg": c, "ev": [{"cls": a, "val": fx(v)} for a, v, _ in ev], "notes": [n for _, _, n in ev]})
    b = {"advertised_shape": 0, "coeff_shape": 0, "norm": fx(1e-9), "reconstruct": fx(1e-9), "reconstruct32": fx(1e-4), "adjoint": fx(1e-9), "purity": 0, "dtype": 0, "adjoint_shapes": 0, "exception": 0}
    defs = "MCBounds == " + " @@ ".join('"%s" :> %d' % (k2, v) for k2, v in sorted(b.items())) + "\n"
    tres, rej = tracecheck.validate("AccuracyTrace", [{"id": t["id"], "ev": t["ev"]} for t in traces], wd, constants=["Bounds <- MCBounds"], invariants=(), defs=defs, timeout=600)
    r.add_tlc(tres, "AccuracyTrace")
    byid = {t["id"]: t for t in traces}
    for tid, line in rej.items():
        t = byid[tid]
        e = t["ev"][line - 1]
        c = t["cfg"]
        props = {"adjoint": ["C10", "C01"], "adjoint_shapes": ["C10", "C01"], "purity": ["C02", "C10"]}.get(e["cls"], ["C10"])
        r.violations.append(core.Violation(props, "wavelet", {"kind": e["cls"], "wave": c["wave"], "shape": list(c["shape"]), "axes": list(c["axes"]), "level": c["level"]},
                                           "%s: %.3g exceeds the bound (%s)" % (e["cls"], e["val"] / 1e9, t["notes"][line - 1]), {}))
    r.traces += len(traces)
    r.evaluations += sum(len(t["ev"]) for t in traces)
    r.nontrivial += sum(1 for t in traces if t["cfg"]["J"] >= 1)
    r.samples.append({"config": {k2: (list(v) if isinstance(v, tuple) else v) for k2, v in traces[len(traces) // 2]["cfg"].items()}, "spec_oshape": list(jobs[len(traces) // 2][0]["oshape"]),
                      "measurements": traces[len(traces) // 2]["ev"][:5]})
    r.notes.append("%d configurations (wavelet x shape x axes x level); shapes compared exactly, identities to 1e-9" % len(traces))
    r.count("C10", r.traces, r.evaluations, r.nontrivial)
    r.count("C01", r.traces, r.evaluations, r.nontrivial)
    return r
