"""Engine splitting (C15; beyond the listed properties: the update equations of
ADMM, AugmentedLagrangianMethod, AltMin, NewtonsMethod and GerchbergSaxton).

Five design specifications (ADMM, ALM, AltMin, Newton, GerchbergSaxton) give
exact rational trajectories of the remaining Alg subclasses, with ONE ACTION PER
SUB-STEP of `_update` (the classes own the order of the sub-steps, the dual
updates, the backtracking loop, the counter and the stopping rule).  TLC checks
the fixed-point / Lyapunov / termination properties on every instance; every
dumped state is replayed on the real class: the state seen on entry of every
caller closure and after every update must be the model's state, the number of
updates must be the model's, an early stop must be a genuine fixed point.

Attribution: the counter / max_iter / early-stop / held-solution clauses are
C15.  A disagreement of the iterate values themselves is reported under C15
only where the class's own code computes them (dual updates of ADMM and ALM,
Newton's step and line search, GerchbergSaxton's update): a wrong iterate there
means `update()` does not perform the documented update, and the driver loop
`while not done(): update()` returns something else than the solution the
algorithm is documented to hold.
"""
from fractions import Fraction as Fr

import numpy as np

from .. import core, tlaval, tlc

TOL = 1e-9


def fixed_rng(salt):
    """The exact instance families do not vary with VERIF_SEED: every instance must keep TLC's 32-bit rationals from
    overflowing (an overflow is a machinery failure), which is established once per tier for these fixed sets."""
    import random

    return random.Random("splitting/" + salt)


def rat(v):
    v = Fr(v)
    return "<<%d, %d>>" % (v.numerator, v.denominator)


def vec(vs):
    return "<<" + ", ".join(rat(v) for v in vs) + ">>"


def fr(t):
    return Fr(t[0], t[1])


def fl(seq):
    return np.array([float(fr(t)) for t in seq], dtype=np.float64)


def close(a, b, scale=1.0):
    a = np.asarray(a, dtype=np.complex128).ravel()
    b = np.asarray(b, dtype=np.complex128).ravel()
    return a.shape == b.shape and bool(np.all(np.abs(a - b) <= TOL * max(1.0, scale, float(np.max(np.abs(b))) if b.size else 1.0)))


# ------------------------------------------------------------------ instances
def admm_instances(ctx):
    """Two families: dyadic parameters (denominators stay powers of two: long exact runs fit TLC's 32-bit integers)
    and general parameters (a = 2, rho in {1/2, 2}, b = -2), explored for one update."""
    rng = fixed_rng("admm")
    out = []
    k = 0
    n_inst = 120 if ctx.thorough else 36
    while len(out) < n_inst:
        k += 1
        n = rng.choice([1, 2])
        g = ["zero", "l1", "sq", "box"][k % 4]
        dyadic = k % 3 != 0
        inst = {
            "id": len(out) + 1,
            "cap": 3 if dyadic else 1,
            "q": [Fr(rng.choice([1, 3])) for _ in range(n)] if dyadic else [rng.choice([Fr(1), Fr(2), Fr(1, 2)]) for _ in range(n)],
            "p": [Fr(rng.choice([-2, -1, 1, 2, 3])) for _ in range(n)],
            "c": [Fr(rng.choice([0, 0, 1, -1])) for _ in range(n)],
            "a": Fr(rng.choice([1, -1])) if dyadic else Fr(rng.choice([1, 2, -1])),
            "b": Fr(rng.choice([-1, -1, 1])) if dyadic else Fr(rng.choice([-1, 1, -2])),
            "rho": Fr(1) if dyadic else rng.choice([Fr(1, 2), Fr(2)]),
            "lam": Fr(rng.choice([1, 3])) if dyadic else rng.choice([Fr(1), Fr(1, 2), Fr(3)]),
            "lo": Fr(-1, 2),
            "hi": Fr(1),
            "g": g,
            "start": ["zero", "given", "star"][(k // 4) % 3],
        }
        if inst["start"] == "given":
            inst["x0"] = [Fr(rng.choice([-1, 0, 2])) for _ in range(n)]
            inst["z0"] = [Fr(rng.choice([-1, 0, 1])) for _ in range(n)]
            inst["u0"] = [Fr(rng.choice([-1, 0, 1])) for _ in range(n)]
        else:
            inst["x0"] = inst["z0"] = inst["u0"] = [Fr(0)] * n
        out.append(inst)
    return out


def admm_tla(i):
    return ("[id |-> %d, cap |-> %d, q |-> %s, p |-> %s, c |-> %s, a |-> %s, b |-> %s, rho |-> %s, lam |-> %s, lo |-> %s, hi |-> %s, g |-> \"%s\", start |-> \"%s\", x0 |-> %s, z0 |-> %s, u0 |-> %s]"
            % (i["id"], i["cap"], vec(i["q"]), vec(i["p"]), vec(i["c"]), rat(i["a"]), rat(i["b"]), rat(i["rho"]), rat(i["lam"]), rat(i["lo"]), rat(i["hi"]), i["g"], i["start"],
               vec(i["x0"]), vec(i["z0"]), vec(i["u0"])))


def alm_instances(ctx):
    rng = fixed_rng("alm")
    out = []
    n_inst = 90 if ctx.thorough else 30
    for k in range(n_inst):
        kind = ["ineq", "eq", "both"][k % 3]
        n = {"ineq": rng.choice([1, 2]), "eq": 2, "both": 1}[kind]
        ub = [Fr(rng.choice([0, 1, 2])) for _ in range(n)]
        inst = {
            "id": k + 1,
            "cap": 3 if k % 2 == 0 else 1,
            "kind": kind,
            "q": [Fr(rng.choice([1, 3])) for _ in range(n)] if k % 2 == 0 else [rng.choice([Fr(1), Fr(2), Fr(1, 2)]) for _ in range(n)],
            "p": [Fr(rng.choice([-1, 1, 2, 3])) for _ in range(n)],
            "ub": ub,
            "c": Fr(rng.choice([-1, 0, 1])),
            "mu": Fr(1) if k % 2 == 0 else rng.choice([Fr(2), Fr(1, 2)]),
            "x0": [Fr(rng.choice([0, 1])) for _ in range(n)],
            "u0": [Fr(rng.choice([0, 0, 1])) for _ in range(n)],
            "v0": Fr(rng.choice([0, 0, -1, 1])),
        }
        if kind == "both":
            inst["c"] = ub[0] - rng.choice([1, 2])      # strictly feasible equality target: unique multipliers
        out.append(inst)
    return out


def alm_tla(i):
    return ("[id |-> %d, cap |-> %d, kind |-> \"%s\", q |-> %s, p |-> %s, ub |-> %s, c |-> %s, mu |-> %s, x0 |-> %s, u0 |-> %s, v0 |-> %s]"
            % (i["id"], i["cap"], i["kind"], vec(i["q"]), vec(i["p"]), vec(i["ub"]), rat(i["c"]), rat(i["mu"]), vec(i["x0"]), vec(i["u0"]), rat(i["v0"])))


def newton_instances(ctx):
    rng = fixed_rng("newton")
    out = []
    n_inst = 90 if ctx.thorough else 30
    for k in range(n_inst):
        n = rng.choice([1, 2])
        beta = [Fr(1), Fr(1, 2), Fr(1, 3)][k % 3]
        if beta == 1:
            s = rng.choice([Fr(1), Fr(2), Fr(3, 4), Fr(-1), Fr(1, 3)])
        else:
            # never a power of beta: there the Armijo test is an exact tie, which floating point may break either way
            s = rng.choice([Fr(3, 4), Fr(3, 8), Fr(1, 5), Fr(2), Fr(-1), Fr(3, 2)] if beta == Fr(1, 2) else [Fr(1, 2), Fr(1, 4), Fr(2, 9), Fr(2), Fr(-1)])
        p = [Fr(rng.choice([-1, 1, 2])) for _ in range(n)]
        x0 = [Fr(rng.choice([-2, 0, 3])) for _ in range(n)]
        if k % 7 == 3:
            x0 = list(p)        # starts at the minimiser: the early stop of tol = 0
        out.append({"id": k + 1, "cap": 3 if beta != Fr(1, 3) else 2, "q": [rng.choice([Fr(1), Fr(2), Fr(1, 2)]) for _ in range(n)], "p": p, "x0": x0, "s": s, "beta": beta})
    return out


def newton_tla(i):
    return "[id |-> %d, cap |-> %d, q |-> %s, p |-> %s, x0 |-> %s, s |-> %s, beta |-> %s]" % (i["id"], i["cap"], vec(i["q"]), vec(i["p"]), vec(i["x0"]), rat(i["s"]), rat(i["beta"]))


def altmin_instances(ctx):
    rng = fixed_rng("altmin")
    out = []
    for k in range(40 if ctx.thorough else 16):
        out.append({"id": k + 1, "cap": 3, "q1": rng.choice([Fr(1), Fr(2), Fr(1, 2)]), "p1": Fr(rng.choice([-1, 1, 2])), "q2": rng.choice([Fr(1), Fr(3), Fr(1, 2)]),
                    "p2": Fr(rng.choice([-2, 0, 1])), "a0": Fr(rng.choice([0, 1, -3])), "b0": Fr(rng.choice([0, 2]))})
    return out


def altmin_tla(i):
    return "[id |-> %d, cap |-> %d, q1 |-> %s, p1 |-> %s, q2 |-> %s, p2 |-> %s, a0 |-> %s, b0 |-> %s]" % (i["id"], i["cap"], rat(i["q1"]), rat(i["p1"]), rat(i["q2"]), rat(i["p2"]), rat(i["a0"]), rat(i["b0"]))


def gs_instances(ctx):
    rng = fixed_rng("gs")
    mats = [[[1]], [[2]], [[1, 0], [0, 1]], [[1, 1], [0, 1]], [[2, 1], [1, -1]], [[1], [2]], [[1, -1], [1, 1]], [[3, 1], [1, 2]]]
    out = []
    for k in range(60 if ctx.thorough else 24):
        A = mats[k % len(mats)]
        m, n = len(A), len(A[0])
        x0 = [Fr(rng.choice([-2, -1, 0, 1, 3])) for _ in range(n)]
        if k % 5 == 1:
            # consistent data: y = |A xt| for an integer xt; k % 10 == 1 also starts there (early stop of tol = 0)
            xt = [Fr(rng.choice([-2, 1, 3])) for _ in range(n)]
            y = [abs(sum(A[i][j] * xt[j] for j in range(n))) for i in range(m)]
            if k % 10 == 1:
                x0 = xt
        else:
            y = [Fr(rng.choice([0, 1, 2, 5])) for _ in range(m)]
        lamb = Fr(0) if k % 3 else rng.choice([Fr(1), Fr(1, 2)])
        out.append({"id": k + 1, "cap": 3, "A": A, "y": [Fr(v) for v in y], "x0": x0, "lamb": lamb})
    # an over-determined instance whose sign pattern keeps changing for three updates (found by search; for real data the
    # update depends on x only through the signs of A x, so transients are short)
    out.append({"id": len(out) + 1, "cap": 4, "A": [[-1, 0], [3, 1], [-1, -1]], "y": [Fr(5), Fr(5), Fr(1)], "x0": [Fr(0), Fr(0)], "lamb": Fr(0)})
    out.append({"id": len(out) + 1, "cap": 4, "A": [[-1, 0], [3, 1], [-1, -1]], "y": [Fr(5), Fr(5), Fr(1)], "x0": [Fr(0), Fr(0)], "lamb": Fr(1)})
    return out


def gs_tla(i):
    A = "<<" + ", ".join("<<" + ", ".join(str(v) for v in row) + ">>" for row in i["A"]) + ">>"
    return "[id |-> %d, cap |-> %d, A |-> %s, y |-> %s, x0 |-> %s, lamb |-> %s]" % (i["id"], i["cap"], A, vec(i["y"]), vec(i["x0"]), rat(i["lamb"]))


def pdhg_instances(ctx):
    """Dyadic steps (sigma = 1, tau = 1/a^2 or smaller), scalar or per-component; zero starts with l1 and small dual steps."""
    rng = fixed_rng("pdhg")
    out = []
    n_inst = 150 if ctx.thorough else 48
    for k in range(n_inst):
        n = rng.choice([1, 2])
        g = ["zero", "l1", "sq", "box"][k % 4]
        a = [Fr(rng.choice([1, 2, -1] if g == "zero" else [1, 2, -1, 0])) for _ in range(n)]
        arr = k % 3 == 0                     # array-valued steps
        small = k % 5 == 2                   # small dual steps (1 + sigma = 5/4: non-dyadic, two exact updates fit 32-bit rationals)
        sig = ([rng.choice([Fr(1), Fr(1, 4)]) for _ in range(n)] if arr else [Fr(1, 4)] * n) if small else [Fr(1)] * n
        amax2 = max([v * v for v in a] + [Fr(1)])
        tau = [(Fr(1) / (sig[i] * max(a[i] * a[i], Fr(1)))) * rng.choice([1, Fr(1, 2)]) for i in range(n)] if arr else [Fr(1) / (sig[0] * amax2) * rng.choice([1, Fr(1, 2)])] * n
        tau = [min(t, Fr(4)) for t in tau]
        start = ["zero", "given", "saddle"][(k // 4) % 3]
        fam = "tv" if k % 4 == 1 and k % 8 == 1 or k % 7 == 3 else "ls"
        if fam == "tv":
            a = [v if v != 0 else Fr(1) for v in a]
        theta = [Fr(1), Fr(1), Fr(0), Fr(1, 2)][(k // 2) % 4] if not small else Fr(1)
        inst = {"id": k + 1, "fam": fam, "theta": theta, "cap": 2 if small else 3, "a": a, "y": [Fr(rng.choice([-3, -1, 1, 2, 4])) for _ in range(n)], "g": g,
                "lam": Fr(rng.choice([1, 3])) if g != "sq" else rng.choice([Fr(1), Fr(3)]), "lo": Fr(-1, 2), "hi": Fr(1), "tau": tau, "sigma": sig, "start": start, "arr": arr}
        if start == "given":
            inst["x0"] = [Fr(rng.choice([-1, 0, 2])) for _ in range(n)]
            inst["u0"] = [Fr(rng.choice([-1, 0, 1])) for _ in range(n)]
        else:
            inst["x0"] = inst["u0"] = [Fr(0)] * n
        out.append(inst)
    # curated instances of the early-stop clause: from a zero start one block of the state does not move while the other does
    #  - tv family: the clipping dual prox keeps u = 0 while the primal moves (every theta, in particular theta = 0)
    #  - ls family with l1: the soft threshold keeps x = 0 while the dual moves
    for th in (Fr(0), Fr(1, 2), Fr(1)):
        for fam, g, a_, y_, lam_, tau_ in (("tv", "zero", [Fr(1)], [Fr(2)], Fr(1), Fr(1, 2)), ("tv", "zero", [Fr(1), Fr(-1)], [Fr(2), Fr(-3)], Fr(3), Fr(1)),
                                          ("ls", "l1", [Fr(1)], [Fr(1)], Fr(3), Fr(1, 2)), ("ls", "l1", [Fr(-1), Fr(1)], [Fr(1), Fr(-1)], Fr(3), Fr(1, 2))):
            nn_ = len(a_)
            out.append({"id": len(out) + 1, "fam": fam, "theta": th, "cap": 3, "a": a_, "y": y_, "g": g, "lam": lam_, "lo": Fr(-1, 2), "hi": Fr(1),
                        "tau": [tau_] * nn_, "sigma": [Fr(1)] * nn_, "start": "zero", "arr": False, "x0": [Fr(0)] * nn_, "u0": [Fr(0)] * nn_})
    # con family: the problem L2ConstrainedMinimization hands to the solver, one interval per component
    nb = len(out)
    for k in range(60 if ctx.thorough else 24):
        n = 1 if k % 3 else 2
        g = ["l1", "sq"][k % 2]
        a = [Fr(rng.choice([1, 2, -1])) for _ in range(n)]
        eps = [Fr(1, 2), Fr(1)][(k // 2) % 2]
        y = [Fr(v) for v in (rng.choice([v for v in (-3, -1, 0, 2, 4) if abs(v) != eps]) for _ in range(n))]
        sig = [Fr(1)] * n
        tau = [Fr(1) / max(v * v for v in a) * [1, Fr(1, 2)][(k // 4) % 2]] * n
        start = ["zero", "given", "saddle"][(k // 3) % 3]
        inst = {"id": nb + k + 1, "fam": "con", "theta": [Fr(1), Fr(1), Fr(0), Fr(1, 2)][(k // 5) % 4], "cap": 3, "a": a, "y": y, "g": g, "lam": Fr(rng.choice([1, 3])), "lo": Fr(-1, 2), "hi": Fr(1),
                "eps": eps, "tau": tau, "sigma": sig, "start": start, "arr": False,
                "x0": [Fr(rng.choice([-1, 0, 2])) for _ in range(n)] if start == "given" else [Fr(0)] * n, "u0": [Fr(0)] * n}
        out.append(inst)
    for i_ in out:
        i_.setdefault("eps", Fr(1))
    return out


def pdhg_tla(i):
    return ("[id |-> %d, fam |-> \"%s\", theta |-> %s, cap |-> %d, a |-> %s, y |-> %s, g |-> \"%s\", lam |-> %s, lo |-> %s, hi |-> %s, eps |-> %s, tau |-> %s, sigma |-> %s, x0 |-> %s, u0 |-> %s, start |-> \"%s\"]"
            % (i["id"], i["fam"], rat(i["theta"]), i["cap"], vec(i["a"]), vec(i["y"]), i["g"], rat(i["lam"]), rat(i["lo"]), rat(i["hi"]), rat(i["eps"]), vec(i["tau"]), vec(i["sigma"]), vec(i["x0"]), vec(i["u0"]), i["start"]))


# ------------------------------------------------------------------ TLC
def model(r, wd, module, insts, to_tla, max_iters, invariants, props, label):
    body = "EXTENDS %s\nMCInsts == {%s}\n" % (module, ",\n  ".join(to_tla(i) for i in insts))
    cfg = "SPECIFICATION Spec\nCONSTANTS\n Insts <- MCInsts\n MaxIters = {%s}\n" % ", ".join(str(m) for m in max_iters)
    cfg += "".join("INVARIANT %s\n" % i for i in invariants) + "".join("PROPERTY %s\n" % p for p in props)
    tlc.write_mc(wd, "MC_" + module, body, cfg)
    res = tlc.run_tlc(wd, "MC_" + module, dump=True, coverage=False, timeout=900)
    r.add_tlc(res, label)
    if res.violated:
        r.machinery_error = "%s.tla violates %s on the unchanged design" % (module, res.violated)
        return None
    if res.error:
        return None
    states = list(tlaval.read_dump(res.dump_path))
    acts = {}
    for st in states:
        key = st.get("pc", "update")
        acts[key] = acts.get(key, 0) + 1
    for k, v in acts.items():
        r.actions["%s:states_at_%s" % (label, k)] = [v, v]
    return states


def by_run(states):
    d = {}
    for st in states:
        d.setdefault((st["inst"]["id"], st["max_iter"]), []).append(st)
    return d


def viol(r, kind, alg, inst, detail, props=None):
    # the clauses of C15 are its own; everything else is conformance to the specification beyond the listed properties
    if props is None:
        props = ("C15",) if kind in ("counter", "updates", "early_stop", "held_solution") else ("SPEC",)
    r.violations.append(core.Violation(list(props), "splitting", {"kind": kind, "alg": alg, "inst": {k: (str(v) if not isinstance(v, (int, str, list)) else ([str(x) for x in v] if isinstance(v, list) else v)) for k, v in inst.items()}},
                                       "%s %s: %s" % (alg, kind, detail), {}))


# ------------------------------------------------------------------ replays
def replay_admm(sp, r, insts, states):
    byid = {i["id"]: i for i in insts}
    n = 0
    for (iid, max_iter), sts in by_run(states).items():
        inst = byid[iid]
        want = {(s["iter"], s["pc"]): s for s in sts}
        s0 = want[(0, "x")]
        x, z, u = fl(s0["x"]), fl(s0["z"]), fl(s0["u"])
        u_caller = u
        q, p, c = (np.array([float(v) for v in inst[k]]) for k in ("q", "p", "c"))
        a, b, rho, lam, lo, hi = (float(inst[k]) for k in ("a", "b", "rho", "lam", "lo", "hi"))
        seen = []
        box = {}

        def proxg(t, w):
            if inst["g"] == "zero":
                return w
            if inst["g"] == "l1":
                return np.sign(w) * np.maximum(np.abs(w) - t * lam, 0)
            if inst["g"] == "sq":
                return w / (1 + t * lam)
            return np.clip(w, lo, hi)

        def minL_x():
            alg = box["alg"]
            seen.append((alg.iter, "x", alg.x.copy(), alg.z.copy(), alg.u.copy()))
            alg.x[:] = (q * p - rho * a * (b * alg.z - c + alg.u)) / (q + rho * a * a)

        def minL_z():
            alg = box["alg"]
            seen.append((alg.iter, "z", alg.x.copy(), alg.z.copy(), alg.u.copy()))
            alg.z[:] = proxg(1.0 / (rho * b * b), (c - a * alg.x - alg.u) / b)

        def Aop(v):
            alg = box["alg"]
            seen.append((alg.iter, "u", alg.x.copy(), alg.z.copy(), alg.u.copy()))
            return a * v

        alg = sp.alg.ADMM(minL_x, minL_z, x, z, u, Aop, lambda v: b * v, c, max_iter=max_iter)
        box["alg"] = alg
        nup = 0
        while not alg.done():
            it0 = alg.iter
            alg.update()
            nup += 1
            if alg.iter != it0 + 1:
                viol(r, "counter", "ADMM", inst, "update() moved iter from %d to %d" % (it0, alg.iter))
            if nup > max_iter + 2:
                break
        seen.append((alg.iter, "x", np.array(alg.x), np.array(alg.z), np.array(alg.u)))
        if nup != max_iter:
            viol(r, "updates", "ADMM", inst, "%d updates performed, max_iter = %d" % (nup, max_iter))
        order = [s[1] for s in seen[:-1]]
        if order != ["x", "z", "u"] * nup:
            viol(r, "substep_order", "ADMM", inst, "sub-steps ran as %s" % order[:9])
        for (it, pc, xs, zs, us) in seen:
            m = want.get((it, pc))
            if m is None:
                continue
            n += 1
            if not (close(xs, fl(m["x"])) and close(zs, fl(m["z"])) and close(us, fl(m["u"]))):
                viol(r, "state", "ADMM", inst, "at iter %d before sub-step %s: (x, z, u) = (%s, %s, %s), model (%s, %s, %s)" % (it, pc, xs, zs, us, fl(m["x"]), fl(m["z"]), fl(m["u"])))
                break
        if max_iter > 0 and not np.shares_memory(alg.u, u_caller) :
            pass  # u is rebound by `self.u += ...` only for non-array u; arrays are updated in place
    return n


def replay_alm(sp, r, insts, states):
    byid = {i["id"]: i for i in insts}
    n = 0
    for (iid, max_iter), sts in by_run(states).items():
        inst = byid[iid]
        want = {(s["iter"], s["pc"]): s for s in sts}
        s0 = want[(0, "minL")]
        x, u = fl(s0["x"]), fl(s0["u"])
        v = np.array([float(fr(s0["v"]))])
        q, p, ub = (np.array([float(t) for t in inst[k]]) for k in ("q", "p", "ub"))
        c, mu = float(inst["c"]), float(inst["mu"])
        kind = inst["kind"]
        seen = []
        box = {}

        def minL():
            alg = box["alg"]
            seen.append((alg.iter, "minL", alg.x.copy(), alg.u.copy(), alg.v.copy()))
            if kind == "ineq":
                act = p - ub + alg.u / mu > 0
                alg.x[:] = np.where(act, (q * p + mu * ub - alg.u) / (q + mu), p)
            elif kind == "eq":
                M = np.diag(q) + mu * np.ones((len(q), len(q)))
                alg.x[:] = np.linalg.solve(M, q * p + (mu * c - alg.v[0]))
            else:
                xin = (q * p + mu * c - alg.v) / (q + mu)
                xac = (q * p + mu * ub - alg.u + mu * c - alg.v) / (q + 2 * mu)
                alg.x[:] = np.where(xin - ub + alg.u / mu <= 0, xin, xac)

        def g(xx):
            alg = box["alg"]
            seen.append((alg.iter, "dual", alg.x.copy(), alg.u.copy(), alg.v.copy()))
            return xx - ub

        def h(xx):
            alg = box["alg"]
            if kind == "eq":
                seen.append((alg.iter, "dual", alg.x.copy(), alg.u.copy(), alg.v.copy()))
            return np.array([np.sum(xx) - c])

        alg = sp.alg.AugmentedLagrangianMethod(minL, g if kind in ("ineq", "both") else None, h if kind in ("eq", "both") else None, x, u, v, mu, max_iter=max_iter)
        box["alg"] = alg
        nup = 0
        while not alg.done():
            it0 = alg.iter
            alg.update()
            nup += 1
            if alg.iter != it0 + 1:
                viol(r, "counter", "AugmentedLagrangianMethod", inst, "update() moved iter from %d to %d" % (it0, alg.iter))
            if nup > max_iter + 2:
                break
        seen.append((alg.iter, "minL", np.array(alg.x), np.array(alg.u), np.array(alg.v)))
        if nup != max_iter:
            viol(r, "updates", "AugmentedLagrangianMethod", inst, "%d updates performed, max_iter = %d" % (nup, max_iter))
        if [s[1] for s in seen[:-1]] != ["minL", "dual"] * nup:
            viol(r, "substep_order", "AugmentedLagrangianMethod", inst, "sub-steps ran as %s" % [s[1] for s in seen[:8]])
        for (it, pc, xs, us, vs) in seen:
            m = want.get((it, pc))
            if m is None:
                continue
            n += 1
            if not (close(xs, fl(m["x"])) and close(us, fl(m["u"])) and close(vs, [float(fr(m["v"]))])):
                viol(r, "state", "AugmentedLagrangianMethod", inst, "at iter %d before sub-step %s: (x, u, v) = (%s, %s, %s), model (%s, %s, %s)" % (it, pc, xs, us, vs, fl(m["x"]), fl(m["u"]), float(fr(m["v"]))))
                break
        if np.any(alg.u < 0):
            viol(r, "negative_multiplier", "AugmentedLagrangianMethod", inst, "u = %s" % alg.u)
    return n


def replay_newton(sp, r, insts, states):
    byid = {i["id"]: i for i in insts}
    n = 0
    for (iid, max_iter), sts in by_run(states).items():
        inst = byid[iid]
        boundary = {s["iter"]: s for s in sts if s["pc"] == "start"}
        raised_model = any(s["pc"] == "raised" for s in sts)
        last_iter = max(boundary)
        q, p = (np.array([float(t) for t in inst[k]]) for k in ("q", "p"))
        s_, beta = float(inst["s"]), float(inst["beta"])
        x = np.array([float(t) for t in inst["x0"]])
        x_caller = x
        nf = [0]

        def f(xx):
            nf[0] += 1
            return float(np.sum(q / 2 * (xx - p) ** 2))

        alg = sp.alg.NewtonsMethod(lambda xx: q * (xx - p), lambda xx: (lambda gg: gg / (s_ * q)), x, beta=beta, f=f if beta < 1 else None, max_iter=max_iter, tol=0)
        nup = 0
        raised = False
        while not alg.done():
            it0 = alg.iter
            try:
                alg.update()
            except ValueError:
                raised = True
                break
            nup += 1
            if alg.iter != it0 + 1:
                viol(r, "counter", "NewtonsMethod", inst, "update() moved iter from %d to %d" % (it0, alg.iter))
            m = boundary.get(alg.iter)
            if m is not None:
                n += 1
                if not close(alg.x, fl(m["x"])) or (beta < 1 and nf[0] != m["nf"]):
                    viol(r, "state", "NewtonsMethod", inst, "after %d updates x = %s with %d evaluations of f; model x = %s with %d (accepted step length %s)" % (alg.iter, alg.x, nf[0], fl(m["x"]), m["nf"], fr(m["alpha"])))
                    break
            if nup > max_iter + 2:
                break
        if raised != raised_model:
            viol(r, "raise", "NewtonsMethod", inst, "ValueError raised: %s, model: %s (s = %s)" % (raised, raised_model, inst["s"]))
        if not raised and not raised_model:
            if nup > max_iter:
                viol(r, "updates", "NewtonsMethod", inst, "%d updates performed, max_iter = %d" % (nup, max_iter))
            if nup < last_iter and not _fixed(alg, lambda: alg.x):
                viol(r, "early_stop", "NewtonsMethod", inst, "stopped after %d of %d updates although a further update moves x" % (nup, max_iter))
            if nup < max_iter and nup == last_iter and not _fixed(alg, lambda: alg.x):
                viol(r, "early_stop", "NewtonsMethod", inst, "stopped after %d of %d updates although a further update moves x" % (nup, max_iter))
            if alg.x is not x_caller:
                viol(r, "held_solution", "NewtonsMethod", inst, "the solution is no longer the caller's array")
    return n


def _fixed(alg, getx):
    before = np.array(getx(), dtype=np.complex128).copy()
    try:
        alg.update()
    except Exception:
        return True
    after = np.array(getx(), dtype=np.complex128)
    return bool(np.all(np.abs(after - before) <= 1e-9 * max(1.0, float(np.max(np.abs(before))) if before.size else 1.0)))


def replay_altmin(sp, r, insts, states):
    byid = {i["id"]: i for i in insts}
    n = 0
    for (iid, max_iter), sts in by_run(states).items():
        inst = byid[iid]
        want = {(s["iter"], s["pc"]): s for s in sts}
        q1, p1, q2, p2 = (float(inst[k]) for k in ("q1", "p1", "q2", "p2"))
        ab = np.array([float(inst["a0"]), float(inst["b0"])])
        seen = []
        box = {}

        def min1():
            seen.append((box["alg"].iter, "min1", ab.copy()))
            ab[0] = (ab[1] + q1 * p1) / (1 + q1)

        def min2():
            seen.append((box["alg"].iter, "min2", ab.copy()))
            ab[1] = (ab[0] + q2 * p2) / (1 + q2)

        alg = sp.alg.AltMin(min1, min2, max_iter=max_iter)
        box["alg"] = alg
        nup = 0
        while not alg.done():
            it0 = alg.iter
            alg.update()
            nup += 1
            if alg.iter != it0 + 1:
                viol(r, "counter", "AltMin", inst, "update() moved iter from %d to %d" % (it0, alg.iter))
            if nup > max_iter + 2:
                break
        seen.append((alg.iter, "min1", ab.copy()))
        if nup != max_iter:
            viol(r, "updates", "AltMin", inst, "%d updates performed, max_iter = %d" % (nup, max_iter))
        if [s[1] for s in seen[:-1]] != ["min1", "min2"] * nup:
            viol(r, "substep_order", "AltMin", inst, "sub-steps ran as %s" % [s[1] for s in seen[:8]])
        for (it, pc, v) in seen:
            m = want.get((it, pc))
            if m is None:
                continue
            n += 1
            if not close(v, [float(fr(m["a"])), float(fr(m["b"]))]):
                viol(r, "state", "AltMin", inst, "at iter %d before %s: (a, b) = %s, model (%s, %s)" % (it, pc, v, fr(m["a"]), fr(m["b"])))
                break
    return n


def replay_gs(sp, r, insts, states):
    byid = {i["id"]: i for i in insts}
    n = 0
    for (iid, max_iter), sts in by_run(states).items():
        inst = byid[iid]
        want = {s["iter"]: s for s in sts}
        last_iter = max(want)
        A = np.array(inst["A"], dtype=np.complex128)
        m_, n_ = A.shape
        y = np.array([[float(v)] for v in inst["y"]], dtype=np.complex128)
        x0 = np.array([[float(v)] for v in inst["x0"]], dtype=np.complex128)
        Aop = sp.linop.MatMul([n_, 1], A)
        alg = sp.alg.GerchbergSaxton(Aop, y, x0, max_iter=max_iter, tol=0, lamb=float(inst["lamb"]))
        nup = 0
        ok = True
        while not alg.done():
            it0 = alg.iter
            alg.update()
            nup += 1
            if alg.iter != it0 + 1:
                viol(r, "counter", "GerchbergSaxton", inst, "update() moved iter from %d to %d" % (it0, alg.iter))
            m = want.get(alg.iter)
            if m is not None and not m["amb"] and ok:
                n += 1
                res_model = float(fr(m["res"]))
                if not close(alg.x, fl(m["x"])) or abs(alg.residual - res_model) > 1e-8 * max(1.0, res_model):
                    viol(r, "state", "GerchbergSaxton", inst, "after %d updates x = %s residual %.6g; model x = %s residual %.6g" % (alg.iter, np.asarray(alg.x).ravel(), alg.residual, fl(m["x"]), res_model))
                    ok = False
            if nup > max_iter + 2:
                break
        if nup > max_iter:
            viol(r, "updates", "GerchbergSaxton", inst, "%d updates performed, max_iter = %d" % (nup, max_iter))
        if nup < max_iter and not _fixed(alg, lambda: alg.x):
            viol(r, "early_stop", "GerchbergSaxton", inst, "stopped after %d of %d updates although a further update moves x" % (nup, max_iter))
    return n


def replay_pdhg(sp, r, insts, states):
    byid = {i["id"]: i for i in insts}
    n = 0
    for (iid, max_iter), sts in by_run(states).items():
        inst = byid[iid]
        want = {s["iter"]: s for s in sts}
        last_iter = max(want)
        s0 = want[0]
        nn = len(inst["a"])
        a, y = (np.array([float(v) for v in inst[k]]) for k in ("a", "y"))
        tau = np.array([float(v) for v in inst["tau"]]) if inst["arr"] else float(inst["tau"][0])
        sig = np.array([float(v) for v in inst["sigma"]]) if inst["arr"] else float(inst["sigma"][0])
        lam, lo, hi = float(inst["lam"]), float(inst["lo"]), float(inst["hi"])
        x, u = fl(s0["x"]), fl(s0["u"])
        x_caller, u_caller = x, u
        if inst["g"] == "zero":
            pg = sp.prox.NoOp([nn])
        elif inst["g"] == "l1":
            pg = sp.prox.L1Reg([nn], lam)
        elif inst["g"] == "sq":
            pg = sp.prox.L2Reg([nn], lam)
        else:
            pg = sp.prox.BoxConstraint([nn], lo, hi)
        theta = float(inst["theta"])
        # operators that hand back their input array (a = 1: the identity) or one persistent output buffer are legitimate callers' choices
        abuf = {"A": np.zeros(nn), "AH": np.zeros(nn)}

        def mkop(tag):
            if np.all(a == 1) and inst["id"] % 2 == 0:
                return lambda v: v
            if inst["id"] % 3 == 0:
                def op(v, tag=tag):
                    abuf[tag][:] = a * v
                    return abuf[tag]
                return op
            return lambda v: a * v
        Aop, AHop = mkop("A"), mkop("AH")
        if inst["fam"] == "tv":
            alg = sp.alg.PrimalDualHybridGradient(sp.prox.Conj(sp.prox.L1Reg([nn], lam)), sp.prox.L2Reg([nn], 1, y=y), Aop, AHop, x, u, tau, sig,
                                                  theta=theta, max_iter=max_iter, tol=0)
        elif inst["fam"] == "con":
            eps = float(inst["eps"])
            ball = sp.prox.L2Proj([1], eps, y=y) if nn == 1 else sp.prox.Stack([sp.prox.L2Proj([1], eps, y=y[j:j + 1]) for j in range(nn)])
            alg = sp.alg.PrimalDualHybridGradient(sp.prox.Conj(ball), pg, Aop, AHop, x, u, tau, sig, theta=theta, max_iter=max_iter, tol=0)
            if nn == 1 and theta == 1.0 and max_iter >= 1:
                # the same problem through the application: it owns the dual variable (zeros) and builds Conj(L2Proj) itself
                xa = fl(s0["x"])
                try:
                    app = sp.app.L2ConstrainedMinimization(sp.linop.Multiply([1], a), y, pg, eps, x=xa, tau=tau, sigma=sig, max_iter=max_iter, show_pbar=False)
                    xr = app.run()
                except Exception as e:
                    if not core.raised_in_code_under_test():
                        raise
                    viol(r, "app_raises", "L2ConstrainedMinimization", inst, "L2ConstrainedMinimization(a=%s, y=%s, eps=%s) raised %r" % (a, y, eps, e))
                else:
                    mfin = want[min(last_iter, app.alg.iter)]
                    n += 1
                    if xr is not xa:
                        viol(r, "held_solution", "L2ConstrainedMinimization", inst, "run() does not return the caller's x array")
                    if core.allclose(fl(s0["u"]), 0) and not (app.alg.iter in want and close(xr, fl(mfin["x"])) and close(app.alg.u, fl(mfin["u"]))):
                        viol(r, "state", "L2ConstrainedMinimization", inst, "g=%s a=%s y=%s eps=%s tau=%s: run() stopped after %d updates at (x, u) = (%s, %s), model after as many updates (%s, %s)"
                             % (inst["g"], a, y, eps, tau, app.alg.iter, xr, app.alg.u, fl(mfin["x"]), fl(mfin["u"])))
        else:
            alg = sp.alg.PrimalDualHybridGradient(sp.prox.L2Reg([nn], 1, y=-y), pg, Aop, AHop, x, u, tau, sig, theta=theta, max_iter=max_iter, tol=0)
        key_args = "fam=%s theta=%s " % (inst["fam"], theta) + "g=%s a=%s y=%s tau=%s sigma=%s start=%s" % (inst["g"], a, y, tau, sig, inst["start"])
        nup = 0
        ok = True
        while not alg.done():
            it0 = alg.iter
            alg.update()
            nup += 1
            if alg.iter != it0 + 1:
                viol(r, "counter", "PrimalDualHybridGradient", inst, "update() moved iter from %d to %d" % (it0, alg.iter))
            m = want.get(alg.iter)
            if m is not None and ok:
                n += 1
                if not (close(alg.x, fl(m["x"])) and close(alg.u, fl(m["u"]))):
                    viol(r, "state", "PrimalDualHybridGradient", inst, "%s: after %d updates (x, u) = (%s, %s), model (%s, %s)" % (key_args, alg.iter, alg.x, alg.u, fl(m["x"]), fl(m["u"])))
                    ok = False
            if nup > max_iter + 2:
                break
        if nup > max_iter:
            viol(r, "updates", "PrimalDualHybridGradient", inst, "%d updates performed, max_iter = %d" % (nup, max_iter))
        if alg.x is not x_caller or alg.u is not u_caller:
            viol(r, "held_solution", "PrimalDualHybridGradient", inst, "the primal / dual variables are no longer the caller's arrays", props=("C15", "C13"))
        if nup < max_iter:
            # stopped early: a further update must leave the solution unchanged (C15)
            bx, bu = np.array(alg.x), np.array(alg.u)
            alg.update()
            if not (close(alg.x, bx) and close(alg.u, bu)):
                # (C13 as well: driven by its own done() the method does not reach the minimiser)
                viol(r, "early_stop", "PrimalDualHybridGradient", inst, "%s: stopped after %d of %d updates, a further update moves (x, u) from (%s, %s) to (%s, %s)" % (key_args, nup, max_iter, bx, bu, alg.x, alg.u), props=("C15", "C13"))
        if inst["start"] == "saddle" and max_iter >= 1 and ok:
            m = want[0]
            if not (close(x_caller, fl(m["x"])) and close(u_caller, fl(m["u"]))):
                viol(r, "saddle_moved", "PrimalDualHybridGradient", inst, "%s: started at the saddle point (%s, %s) and moved to (%s, %s)" % (key_args, fl(m["x"]), fl(m["u"]), x_caller, u_caller), props=("C13",))
    return n


def run(ctx):
    core.use_repo()
    import sigpy as sp

    r = core.EngineResult("splitting")
    wd = tlc.fresh_dir("splitting_%s" % ctx.tier)
    mi = [0, 1, 3] if not ctx.thorough else [0, 1, 2, 3]
    total = 0
    jobs = [
        ("ADMM", admm_instances, admm_tla, mi, ["FixedPointIsSolution", "SolutionIsFixed", "LyapunovNonIncreasing"], ["DualIsResidualSum", "CounterByOne", "CounterOnlyOnDual", "Terminates"], replay_admm),
        ("ALM", alm_instances, alm_tla, mi, ["MultipliersNonNegative", "FixedPointIsKKT", "KKTIsFixed", "DualDistanceNonIncreasing", "UnusedMultipliersUntouched"], ["CounterOnlyOnDual", "Terminates"], replay_alm),
        ("AltMin", altmin_instances, altmin_tla, mi, ["FixedPointIsMinimiser", "MinimiserIsFixed"], ["ObjectiveNonIncreasing", "Contraction", "CounterOnlyOnMin2", "Terminates"], replay_altmin),
        ("Newton", newton_instances, newton_tla, [0, 1, 2, 3], ["EarlyStopIsStationary", "ExactStepSolves", "RaisedOnlyOnAscent"], ["SearchEnds", "Terminates", "ArmijoOnAccept", "Descent", "AcceptedStepLength", "CounterOnlyOnAccept"], replay_newton),
        ("PDHG", pdhg_instances, pdhg_tla, [0, 1, 2, 3, 4], ["SaddleIsFixed", "FeasibleSaddle", "EarlyStopIsSaddle", "EarlyStopIsFixed"], ["FejerMonotone", "CounterByOne", "Terminates"], replay_pdhg),
        ("GerchbergSaxton", gs_instances, gs_tla, [0, 1, 3, 4], ["EarlyStopIsFixedPoint", "ResidualIsOfHeldX"], ["ErrorReduction", "CounterByOne", "Terminates"], replay_gs),
    ]
    for module, gen, to_tla, mis, invs, props, rep in jobs:
        insts = gen(ctx)
        states = model(r, wd, module, insts, to_tla, mis, invs, props, module)
        if states is None:
            if not r.machinery_error:
                r.machinery_error = "TLC failed on %s" % module
            return r
        k = rep(sp, r, insts, states)
        total += k
        if module == "Newton":
            r.notes.append("Newton model: %d states inside the line search, %d with at least one backtrack, %d raising runs, %d early stops at the minimiser"
                           % (sum(1 for s in states if s["pc"] == "search"), sum(1 for s in states if s["nbt"] > 0), sum(1 for s in states if s["pc"] == "raised"),
                              len({(s["inst"]["id"], s["max_iter"]) for s in states if s["pc"] == "start" and not s["fresh"] and s["lam2"][0] == 0 and s["iter"] < s["max_iter"]})))
        if module == "PDHG":
            r.count("C13", k, k, k)
            r.notes.append("PDHG model: %d runs stop early (nothing moved), %d runs start at the saddle point, %d states with x = 0 held by the l1 prox while the dual moves"
                           % (len({(s["inst"]["id"], s["max_iter"]) for s in states if not s["moved"] and s["iter"] < s["max_iter"]}),
                              len({s["inst"]["id"] for s in states if s["inst"]["start"] == "saddle"}),
                              sum(1 for s in states if s["iter"] >= 1 and s["moved"] and s["x"] == s["xprev"])))
        if module == "GerchbergSaxton":
            r.notes.append("GerchbergSaxton model: %d early stops at exact consistency, %d states after an ambiguous sign, longest transient %d updates"
                           % (len({(s["inst"]["id"], s["max_iter"]) for s in states if not s["fresh"] and s["res"][0] == 0 and s["iter"] < s["max_iter"]}), sum(1 for s in states if s["amb"]),
                              max(s["iter"] for s in states)))
        r.notes.append("%s: %d instances x max_iter in %s, %d model states, %d replayed on sigpy.alg.%s" % (module, len(insts), mis, len(states), k, {"ALM": "AugmentedLagrangianMethod", "Newton": "NewtonsMethod", "PDHG": "PrimalDualHybridGradient"}.get(module, module)))
    r.traces += total
    r.evaluations += total
    r.nontrivial += total
    r.samples.append({"modules": [j[0] for j in jobs], "states_replayed": total})
    r.count("C15", total, total, total)
    return r
