"""Engine cg (C12; Done rule for C15).

Exact tier: TLC explores CG.tla over all small symmetric integer systems
(n = 1, 2; PD and indefinite), right-hand sides, initial guesses, diagonal
preconditioners and budgets, checking Krylov optimality, A-norm monotonicity,
true residual, exactness at n and breakdown behaviour on the model; every
dumped state is replayed on the real ConjugateGradient (A as function and as
Linop) comparing x, r, resid, flags and array identity after exactly `iter`
updates.  Large tier: seeded random real / complex systems of dimension 3..12
are stepped on the real solver and validated as traces against CGTrace.tla.
"""
import itertools
from fractions import Fraction

import numpy as np

from .. import core, tlaval, tlc, tracecheck

INVS = ["IterateIsKrylovOpt", "ResidualIsTrue", "ExactAtN", "BreakdownStops", "NoFalseBreakdown"]
PROPS = ["ErrANonIncreasing", "CounterByOne"]


def mc_text(ctx):
    vals = [-1, 0, 1, 2]
    mats = ["<<<<%d>>>>" % a for a in vals]
    for a, b_, c in itertools.product(vals, repeat=3):
        mats.append("<<<<%d, %d>>, <<%d, %d>>>>" % (a, b_, b_, c))
    v = [-1, 0, 2]
    vec1 = ", ".join("<<%d>>" % a for a in v)
    vec2 = ", ".join("<<%d, %d>>" % (a, b_) for a in v for b_ in v)
    body = "EXTENDS CG\nMCMats == {%s}\n" % ", ".join(m.replace("-1", "(-1)") for m in mats)
    body += "MCVecs(n) == IF n = 1 THEN {%s} ELSE {%s}\n" % (vec1.replace("-1", "(-1)"), vec2.replace("-1", "(-1)"))
    body += "MCPrecs(n) == IF n = 1 THEN {<<>>, <<2>>} ELSE {<<>>, <<1, 2>>, <<2, 1>>}\n"
    body += "MCMaxIters == 1..%d\n" % (4 if ctx.thorough else 3)
    cfg = ("INIT Init\nNEXT Next\nCONSTANTS\n Mats <- MCMats\n Vecs <- MCVecs\n Precs <- MCPrecs\n MaxIters <- MCMaxIters\n TolSq <- MCTol\n"
           + "".join("INVARIANT %s\n" % i for i in INVS) + "".join("PROPERTY %s\n" % p for p in PROPS))
    body += "MCTol == RInt(0)\n"
    if not ctx.thorough:
        # quick: two initial guesses
        body = body.replace("MCVecs(n) ==", "MCVecsAll(n) ==")
        body += "MCVecs(n) == MCVecsAll(n)\n"
    return body, cfg


def fr(q):
    return Fraction(q[0], q[1])


def fvec(v):
    return np.array([float(fr(q)) for q in v])


def replay_state(sp, st, variant):
    """Run the real solver for st['iter'] updates; return list of (kind, detail)."""
    A = np.array(st["A"], dtype=np.float64)
    n = A.shape[0]
    b = np.array(st["b"], dtype=np.float64)
    x_passed = np.array(st["x0"], dtype=np.float64)
    Pd = st["P"]
    Pf = None if len(Pd) == 0 else (lambda v, d=np.array(Pd, dtype=np.float64): d * v)
    is_identity = np.array_equal(A, np.eye(n))
    if is_identity and variant % 3 == 0:
        Aop = lambda v: v                       # an operator that hands back its input array (Identity does)
    elif is_identity and variant % 3 == 1:
        Il = sp.linop.Identity([n])
        Aop = lambda v: Il(v)
    elif variant % 4 == 2:
        obuf = np.zeros(n)

        def Aop(v):                             # an operator that writes into one persistent output buffer
            obuf[:] = A @ v
            return obuf
    elif variant % 2 == 0:
        Aop = lambda v: A @ v
    else:
        L = sp.linop.MatMul([n, 1], A)
        Aop = lambda v: L(v.reshape(n, 1)).reshape(n)
    b0 = b.copy()
    alg = sp.alg.ConjugateGradient(Aop, b, x_passed, P=Pf, max_iter=st["max_iter"], tol=0)
    out = []
    for k in range(st["iter"]):
        if alg.done():
            out.append(("done_early", "real solver reports done() after %d updates, the model continues to %d" % (k, st["iter"])))
            return out
        alg.update()
    tol = 1e-10
    ex, er = fvec(st["x"]), fvec(st["r"])
    sc = max(1.0, np.abs(ex).max())
    if alg.x is not x_passed:
        out.append(("not_in_place", "alg.x is no longer the array the caller passed"))
    if not core.allclose(alg.x, ex, atol=tol * sc, rtol=0):
        out.append(("iterate", "after %d updates x = %s, Krylov-optimal / model iterate %s" % (st["iter"], alg.x, ex)))
    if not core.allclose(alg.r, er, atol=tol * max(1.0, np.abs(er).max()), rtol=0):
        out.append(("residual", "after %d updates tracked r = %s, model %s" % (st["iter"], alg.r, er)))
    rz = float(fr(st["rzold"]))
    if abs(alg.resid ** 2 - rz) > tol * max(1.0, abs(rz)):
        out.append(("resid", "resid^2 = %g, model <r,z> = %g" % (alg.resid ** 2, rz)))
    if bool(alg.not_positive_definite) != bool(st["npd"]):
        out.append(("breakdown_flag", "not_positive_definite = %s, model %s" % (alg.not_positive_definite, st["npd"])))
    mdone = st["iter"] >= st["max_iter"] or st["npd"] or rz <= 0
    exact_convergence_only = rz <= 0 and st["iter"] < st["max_iter"] and not st["npd"]
    # (at exact convergence the float residual is ~1e-32, not 0: done() may legitimately still be False)
    if not exact_convergence_only and bool(alg.done()) != bool(mdone):
        out.append(("done", "done() = %s, model %s at iter %d" % (alg.done(), mdone, st["iter"])))
    if alg.iter != st["iter"]:
        out.append(("counter", "iter = %d after %d updates" % (alg.iter, st["iter"])))
    if not np.array_equal(b, b0):
        out.append(("rhs_mutated", "the right-hand side array was modified"))
    return out


def random_system(rs, n, cplx, cond):
    Q, _ = np.linalg.qr(rs.randn(n, n) + (1j * rs.randn(n, n) if cplx else 0))
    ev = np.exp(rs.uniform(0, np.log(cond), n))
    ev[0], ev[-1] = 1.0, cond
    A = (Q * ev) @ Q.conj().T
    A = np.round(A * 1024) / 1024          # dyadic entries: the exact-rational Krylov reference stays small
    A = (A + A.conj().T) / 2
    b = rs.randn(n) + (1j * rs.randn(n) if cplx else 0)
    x0 = rs.randn(n) + (1j * rs.randn(n) if cplx else 0) if rs.rand() < 0.5 else np.zeros(n, dtype=A.dtype)
    b = np.round(b * 64) / 64
    x0 = np.round(x0 * 64) / 64
    return A, b.astype(A.dtype), x0.astype(A.dtype)


def _embed_mat(M):
    M = np.asarray(M)
    re, im = np.real(M), np.imag(M)
    return np.block([[re, -im], [im, re]])


def _embed_vec(v):
    v = np.asarray(v)
    return np.concatenate([np.real(v), np.imag(v)])


def _fmat(M):
    return [[Fraction(float(x)) for x in row] for row in M]


def _solve_exact(G, rhs):
    """Least-norm-free exact solve of a symmetric PSD system by Gaussian elimination, skipping dependent columns."""
    m = len(G)
    M = [row[:] + [rhs[i]] for i, row in enumerate(G)]
    piv = []
    row = 0
    for col in range(m):
        pr = next((i for i in range(row, m) if M[i][col] != 0), None)
        if pr is None:
            continue
        M[row], M[pr] = M[pr], M[row]
        pv = M[row][col]
        M[row] = [x / pv for x in M[row]]
        for i in range(m):
            if i != row and M[i][col] != 0:
                f = M[i][col]
                M[i] = [a - f * b for a, b in zip(M[i], M[row])]
        piv.append(col)
        row += 1
        if row == m:
            break
    c = [Fraction(0)] * m
    for i, col in enumerate(piv):
        c[col] = M[i][m]
    return c


def krylov_opt_exact(A, Pm, b, x0, k):
    """Exact (rational) minimiser of the A-norm error over x0 + K_k(PA, P r0); complex handled by real embedding."""
    n = A.shape[0]
    AR = _fmat(_embed_mat(A))
    PR = _fmat(_embed_mat(Pm))
    bR = [Fraction(float(x)) for x in _embed_vec(b)]
    xR = [Fraction(float(x)) for x in _embed_vec(x0)]
    mv = lambda M, v: [sum(M[i][j] * v[j] for j in range(len(v)) if M[i][j] != 0) for i in range(len(M))]
    r0 = [bi - ai for bi, ai in zip(bR, mv(AR, xR))]
    w = mv(PR, r0)
    J = lambda v: [-x for x in v[n:]] + list(v[:n])          # multiplication by i
    cols = []
    cplx = np.iscomplexobj(A)
    for _ in range(k):
        cols.append(w)
        if cplx:
            cols.append(J(w))
        w = mv(PR, mv(AR, w))
    AB = [mv(AR, c) for c in cols]
    G = [[sum(x * y for x, y in zip(ci, abj)) for abj in AB] for ci in cols]
    rhs = [sum(x * y for x, y in zip(ci, r0)) for ci in cols]
    c = _solve_exact(G, rhs)
    xk = xR[:]
    for cj, col in zip(c, cols):
        if cj != 0:
            xk = [a + cj * v for a, v in zip(xk, col)]
    out = np.array([float(v) for v in xk])
    return out[:n] + 1j * out[n:] if cplx else out[:n]


def fx(v):
    v = float(v)
    if not np.isfinite(v):
        return 2000000000
    return int(min(2e9, round(abs(v) * 1e9)))


def record_run(sp, rs, k):
    n = int(rs.randint(3, 13))
    cplx = bool(rs.rand() < 0.5)
    cond = float(10 ** rs.uniform(0, 3))
    A, b, x0 = random_system(rs, n, cplx, cond)
    # conjugate gradients are scale-equivariant (A -> sa A, b -> sb b maps the iterates x_k -> (sb/sa) x_k): every clause is
    # relative, so half of the runs are rescaled by many orders of magnitude (tiny right-hand sides, tiny / huge operators)
    sa, sb = [(1.0, 1.0), (1.0, 1.0), (1.0, 1e-9), (1e-6, 1e-6), (1e6, 1.0), (1.0, 1e8), (1e-7, 1e-12), (1.0, 1.0),
              (2.0 ** -60, 2.0 ** -60), (1e-20, 1.0), (1e18, 1e-3), (1.0, 1.0)][k % 12]     # (operators whose norm is far below machine epsilon in absolute terms)
    A, b, x0 = A * sa, b * sb, x0 * (sb / sa)
    mode = int(rs.randint(0, 3))
    if mode == 0:
        P, Pm = None, np.eye(n)
    elif mode == 1:
        d = np.round(1024.0 / np.real(np.diag(A))) / 1024
        P, Pm = (lambda v: d * v), np.diag(d)
    else:
        B, _, _ = random_system(rs, n, cplx, 10.0)
        Pm = np.linalg.inv(B)
        Pm = np.round(Pm * 1024) / 1024
        Pm = (Pm + Pm.conj().T) / 2
        P = lambda v: Pm @ v
    max_iter = int(rs.choice([1, 2, n // 2 + 1, n, n + 2]))
    use_linop = bool(rs.rand() < 0.5)
    if use_linop:
        L = sp.linop.MatMul([n, 1], A)
        Aop = lambda v: L(v.reshape(n, 1)).reshape(n)
    else:
        Aop = lambda v: A @ v
    # memory layout of the array the caller passes: contiguous, a strided view, or a column of a C-ordered 2-D array (solving
    # several right-hand sides column by column) - the solution must end up in THAT array whatever its layout
    layout = ["contiguous", "contiguous", "strided", "column"][(k // 8) % 4]
    if layout == "strided":
        buf = np.zeros(2 * n, dtype=x0.dtype)
        x = buf[::2]
        x[:] = x0
    elif layout == "column":
        buf = np.zeros((n, 3), dtype=x0.dtype)
        x = buf[:, 1]
        x[:] = x0
    else:
        x = x0.copy()
    bkind = ["same", "same", "same", "real_b", "b32"][(k // 3) % 5]
    if bkind == "real_b" and cplx:
        b = np.real(b).copy()                                    # a real right-hand side of a complex Hermitian system is valid data
    elif bkind == "b32" and sa == 1.0 and sb == 1.0:
        b = (b.astype(np.complex64) if cplx else b.astype(np.float32))      # single-precision data, double-precision system and unknown
    xstar = np.linalg.solve(A, b.astype(A.dtype))
    anorm = lambda e: float(np.sqrt(max(np.real(np.vdot(e, A @ e)), 0.0)))
    e0 = anorm(xstar - x0)
    alg = sp.alg.ConjugateGradient(Aop, b, x, P=P, max_iter=max_iter, tol=0)
    r0 = b - A @ x0
    z0 = Pm @ r0
    ev = []
    while True:
        d = alg.done()
        ev.append({"e": "d", "iter": int(alg.iter), "done": int(bool(d)), "npd": int(bool(alg.not_positive_definite)), "resid0": int(alg.resid == 0),
                   "err": 0, "kry": 0, "res": 0, "x_is_callers": 1})
        if d or len(ev) > 60:
            break
        alg.update()
        kk = alg.iter
        # Krylov-optimal iterate: exact rational reference at selected iterations (first two and the last one)
        if (kk in (1, 2) or kk == max_iter) and kk < n:
            xk = krylov_opt_exact(A, Pm, b, x0, kk)
        else:
            xk = None
        den = e0 if e0 > 0 else 1.0
        ev.append({"e": "u", "iter": int(kk), "done": 0, "npd": 0, "resid0": 0, "err": fx(anorm(xstar - alg.x) / den), "kry": fx(anorm(alg.x - xk) / den) if xk is not None else 0,
                   "res": fx(np.linalg.norm(alg.r - (b - A @ alg.x)) / max(np.linalg.norm(b), 1e-300)),
                   "x_is_callers": int(alg.x is x or np.array_equal(np.asarray(x), np.asarray(alg.x)))})
    # "exact within n updates" is an exact-arithmetic statement: in floating point it is demanded (1e-5) only for small, mildly
    # conditioned systems; beyond that (measured: 5e-2 left at n = 12, cond(A) = 366 with a random HPD preconditioner) only the
    # monotone decrease of the A-norm error is required at step n
    exact_tol = 10000 if (n <= 6 and cond <= 100 and mode != 2) else 1000000000
    return {"id": "cg%d" % k, "n": n, "max_iter": max_iter, "exact_tol": exact_tol, "ev": ev, "meta": {"complex": cplx, "cond": round(cond, 2), "precond": mode, "linop": use_linop, "scale_A": sa, "scale_b": sb, "layout": layout, "b_kind": bkind}}


def run(ctx):
    import sigpy as sp

    r = core.EngineResult("cg")
    wd = tlc.fresh_dir("cg_%s" % ctx.tier)
    body, cfg = mc_text(ctx)
    if not ctx.thorough:
        body = body.replace("MCVecs(n) == MCVecsAll(n)\n", "")
        body = body.replace("MCVecsAll(n) ==", "MCVecs(n) ==")
    tlc.write_mc(wd, "MC_CG", body, cfg)
    res = tlc.run_tlc(wd, "MC_CG", dump=True, coverage=False, timeout=3000)
    r.add_tlc(res, "CG")
    if res.violated:
        tr = tlc.error_trace(res.stdout)
        st = tr[-1] if tr else {}
        r.violations.append(core.Violation(["C12"], "cg", {"kind": "spec_invariant", "invariant": res.violated},
                                           "TLC: %s fails on CG.tla (the transcribed recurrences are not Krylov-optimal / monotone / exact): %s" % (res.violated, repr(st)[:800]), {}))
        return r
    if r.machinery_error:
        return r
    n = 0
    nontriv = 0
    rr = ctx.rng("cg_subset")
    keep = 1.0 if ctx.thorough else 0.35
    for st in tlaval.read_dump(res.dump_path):
        if rr.random() > keep and st["iter"] != 0:
            continue
        n += 1
        nontriv += 1 if st["iter"] >= 1 else 0
        for kind, detail in replay_state(sp, st, n):
            props = ["C12"] + (["C15"] if kind in ("done", "done_early", "counter") else [])
            r.violations.append(core.Violation(props, "cg", {"kind": kind, "A": [list(x) for x in st["A"]], "b": list(st["b"]), "x0": list(st["x0"]), "P": list(st["P"]),
                                                             "max_iter": st["max_iter"], "iter": st["iter"]}, detail, {}))
        if len(r.samples) < 3 and st["iter"] == 2 and n % 400 == 0:
            r.samples.append({"A": [list(x) for x in st["A"]], "b": list(st["b"]), "x0": list(st["x0"]), "P": list(st["P"]), "max_iter": st["max_iter"], "iter": 2,
                              "x": [str(fr(q)) for q in st["x"]], "rzold": str(fr(st["rzold"]))})
    r.traces += n
    r.evaluations += n
    r.notes.append("%d exact states replayed" % n)
    # ---- large tier: traces
    rs = ctx.nprng("cg_traces")
    traces = []
    for k in range(400 if ctx.thorough else 120):
        try:
            traces.append(record_run(sp, rs, k))
        except Exception as e:      # a valid Hermitian positive definite system (whatever the dtypes of its parts) must not be rejected
            import traceback

            r.violations.append(core.Violation(["C12"], "cg", {"kind": "valid_system_raises", "run": k, "error": type(e).__name__},
                                               "ConjugateGradient raised %r on a valid system (run %d): %s" % (e, k, traceback.format_exc().splitlines()[-3].strip()[:160]), {}))
    slim = [{"id": t["id"], "n": t["n"], "max_iter": t["max_iter"], "exact_tol": t["exact_tol"], "ev": t["ev"]} for t in traces]
    tres, rej = tracecheck.validate("CGTrace", slim, wd, constants=["Slack = 1000", "KryTol = 10000", "ResTol = 1000"], timeout=900)
    r.add_tlc(tres, "CGTrace")
    byid = {t["id"]: t for t in traces}
    for tid, line in rej.items():
        t = byid[tid]
        cur = t["ev"][line - 1] if line - 1 < len(t["ev"]) else None
        r.violations.append(core.Violation(["C12"], "cg", {"kind": "trace_rejected", "n": t["n"], "meta": t["meta"]},
                                           "CG run %s (n=%d, %s) rejected by CGTrace at event %d: %s" % (tid, t["n"], t["meta"], line, cur), {"trace": t}))
    r.traces += len(traces)
    r.evaluations += len(traces)
    nontriv += len(traces)
    r.nontrivial = nontriv
    r.samples.append({"trace": traces[0]["meta"], "n": traces[0]["n"], "max_iter": traces[0]["max_iter"], "events": traces[0]["ev"][:5]})
    r.notes.append("%d recorded runs (dimension 3..12) validated against CGTrace" % len(traces))
    r.count("C12", r.traces, r.evaluations, r.nontrivial)
    r.count("C15", r.traces, r.evaluations, r.nontrivial)
    return r
