"""Engine index_maps (C09, purity part of C02).

TLC enumerates every call of IndexMaps.tla within the configured bounds,
checks the algebraic laws on the model, and dumps the states.  Every dumped
state (function, parameters, expected label map) is replayed on the real
sigpy function with a labelled complex array; the output is compared element
by element, the shape with the spec's oshape, and the input bytes before/after.
"""
import numpy as np

from .. import core, tlaval, tlc

QUICK = dict(
    shapes="{<<n>> : n \\in 1..6} \\cup {<<a, b>> : a \\in 1..3, b \\in 1..3} \\cup {<<2, 1, 3>>, <<2, 2, 2>>, <<3, 2, 2>>, <<2, 3, 2>>}",
    shifts="{0, 1, 2}",
    factors="{1, 2, 3}",
    blk="{1, 2, 3}",
    strides="{1, 2, 3}",
    roll="{-1, 1, 2, 4}",
    batch="{<<>>, <<2>>, <<2, 3>>}",
)
THOROUGH = dict(
    shapes="{<<n>> : n \\in 1..8} \\cup {<<a, b>> : a \\in 1..4, b \\in 1..4} "
    "\\cup {<<a, b, c>> : a \\in 1..2, b \\in 1..3, c \\in 2..3}",
    shifts="{0, 1, 2, 3}",
    factors="{1, 2, 3}",
    blk="{1, 2, 3, 4}",
    strides="{1, 2, 3, 4}",
    roll="{-3, -1, 1, 2, 5}",
    batch="{<<>>, <<2>>, <<1, 2>>, <<2, 3>>, <<3, 1, 2>>}",
)
INVS = [
    "TypeOK", "ResizeCentreLaw", "ResizeRoundTrip", "ResizeSwapIsTranspose", "FlipInvolution",
    "CircshiftInverse", "PermutationLaw", "UpDownLaw", "B2AIsTransposeOfA2B", "CoverageCount", "A2BWindowLaw",
]


def mc_text(p, ops):
    body = "EXTENDS IndexMaps\nMCShapes == %s\nMCShifts == %s\nMCFactors == %s\nMCBlk == %s\nMCStrides == %s\nMCRoll == %s\nMCBatch == %s\nMCOps == %s\n" % (
        p["shapes"], p["shifts"], p["factors"], p["blk"], p["strides"], p["roll"], p["batch"],
        "{" + ", ".join('"%s"' % o for o in ops) + "}",
    )
    cfg = (
        "INIT Init\nNEXT Next\nCONSTANTS\n Shapes <- MCShapes\n ShiftVals <- MCShifts\n Factors <- MCFactors\n"
        " BlkSizes <- MCBlk\n Strides <- MCStrides\n RollVals <- MCRoll\n BatchShapes <- MCBatch\n Ops <- MCOps\n"
        + "".join("INVARIANT %s\n" % i for i in INVS)
    )
    return body, cfg


def _none(v):
    return None if v == () else list(v)


def call_real(sp, op, par, x, conv=list):
    """Run the sigpy function for one spec state; returns the output array.  `conv` is the container the integer
    arguments are passed in (list, tuple, or a tuple of NumPy integers as np.array(...).shape-style arithmetic produces)."""
    if conv is not list:
        par = {k: (conv(v) if isinstance(v, (tuple, list)) and k not in ("ishape",) else v) for k, v in par.items()}
        _n = lambda v: None if len(v) == 0 else conv(v)
        if op == "resize":
            return sp.resize(x, conv(par["oshape"]), ishift=_n(par["ishift"]), oshift=_n(par["oshift"]))
        if op == "flip":
            return sp.flip(x, axes=_n(par["axes"]))
        if op == "circshift":
            return sp.circshift(x, conv(par["shifts"]), axes=_n(par["axes"]))
        if op == "downsample":
            return sp.downsample(x, conv(par["factors"]), shift=conv(par["shift"]))
        if op == "upsample":
            return sp.upsample(x, conv(par["oshape"]), conv(par["factors"]), shift=conv(par["shift"]))
        if op == "a2b":
            return sp.array_to_blocks(x, conv(par["B"]), conv(par["S"]))
        if op == "b2a":
            return sp.blocks_to_array(x, conv(par["oshape"]), conv(par["B"]), conv(par["S"]))
    if op == "resize":
        return sp.resize(x, list(par["oshape"]), ishift=_none(par["ishift"]), oshift=_none(par["oshift"]))
    if op == "flip":
        return sp.flip(x, axes=_none(par["axes"]))
    if op == "circshift":
        return sp.circshift(x, list(par["shifts"]), axes=_none(par["axes"]))
    # (a zero shift is the documented default: it is passed as None here - the default path - and explicitly by the container variants)
    if op == "downsample":
        return sp.downsample(x, list(par["factors"]), shift=list(par["shift"]) if any(par["shift"]) else None)
    if op == "upsample":
        return sp.upsample(x, list(par["oshape"]), list(par["factors"]), shift=list(par["shift"]) if any(par["shift"]) else None)
    if op == "a2b":
        return sp.array_to_blocks(x, list(par["B"]), list(par["S"]))
    if op == "b2a":
        return sp.blocks_to_array(x, list(par["oshape"]), list(par["B"]), list(par["S"]))
    raise KeyError(op)


def expected_from_map(out_map, x):
    xf = x.ravel()
    exp = np.zeros(len(out_map), dtype=x.dtype)
    for p, labels in enumerate(out_map):
        for l in labels:
            exp[p] += xf[l - 1]
    return exp


def key_of(op, par):
    k = {"op": op}
    for f in ("ishape", "oshape", "ishift", "oshift", "axes", "shifts", "factors", "shift", "B", "S", "batch"):
        if f in par:
            k[f] = list(par[f])
    if op == "resize":
        r = max(len(par["ishape"]), len(par["oshape"]))
        pad = lambda s: [1] * (r - len(s)) + list(s)
        k["equal_shapes_with_shift"] = bool(pad(par["ishape"]) == pad(par["oshape"]) and (par["ishift"] != () or par["oshift"] != ()))
    return k


def check_state(sp, st, rng):
    """Returns (violation dict or None, nontrivial flag)."""
    op, par, omap = st["op"], st["par"], st["out"]
    ishape = tuple(par["ishape"])
    n = int(np.prod(ishape)) if ishape else 1
    x = (rng.randint(1, 50, n) + 1j * rng.randint(-50, 50, n)).astype(np.complex128).reshape(ishape)
    x0 = x.copy()
    exp = expected_from_map(omap, x)
    nontrivial = any(len(s) != 1 for s in omap) or [next(iter(s)) for s in omap] != list(range(1, len(omap) + 1))
    try:
        y = call_real(sp, op, par, x)
    except Exception as e:  # a valid call must not raise
        return {"kind": "exception", "detail": "%s: %s" % (type(e).__name__, e)}, nontrivial
    if not np.array_equal(x, x0):
        return {"kind": "input_mutated", "detail": "input array changed by the call", "props": ["C02", "C09"]}, nontrivial
    if tuple(y.shape) != tuple(par["oshape"]):
        return {"kind": "shape", "detail": "output shape %s, spec %s" % (tuple(y.shape), tuple(par["oshape"]))}, nontrivial
    yf = np.asarray(y).ravel()
    if not np.array_equal(yf, exp):
        bad = int(np.argmax(yf != exp))
        return {
            "kind": "value",
            "detail": "output differs from the documented element map at flat position %d: got %s, expected %s (sum of input labels %s)"
            % (bad, yf[bad], exp[bad], sorted(omap[bad])),
        }, nontrivial
    # the same values in another memory layout must be moved the same way (and left untouched)
    for lab, xv in core.layouts(x):
        xv0 = xv.copy()
        yv = call_real(sp, op, par, xv)
        if tuple(yv.shape) != tuple(y.shape) or not np.array_equal(np.asarray(yv).ravel(), exp):
            return {"kind": "layout", "detail": "%s input is rearranged differently from the same values in C order" % lab}, nontrivial
        if not np.array_equal(xv, xv0):
            return {"kind": "input_mutated", "detail": "%s input array changed by the call" % lab, "props": ["C02", "C09"]}, nontrivial
    # the integer arguments in other containers: tuples, and tuples of NumPy integers (what shape arithmetic on arrays produces)
    for lab, conv in (("tuples", tuple), ("NumPy integers", lambda v: tuple(np.int64(t) for t in v))):
        try:
            yc = call_real(sp, op, par, x, conv=conv)
        except Exception as e:
            return {"kind": "exception", "detail": "arguments given as %s: %s: %s" % (lab, type(e).__name__, e)}, nontrivial
        if tuple(yc.shape) != tuple(y.shape) or not np.array_equal(np.asarray(yc).ravel(), exp):
            return {"kind": "value", "detail": "arguments given as %s are handled differently from lists" % lab}, nontrivial
    # 64-bit integers above 2^53 are moved / summed exactly (no detour through floating point)
    xi = (np.arange(1, n + 1, dtype=np.int64) + (1 << 53)).reshape(ishape)
    try:
        yi = call_real(sp, op, par, xi)
        expi = [sum(int(xi.ravel()[lab - 1]) for lab in s_) for s_ in omap]
        if yi.dtype != np.int64 or [int(v) for v in np.asarray(yi).ravel()] != expi:
            return {"kind": "value", "detail": "int64 input above 2^53 is not rearranged exactly (dtype %s)" % yi.dtype}, nontrivial
    except Exception as e:
        return {"kind": "exception", "detail": "int64 input: %s: %s" % (type(e).__name__, e)}, nontrivial
    # real-valued input must be moved the same way (dtype preserved)
    xr = x.real.copy()
    yr = call_real(sp, op, par, xr)
    if yr.dtype != xr.dtype or not np.array_equal(np.asarray(yr).ravel(), exp.real):
        return {"kind": "real_input", "detail": "real-typed input handled differently (dtype %s)" % yr.dtype}, nontrivial
    return None, nontrivial


def run(ctx):
    import sigpy as sp

    r = core.EngineResult("index_maps")
    params = THOROUGH if ctx.thorough else QUICK
    ops = ["resize", "flip", "circshift", "downsample", "upsample", "a2b", "b2a"]
    wd = tlc.fresh_dir("index_maps_%s" % ctx.tier)
    body, cfg = mc_text(params, ops)
    tlc.write_mc(wd, "MC_IndexMaps", body, cfg)
    res = tlc.run_tlc(wd, "MC_IndexMaps", dump=True, timeout=3000 if ctx.thorough else 600)
    r.add_tlc(res)
    if res.violated:
        r.machinery_error = "IndexMaps.tla: law %s fails on the MODEL (meaning definitions inconsistent)" % res.violated
        return r
    if r.machinery_error:
        return r
    rng = ctx.nprng("index_maps")
    seen_ops = {}
    for st in tlaval.read_dump(res.dump_path):
        if st["op"] == "init":
            continue
        v, nontrivial = check_state(sp, st, rng)
        r.traces += 1
        r.evaluations += 1
        r.nontrivial += 1 if nontrivial else 0
        seen_ops[st["op"]] = seen_ops.get(st["op"], 0) + 1
        if len(r.samples) < 7 and seen_ops[st["op"]] == 40:
            r.samples.append({"op": st["op"], "par": {k: list(v2) for k, v2 in st["par"].items()},
                              "expected_label_map": [sorted(s) for s in st["out"]][:12]})
        if v:
            key = key_of(st["op"], st["par"])
            key["kind"] = v["kind"]
            r.violations.append(core.Violation(v.get("props", ["C09"]), "index_maps", key, v["detail"],
                                               {"state": {"op": st["op"], "par": {k: list(v2) for k, v2 in st["par"].items()},
                                                          "out": [sorted(s) for s in st["out"]]}}))
    r.notes.append("calls per function: %s" % seen_ops)
    r.count("C09", r.traces, r.evaluations, r.nontrivial)
    r.count("C02", r.traces, r.evaluations, r.nontrivial)
    return r


def replay(payload):
    import sigpy as sp

    st = payload["state"]
    st = {"op": st["op"], "par": {k: tuple(v) for k, v in st["par"].items()}, "out": [set(s) for s in st["out"]]}
    v, _ = check_state(sp, st, np.random.RandomState(0))
    return v
