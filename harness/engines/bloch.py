"""Engine bloch (C19).

Exact tier: TLC explores Bloch.tla (hard-pulse spinor recursion of abrm_hp and
blochsim over Q(i): Pythagorean rotation angles and gradient phases), checking
unitarity on every prefix, the zero-pulse law and the composition law on the
model; every dumped state is turned into a float waveform and replayed on the
two real simulators (a, b compared to 1e-10; composition re-checked on the
code).  Numeric tier: random complex waveforms through all five simulators
(unitarity, zero pulse, composition) and the inverse-SLR round trip (random
polynomials and every dzrf ptype x ftype design through b2rf and hard-pulse
simulation); the defects are validated by TLC against AccuracyTrace.tla.
"""
from fractions import Fraction

import numpy as np

from .. import core, tlaval, tlc, tracecheck


def fr(q):
    return Fraction(q[0], q[1])


def cv(c):
    return complex(float(fr(c[0])), float(fr(c[1])))


def fx(v):
    v = float(v)
    if not np.isfinite(v):
        return 2000000000
    return int(min(2e9, round(abs(v) * 1e9)))


def wave_of(st, lo, hi):
    rf, g = [], []
    for k in range(lo, hi):
        r, w = st["wave"][k]
        C, s, eps = float(fr(r[0])), float(fr(r[1])), cv(r[2])
        theta = 2 * np.arctan2(s, C)
        rf.append(theta * eps)
        g.append(-2 * np.angle(cv(w)))
    return np.array(rf, dtype=np.complex128), np.array(g, dtype=np.float64)


def comp(a1, b1, a2, b2):
    return a2 * a1 - np.conj(b2) * b1, b2 * a1 + np.conj(a2) * b1


def run_sim(rfmod, name, rf, g, x):
    if name == "abrm_hp":
        return rfmod.sim.abrm_hp(rf, g, x)
    return rfmod.optcont.blochsim(rf, x, g)


def replay_state(rfmod, st):
    out = []
    n = len(st["wave"])
    if n == 0:
        return out
    x = np.array([1.0])
    rf, g = wave_of(st, 0, n)
    a, b = run_sim(rfmod, st["sim"], rf, g, x)
    # expected: Finish(a, b, acc)
    ea = cv(st["a"]) * np.conj(cv(st["acc"]))
    eb = cv(st["b"]) * np.conj(cv(st["acc"]))
    if abs(a[0] - ea) > 1e-10 or abs(b[0] - eb) > 1e-10:
        out.append(("value", "%s on the exact waveform: (a, b) = (%s, %s), exact spinor (%s, %s)" % (st["sim"], a[0], b[0], ea, eb)))
    if abs(abs(a[0]) ** 2 + abs(b[0]) ** 2 - 1) > 1e-12:
        out.append(("unitarity", "|a|^2+|b|^2 - 1 = %.3g" % (abs(a[0]) ** 2 + abs(b[0]) ** 2 - 1)))
    if st["split"] > 0 and st["split"] < n:
        r1, g1 = wave_of(st, 0, st["split"])
        r2, g2 = wave_of(st, st["split"], n)
        a1, b1 = run_sim(rfmod, st["sim"], r1, g1, x)
        a2, b2 = run_sim(rfmod, st["sim"], r2, g2, x)
        ca, cb = comp(a1, b1, a2, b2)
        if abs(ca[0] - a[0]) > 1e-10 or abs(cb[0] - b[0]) > 1e-10:
            out.append(("composition", "%s: simulating back to back differs from composing the two rotations" % st["sim"]))
    return out


def numeric_series(rfmod, rs, k):
    """One random configuration through all simulators; returns (meta, [(cls, val, note)])."""
    ev = []
    n1, n2 = int(rs.randint(1, 40)), int(rs.randint(1, 40))
    if k % 7 == 0:
        n1, n2 = 1, 1
    if k % 11 == 0:
        n1, n2 = 128, 128
    scale = float(rs.choice([0.05, 0.5, 2.0, 6.0]))          # small tip to > pi per sample
    r1 = (rs.randn(n1) + 1j * rs.randn(n1)) * scale
    r2 = (rs.randn(n2) + 1j * rs.randn(n2)) * scale
    if k % 3 == 0 and n1 > 2 and n2 > 2:
        # samples that are exactly zero: gaps inside the pulse, after non-zero samples, and trailing zero padding
        r1[rs.randint(1, n1, size=max(1, n1 // 3))] = 0
        r2[-max(1, n2 // 4):] = 0
        r2[n2 // 2] = 0
    r12 = np.concatenate([r1, r2])
    x = rs.randn(5) * 3
    g1, g2 = rs.randn(n1), rs.randn(n2)
    unit = lambda a, b: float(np.abs(np.abs(a) ** 2 + np.abs(b) ** 2 - 1).max())
    # hard-pulse family
    for name in ("abrm_hp", "blochsim"):
        a, b = run_sim(rfmod, name, r12, np.concatenate([g1, g2]), x)
        a1, b1 = run_sim(rfmod, name, r1, g1, x)
        a2, b2 = run_sim(rfmod, name, r2, g2, x)
        ca, cb = comp(a1, b1, a2, b2)
        ev += [("unitarity", unit(a, b), name), ("composition", float(max(np.abs(ca - a).max(), np.abs(cb - b).max())), name)]
        az, bz = run_sim(rfmod, name, np.zeros(n1, dtype=np.complex128), g1, x)
        ev.append(("zero_pulse", float(max(np.abs(bz).max(), np.abs(np.abs(az) - 1).max())), name))
        az0, bz0 = run_sim(rfmod, name, np.zeros(n1, dtype=np.complex128), np.zeros(n1), x)
        ev.append(("zero_pulse", float(max(np.abs(bz0).max(), np.abs(az0 - 1).max())), name + " (no gradient: identity)"))
    # abrm_hp with its off-resonance phase per sample (scalar and per-position)
    for dom in (0.37, rs.randn(5) * 0.5):
        hp = lambda r_, g_: rfmod.sim.abrm_hp(r_, g_, x, dom)
        a, b = hp(r12, np.concatenate([g1, g2]))
        a1, b1 = hp(r1, g1)
        a2, b2 = hp(r2, g2)
        ca, cb = comp(a1, b1, a2, b2)
        lab = "abrm_hp dom0dt %s" % ("scalar" if np.isscalar(dom) else "array")
        ev += [("unitarity", unit(a, b), lab), ("composition", float(max(np.abs(ca - a).max(), np.abs(cb - b).max())), lab)]
        az, bz = hp(np.zeros(n1, dtype=np.complex128), g1)
        ev.append(("zero_pulse", float(max(np.abs(bz).max(), np.abs(np.abs(az) - 1).max())), lab))
    # simultaneous rotation: abrm (gradient 2 pi / n by construction), abrm_nd
    a, b = rfmod.sim.abrm(r12, x)
    a1, b1 = rfmod.sim.abrm(r1, x * n1 / (n1 + n2))
    a2, b2 = rfmod.sim.abrm(r2, x * n2 / (n1 + n2))
    ca, cb = comp(a1, b1, a2, b2)
    ev += [("unitarity", unit(a, b), "abrm"), ("composition", float(max(np.abs(ca - a).max(), np.abs(cb - b).max())), "abrm")]
    az, bz = rfmod.sim.abrm(np.zeros(n1, dtype=np.complex128), x)
    ev.append(("zero_pulse", float(max(np.abs(bz).max(), np.abs(np.abs(az) - 1).max())), "abrm"))
    ab_, bb_ = rfmod.sim.abrm(r1, x, balanced=True)
    ev.append(("unitarity", unit(ab_, bb_), "abrm balanced"))
    # balanced = the plain simulation followed by the rewinder, a rotation about z by -pi x (half of the 2 pi x the gradient
    # accumulates): (a, b) -> (e^{+i pi x / 2} a, e^{-i pi x / 2} b); the sign of x matters
    au_, bu_ = rfmod.sim.abrm(r1, x)
    rew = np.exp(1j * np.pi * x / 2)
    ev.append(("composition", float(max(np.abs(rew * au_ - ab_).max(), np.abs(np.conj(rew) * bu_ - bb_).max())), "abrm balanced vs plain + rewinder"))
    nd = int(rs.randint(1, 4))
    xn = rs.randn(4, nd)
    G1, G2 = rs.randn(n1, nd), rs.randn(n2, nd)
    a, b = rfmod.sim.abrm_nd(r12, xn, np.concatenate([G1, G2]))
    a1, b1 = rfmod.sim.abrm_nd(r1, xn, G1)
    a2, b2 = rfmod.sim.abrm_nd(r2, xn, G2)
    ca, cb = comp(a1, b1, a2, b2)
    ev += [("unitarity", unit(a, b), "abrm_nd"), ("composition", float(max(np.abs(ca - a).max(), np.abs(cb - b).max())), "abrm_nd")]
    az, bz = rfmod.sim.abrm_nd(np.zeros(n1, dtype=np.complex128), xn, G1)
    ev.append(("zero_pulse", float(max(np.abs(bz).max(), np.abs(np.abs(az) - 1).max())), "abrm_nd"))
    # parallel transmit (its (a, b) is the inverse-rotation convention: composition in the opposite order)
    Nc = int(rs.randint(1, 3))
    xp2 = rs.randn(4, 2)
    B1, B2 = (rs.randn(Nc, n1) + 1j * rs.randn(Nc, n1)) * 0.05 * scale, (rs.randn(Nc, n2) + 1j * rs.randn(Nc, n2)) * 0.05 * scale
    Gp1, Gp2 = rs.randn(n1, 2) * 5, rs.randn(n2, 2) * 5
    ptx = lambda B, G: tuple(np.squeeze(v) for v in rfmod.sim.abrm_ptx(B, xp2, G, 1e-6)[:2])
    a, b = ptx(np.concatenate([B1, B2], 1), np.concatenate([Gp1, Gp2]))
    a1, b1 = ptx(B1, Gp1)
    a2, b2 = ptx(B2, Gp2)
    ca, cb = comp(a2, b2, a1, b1)
    ev += [("unitarity", unit(a, b), "abrm_ptx"), ("composition", float(max(np.abs(ca - a).max(), np.abs(cb - b).max())), "abrm_ptx")]
    az, bz = ptx(np.zeros((Nc, n1), dtype=np.complex128), Gp1)
    ev.append(("zero_pulse", float(max(np.abs(bz).max(), np.abs(np.abs(az) - 1).max())), "abrm_ptx"))
    # the optional arguments: an off-resonance map comparable to the gradient term, and B1+ sensitivities
    gam = 267.522 * 1e6 / 1000
    fmap = rs.randn(4) * gam / (2 * np.pi) * float(rs.choice([0.5, 3.0]))
    sens = rs.randn(Nc, 2, 2) + 1j * rs.randn(Nc, 2, 2)
    for label, kw in (("fmap", dict(fmap=fmap)), ("sens", dict(sens=sens)), ("fmap+sens", dict(fmap=fmap, sens=sens))):
        pt = lambda B, G: tuple(np.squeeze(v) for v in rfmod.sim.abrm_ptx(B, xp2, G, 1e-6, **{k_: np.array(v_) for k_, v_ in kw.items()})[:2])
        a, b = pt(np.concatenate([B1, B2], 1), np.concatenate([Gp1, Gp2]))
        a1, b1 = pt(B1, Gp1)
        a2, b2 = pt(B2, Gp2)
        ca, cb = comp(a2, b2, a1, b1)
        ev += [("unitarity", unit(a, b), "abrm_ptx " + label), ("composition", float(max(np.abs(ca - a).max(), np.abs(cb - b).max())), "abrm_ptx " + label)]
        az, bz = pt(np.zeros((Nc, n1), dtype=np.complex128), Gp1)
        ev.append(("zero_pulse", float(max(np.abs(bz).max(), np.abs(np.abs(az) - 1).max())), "abrm_ptx " + label))
    return {"n1": n1, "n2": n2, "scale": scale}, ev


def slr_series(rfmod, rs, k, design=None):
    """b polynomial -> b2rf -> hard-pulse simulation -> |B| at every frequency."""
    from sigpy.mri.rf import slr

    if design is None:
        n = int(rs.choice([4, 8, 16, 32, 64]))
        b = rs.randn(n) + 1j * rs.randn(n)
        meta = {"kind": "random", "n": n}
        target = float(rs.choice([0.3, 0.8, 0.95]))
    else:
        ptype, ftype = design
        captured = []
        orig = slr.b2rf

        def spy(bb, *a, **kw):
            captured.append(np.array(bb, dtype=np.complex128))
            return orig(bb, *a, **kw)

        slr.b2rf = spy
        try:
            rfmod.dzrf(int(rs.choice([32, 64])), float(rs.choice([4, 8])), ptype, ftype, 0.01, 0.01)
        finally:
            slr.b2rf = orig
        if not captured:
            return None
        b = captured[0]
        n = len(b)
        meta = {"kind": "dzrf", "ptype": ptype, "ftype": ftype, "n": n}
        target = None
    w = np.linspace(-np.pi, np.pi, 256, endpoint=False)
    E = np.exp(-1j * np.outer(w, np.arange(n)))
    Bw = E @ b
    mx = np.abs(Bw).max()
    if target is not None:
        b = b / mx * target
    elif mx >= 0.95:
        b = b / mx * 0.95          # the premise is max |B| < 1: se / inv designs overshoot 1 by their ripple
    Bw = E @ b
    meta["maxB"] = round(float(np.abs(Bw).max()), 3)
    p = slr.b2rf(b)
    _, bs = rfmod.sim.abrm_hp(p, np.ones(n), w)
    return meta, [("slr_roundtrip", float(np.abs(np.abs(bs) - np.abs(Bw)).max()), "max | |B_sim| - |B_design| | over 256 frequencies")]


def run(ctx):
    core.use_repo()
    import sigpy.mri.rf as rfmod

    r = core.EngineResult("bloch")
    wd = tlc.fresh_dir("bloch_%s" % ctx.tier)
    configs = [
        ("rich", "U(p, q, d) == <<R(p, d), R(q, d)>>\nMCRots == {<<R(1, 1), R(0, 1), C1>>, <<R(0, 1), R(1, 1), C1>>, <<R(3, 5), R(4, 5), C1>>, <<R(4, 5), R(3, 5), CI>>, <<R(-3, 5), R(4, 5), CNegQ(CI)>>}\nMCPhases == {C1, CI, U(3, 4, 5)}\n", 2),
        ("axis", "MCRots == {<<R(1, 1), R(0, 1), C1>>, <<R(0, 1), R(1, 1), C1>>, <<R(0, 1), R(1, 1), CI>>, <<R(0, 1), R(1, 1), CNegQ(C1)>>}\nMCPhases == {C1, CI, CNegQ(CI)}\n", 4 if ctx.thorough else 3),
    ]
    nrep = 0
    for label, defs, maxlen in configs:
        cfg = 'INIT Init\nNEXT Next\nCONSTANTS\n Rots <- MCRots\n Phases <- MCPhases\n MaxLen = %d\n Sims = {"abrm_hp", "blochsim"}\nINVARIANT Unitary\nINVARIANT ZeroPulse\nINVARIANT Composition\n' % maxlen
        tlc.write_mc(wd, "MC_Bloch_" + label, "EXTENDS Bloch\n" + defs, cfg)
        res = tlc.run_tlc(wd, "MC_Bloch_" + label, dump=True, coverage=False, timeout=1800)
        r.add_tlc(res, label)
        if res.violated:
            r.violations.append(core.Violation(["C19"], "bloch", {"kind": "spec_invariant", "invariant": res.violated, "config": label},
                                               "TLC: %s fails on the transcribed hard-pulse recursion" % res.violated, {}))
            continue
        if r.machinery_error:
            return r
        rr = ctx.rng("bloch_subset_" + label)
        for st in tlaval.read_dump(res.dump_path):
            if label == "axis" and not ctx.thorough and rr.random() > 0.4:
                continue
            nrep += 1
            for kind, detail in replay_state(rfmod, st):
                r.violations.append(core.Violation(["C19"], "bloch", {"kind": kind, "sim": st["sim"], "len": len(st["wave"]), "split": st["split"], "config": label}, detail, {}))
            if len(r.samples) < 2 and len(st["wave"]) == 2 and nrep % 300 == 0:
                rf_, g_ = wave_of(st, 0, 2)
                r.samples.append({"sim": st["sim"], "rf": [str(v) for v in rf_], "gradient_phase": list(g_), "a": str(cv(st["a"])), "b": str(cv(st["b"]))})
    r.traces += nrep
    r.evaluations += nrep
    r.nontrivial += nrep
    # numeric tier
    rs = ctx.nprng("bloch_numeric")
    traces = []
    for k in range(120 if ctx.thorough else 40):
        meta, ev = numeric_series(rfmod, rs, k)
        traces.append({"id": "sim%d" % k, "meta": meta, "ev": [{"cls": c, "val": fx(v)} for c, v, _ in ev], "notes": [n for _, _, n in ev]})
    for k in range(60 if ctx.thorough else 20):
        meta, ev = slr_series(rfmod, rs, k)
        traces.append({"id": "slr%d" % k, "meta": meta, "ev": [{"cls": c, "val": fx(v)} for c, v, _ in ev], "notes": [n for _, _, n in ev]})
    k = 0
    for ptype in ("ex", "se", "inv", "sat"):
        for ftype in ("ms", "pm", "ls", "min", "max"):
            got = slr_series(rfmod, rs, k, design=(ptype, ftype))
            k += 1
            if got:
                meta, ev = got
                traces.append({"id": "dz%d" % k, "meta": meta, "ev": [{"cls": c, "val": fx(v)} for c, v, _ in ev], "notes": [n for _, _, n in ev]})
    b = {"unitarity": fx(1e-9), "composition": fx(1e-9), "zero_pulse": fx(1e-9), "slr_roundtrip": fx(1e-5)}
    defs = "MCBounds == " + " @@ ".join('"%s" :> %d' % (k2, v) for k2, v in sorted(b.items())) + "\n"
    tres, rej = tracecheck.validate("AccuracyTrace", [{"id": t["id"], "ev": t["ev"]} for t in traces], wd, constants=["Bounds <- MCBounds"], invariants=(), defs=defs, timeout=600)
    r.add_tlc(tres, "AccuracyTrace")
    byid = {t["id"]: t for t in traces}
    for tid, line in rej.items():
        t = byid[tid]
        e = t["ev"][line - 1]
        r.violations.append(core.Violation(["C19"], "bloch", {"kind": e["cls"], "what": t["notes"][line - 1], "meta": t["meta"]},
                                           "%s (%s): measured %.3g exceeds %.3g" % (e["cls"], t["notes"][line - 1], e["val"] / 1e9, b[e["cls"]] / 1e9), {}))
    r.traces += len(traces)
    r.evaluations += sum(len(t["ev"]) for t in traces)
    r.nontrivial += len(traces)
    r.samples.append({"numeric": traces[0]["meta"], "measurements": [dict(e, note=n) for e, n in zip(traces[0]["ev"][:4], traces[0]["notes"][:4])]})
    worst = max((e["val"] for t in traces for e in t["ev"] if e["cls"] == "slr_roundtrip"), default=0)
    r.notes.append("%d exact waveforms replayed; %d numeric series; worst SLR round-trip defect %.2e" % (nrep, len(traces), worst / 1e9))
    r.count("C19", r.traces, r.evaluations, r.nontrivial)
    return r
