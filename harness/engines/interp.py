"""Engine interp (C07; Interpolate/Gridding operators for C01, C04).

TLC enumerates calls of Interp.tla (grid, exact rational coordinates incl.
ceil/floor ties and far-outside points, per-axis widths, B-spline orders and
Kaiser-Bessel) and checks window completeness / wrap / partition of unity on
the model.  Every dumped state is replayed: the dense weight matrix defined by
the spec's windows is compared with sigpy.interpolate (random real and complex
grids, batch axis, duplicated points) and with sigpy.gridding (its transpose),
with scalar and per-axis spelling of width / param; the Interpolate and
Gridding linops are probed for adjointness and A.N.
"""
import itertools
import multiprocessing as mp
from fractions import Fraction

import numpy as np

from .. import core, tlaval, tlc
from . import linop_build

INVS = ["WindowComplete", "WrapInGrid", "WeightsNonNegative", "LinearPartitionOfUnity"]
BETAS = [2.34, 5.0]
_SP = None


def _sp():
    global _SP
    if _SP is None:
        core.use_repo()
        import sigpy

        _SP = sigpy
    return _SP


def fr(q):
    return Fraction(q[0], q[1])


def weight_matrix(st, beta):
    from scipy.special import i0

    cfg, win = st["cfg"], st["win"]
    grid = tuple(cfg["grid"])
    W = np.zeros((len(win), int(np.prod(grid))))
    for j, axes in enumerate(win):
        for combo in itertools.product(*[range(len(a)) for a in axes]):
            idx, w = [], 1.0
            for d, t in enumerate(combo):
                e = axes[d][t]
                idx.append(e["wrapped"])
                if cfg["kernel"] == "kb":
                    a = float(fr(e["arg"]))
                    w *= float(i0(beta * np.sqrt(max(1 - a * a, 0.0))))
                else:
                    w *= float(fr(e["w"]))
            W[j, np.ravel_multi_index(tuple(idx), grid)] += w
    return W


def mixed_weight_matrix(st, params):
    """Per-axis parameters: spline orders (weights from the model's ws) or Kaiser-Bessel betas (from the model's arguments)."""
    from scipy.special import i0

    cfg, win = st["cfg"], st["win"]
    grid = tuple(cfg["grid"])
    W = np.zeros((len(win), int(np.prod(grid))))
    for j, axes in enumerate(win):
        for combo in itertools.product(*[range(len(a)) for a in axes]):
            idx, w = [], 1.0
            for d, t in enumerate(combo):
                e = axes[d][t]
                idx.append(e["wrapped"])
                if cfg["kernel"] == "kb":
                    a = float(fr(e["arg"]))
                    w *= float(i0(params[d] * np.sqrt(max(1 - a * a, 0.0))))
                else:
                    w *= float(fr(e["ws"][params[d]]))
            W[j, np.ravel_multi_index(tuple(idx), grid)] += w
    return W


def check_state(job):
    sp = _sp()
    st, seed = job
    cfg = st["cfg"]
    grid = list(cfg["grid"])
    nd = len(grid)
    rs = np.random.RandomState(seed)
    out = []
    kern = "spline" if cfg["kernel"].startswith("spline") else "kaiser_bessel"
    params = [int(cfg["kernel"][-1])] if kern == "spline" else BETAS
    widths = [float(fr(w)) for w in cfg["widths"]]
    pt = [float(fr(c)) for c in cfg["pts"][0]]
    for par in params:
        W1 = weight_matrix(st, par)
        # the same point twice and a second, shifted-by-grid point (periodic): rows add up in gridding
        coord = np.array([pt, pt], dtype=np.float64)
        W = np.vstack([W1, W1])
        tol = 1e-12 if kern == "spline" else 2e-6
        spellings = [(tuple(widths), tuple([par] * nd))]
        if len(set(widths)) == 1:
            spellings.append((widths[0], par))
        for wd, pr in spellings:
            for cplx in (False, True):
                g = rs.randn(*grid) + (1j * rs.randn(*grid) if cplx else 0)
                g0 = g.copy()
                c0 = coord.copy()
                try:
                    y = sp.interpolate(g, coord, kernel=kern, width=wd, param=pr)
                except Exception as e:
                    out.append((["C07"], "exception", "interpolate raised %r" % (e,)))
                    continue
                ex = W @ g.ravel()
                sc = max(1.0, float((np.abs(W) @ np.abs(g.ravel())).max()))   # error scale of the sum, not of the (possibly cancelling) result
                if y.shape != (2,) or not core.allclose(y, ex, atol=tol * sc, rtol=0):
                    out.append((["C07"], "interpolate_value", "interpolate differs from the documented kernel sum: got %s, expected %s" % (np.asarray(y).ravel()[:2], ex[:2])))
                if not (np.array_equal(g, g0) and np.array_equal(coord, c0)):
                    out.append((["C02", "C07"], "input_mutated", "interpolate modified an argument"))
                if cplx:
                    # grid data and coordinates in other memory layouts (Fortran order, strided views)
                    for (lab, gv), (_, cv) in zip(core.layouts(g) or [("C", g)] * 2, core.layouts(coord)):
                        gv0, cv0 = gv.copy(), cv.copy()
                        try:
                            yv = sp.interpolate(gv, cv, kernel=kern, width=wd, param=pr)
                        except Exception as e:
                            out.append((["C07"], "exception", "interpolate raised %r for %s arguments" % (e, lab)))
                            continue
                        if yv.shape != (2,) or not core.allclose(yv, ex, atol=tol * sc, rtol=0):
                            out.append((["C07"], "interpolate_value", "interpolate with %s arguments differs from the documented kernel sum" % lab))
                        if not (np.array_equal(gv, gv0) and np.array_equal(cv, cv0)):
                            out.append((["C02", "C07"], "input_mutated", "interpolate modified a %s argument" % lab))
                v = rs.randn(2) + (1j * rs.randn(2) if cplx else 0)
                try:
                    gg = sp.gridding(v, coord, grid, kernel=kern, width=wd, param=pr)
                except Exception as e:
                    out.append((["C07"], "exception", "gridding raised %r" % (e,)))
                    continue
                exg = (W.T @ v).reshape(grid)
                if tuple(gg.shape) != tuple(grid) or not core.allclose(gg, exg, atol=tol * max(1.0, float((np.abs(W.T) @ np.abs(v)).max())), rtol=0):
                    out.append((["C07"], "gridding_value", "gridding is not the transpose of the documented interpolation weights (coincident / wrapped contributions must add)"))
        # a different parameter on every axis (spline orders / Kaiser-Bessel betas), interpolate and gridding
        if nd >= 2 and par == params[0]:
            mixed = [tuple((k_ + s_) % 3 for k_ in range(nd)) for s_ in range(3)] if kern == "spline" else [tuple(BETAS[(k_ + s_) % len(BETAS)] for k_ in range(nd)) for s_ in range(2)]
            for pm in mixed:
                Wm1 = mixed_weight_matrix(st, pm)
                Wm = np.vstack([Wm1, Wm1])
                gm = rs.randn(*grid) + 1j * rs.randn(*grid)
                vm = rs.randn(2) + 1j * rs.randn(2)
                try:
                    ym = sp.interpolate(gm, coord, kernel=kern, width=tuple(widths), param=pm)
                    ggm = sp.gridding(vm, coord, grid, kernel=kern, width=tuple(widths), param=pm)
                except Exception as e:
                    out.append((["C07"], "exception", "per-axis param %s raised %r" % (pm, e)))
                    continue
                if not core.allclose(ym, Wm @ gm.ravel(), atol=tol * max(1.0, float((np.abs(Wm) @ np.abs(gm.ravel())).max())), rtol=0):
                    out.append((["C07"], "interpolate_value", "interpolate with per-axis param %s differs from the documented separable kernel sum" % (pm,)))
                if not core.allclose(ggm.ravel(), Wm.T @ vm, atol=tol * max(1.0, float((np.abs(Wm.T) @ np.abs(vm)).max())), rtol=0):
                    out.append((["C07"], "gridding_value", "gridding with per-axis param %s is not the transpose of the documented interpolation weights" % (pm,)))
        # scalar width / param given as NumPy scalars (np.int64, np.float32, ...) when the configuration has one width for all axes
        if len(set(widths)) == 1 and float(widths[0]).is_integer() and par == params[0]:
            gn = rs.randn(*grid) + 1j * rs.randn(*grid)
            for wn, pn in ((np.int64(int(widths[0])), par), (np.float32(widths[0]), np.float64(par) if kern != "spline" else np.int32(par))):
                try:
                    yn = sp.interpolate(gn, coord, kernel=kern, width=wn, param=pn)
                    okn = yn.shape == (2,) and core.allclose(yn, W @ gn.ravel(), atol=tol * max(1.0, float((np.abs(W) @ np.abs(gn.ravel())).max())), rtol=0)
                except Exception as e:
                    okn = False
                    yn = repr(e)[:120]
                if not okn:
                    out.append((["C07"], "interpolate_value", "interpolate with width=%r, param=%r (NumPy scalars) differs from the documented kernel sum / raised: %s" % (wn, pn, str(yn)[:120])))
        # a single coordinate given without a point axis (coord.shape == (ndim,), "[..., ndim]" with an empty "..."), with and
        # without a batch axis: interpolate returns the batch shape, gridding takes an input of the batch shape
        if par == params[0]:
            cb = np.array(pt, dtype=np.float64)
            for bshape in ((), (2,)):
                gbare = rs.randn(*bshape, *grid) + 1j * rs.randn(*bshape, *grid)
                try:
                    yb0 = sp.interpolate(gbare, cb, kernel=kern, width=tuple(widths), param=tuple([par] * nd))
                    exb0 = gbare.reshape(bshape + (-1,)) @ W1[0]
                    if np.shape(yb0) != bshape or not core.allclose(yb0, exb0, atol=tol * max(1.0, float(np.abs(gbare).max() * np.abs(W1).sum())), rtol=0):
                        out.append((["C07"], "interpolate_value", "interpolate with a bare (ndim,) coordinate and batch shape %s differs from the kernel sum" % (bshape,)))
                    vb = np.asarray(rs.randn(*bshape) + 1j * rs.randn(*bshape))
                    gg0 = sp.gridding(vb, cb, list(bshape) + list(grid), kernel=kern, width=tuple(widths), param=tuple([par] * nd))
                    exg0 = (vb.reshape(bshape + (1,)) * W1[0]).reshape(bshape + tuple(grid))
                    if np.shape(gg0) != bshape + tuple(grid) or not core.allclose(gg0, exg0, atol=tol * max(1.0, float(np.abs(vb).max() * np.abs(W1).max())), rtol=0):
                        out.append((["C07"], "gridding_value", "gridding with a bare (ndim,) coordinate and batch shape %s is not the transpose of the kernel sum" % (bshape,)))
                except Exception as e:
                    out.append((["C07"], "exception", "a bare (ndim,) coordinate with batch shape %s raised %r" % (bshape, e)))
        # batch axis
        gb = rs.randn(2, *grid) + 1j * rs.randn(2, *grid)
        yb = sp.interpolate(gb, coord, kernel=kern, width=tuple(widths), param=tuple([par] * nd))
        exb = gb.reshape(2, -1) @ W.T
        if yb.shape != (2, 2) or not core.allclose(yb, exb, atol=tol * max(1.0, float((np.abs(gb.reshape(2, -1)) @ np.abs(W.T)).max())), rtol=0):
            out.append((["C07"], "batch_value", "interpolate with a batch axis differs from the per-batch kernel sum"))
        # the operators (C01 / C04)
        A = sp.linop.Interpolate(grid, coord, kernel=kern, width=tuple(widths), param=tuple([par] * nd))
        F, d1 = linop_build.dense(A)
        G, d2 = linop_build.dense(A.H)
        if F is None or G is None:
            out.append((["C03"], "linop_shape", "Interpolate/Gridding linop output shape not advertised"))
        else:
            if not core.allclose(F, W, atol=tol * max(1.0, np.abs(W).max()), rtol=0):
                out.append((["C07"], "linop_forward", "Interpolate linop differs from the documented kernel sum"))
            if not core.allclose(G, F.conj().T, atol=1e-12 * max(1.0, np.abs(F).max()), rtol=0):
                out.append((["C01"], "adjoint_matrix", "<Ax,y> != <x,A^H y> for Interpolate(width=%s): max |diff| %.3g" % (widths, np.abs(G - F.conj().T).max())))
            if list(A.H.ishape) != list(A.oshape) or list(A.H.oshape) != list(A.ishape):
                out.append((["C01"], "adjoint_shape", "Interpolate.H shapes not swapped"))
            Nn, _ = linop_build.dense(A.N, check_i=False)
            if Nn is None or not core.allclose(Nn, F.conj().T @ F, atol=1e-11 * max(1.0, np.abs(F).max() ** 2), rtol=0):
                out.append((["C04"], "normal_matrix", "Interpolate.N differs from A^H A"))
            HH, _ = linop_build.dense(A.H.H, check_i=False)
            if HH is None or not core.allclose(HH, F, atol=1e-12 * max(1.0, np.abs(F).max())):
                out.append((["C01"], "adjoint_involution", "Interpolate.H.H does not act like the original"))
            # the adjoint-type class built directly with the same (non-default) kernel / width / param, and its own adjoint
            try:
                B = sp.linop.Gridding(grid, coord, kernel=kern, width=tuple(widths), param=tuple([par] * nd))
                Bm, _ = linop_build.dense(B, check_i=False)
                BH, _ = linop_build.dense(B.H, check_i=False)
                if Bm is None or not core.allclose(Bm, F.conj().T, atol=1e-12 * max(1.0, np.abs(F).max()), rtol=0):
                    out.append((["C01"], "adjoint_matrix", "Gridding(...) built directly is not the conjugate transpose of Interpolate(...) with the same arguments"))
                if BH is None or not core.allclose(BH, F, atol=1e-12 * max(1.0, np.abs(F).max()), rtol=0):
                    out.append((["C01"], "adjoint_matrix", "Gridding(...).H does not act like Interpolate(...) with the same arguments"))
            except Exception as e:
                out.append((["C01"], "exception", "Gridding linop raised %r" % (e,)))
            for kind, dd in d1 + d2:
                out.append((["C02"], kind, dd))
    return st["cfg"], out


def grids_3d_states(ctx):
    """A few 3-D configurations (the TLC configs stay 1-D / 2-D for size); windows computed by the same rule in exact rationals."""
    return []


def run(ctx):
    r = core.EngineResult("interp")
    wd = tlc.fresh_dir("interp_%s" % ctx.tier)
    if ctx.thorough:
        grids = "{<<n>> : n \\in 1..6} \\cup {<<a, b>> : a \\in 1..4, b \\in 1..4} \\cup {<<2, 3, 2>>, <<1, 2, 3>>, <<3, 3, 2>>}"
        c1 = "{R(k, 4) : k \\in (-30)..30}"
        c2 = "{R(k, 4) : k \\in {-13, -9, -4, -2, -1, 0, 1, 3, 6, 10, 14}}"
        axw = "{<<R(4, 1), R(2, 1)>>, <<R(3, 2), R(3, 1)>>, <<R(1, 1), R(5, 2)>>, <<R(2, 1), R(4, 1)>>, <<R(5, 2), R(3, 2)>>, <<R(2, 1), R(3, 1), R(4, 1)>>, <<R(4, 1), R(4, 1), R(2, 1)>>}"
    else:
        grids = "{<<n>> : n \\in 1..5} \\cup {<<a, b>> : a \\in 1..3, b \\in 2..3} \\cup {<<2, 3, 2>>}"
        c1 = "{R(k, 4) : k \\in {-26, -9, -6, -4, -2, -1, 0, 1, 2, 3, 5, 6, 8, 10, 18}}"
        c2 = "{R(k, 4) : k \\in {-9, -2, 0, 1, 6}}"
        axw = "{<<R(4, 1), R(2, 1)>>, <<R(3, 2), R(3, 1)>>, <<R(1, 1), R(5, 2)>>, <<R(2, 1), R(4, 1)>>, <<R(2, 1), R(3, 1), R(4, 1)>>, <<R(4, 1), R(3, 1), R(2, 1)>>}"
    body = "EXTENDS Interp\nMCGrids == %s\nMCCoords == %s\nMCCoords2 == %s\nMCWidths == {R(1, 1), R(3, 2), R(2, 1), R(5, 2), R(3, 1), R(4, 1)}\nMCAxisW == %s\n" % (grids, c1, c2, axw)
    cfg = ('INIT Init\nNEXT Next\nCONSTANTS\n Grids <- MCGrids\n CoordVals <- MCCoords\n Coords2 <- MCCoords2\n Widths <- MCWidths\n AxisWidths <- MCAxisW\n Kernels = {"spline0", "spline1", "spline2", "kb"}\n'
           + "".join("INVARIANT %s\n" % i for i in INVS))
    tlc.write_mc(wd, "MC_Interp", body, cfg)
    res = tlc.run_tlc(wd, "MC_Interp", dump=True, coverage=False, timeout=3000)
    r.add_tlc(res, "Interp")
    if res.violated:
        r.machinery_error = "Interp.tla: law %s fails on the documented kernel-sum meaning" % res.violated
        return r
    if r.machinery_error:
        return r
    jobs = []
    k = 0
    rr = ctx.rng("interp_subset")
    for st in tlaval.read_dump(res.dump_path):
        if not st["cfg"]["called"]:
            continue
        k += 1
        if not ctx.thorough and len(st["cfg"]["grid"]) >= 2 and rr.random() > 0.5:
            continue
        jobs.append((st, ctx.seed * 7919 + k))
    _sp()
    with mp.get_context("fork").Pool(16) as pool:
        results = pool.map(check_state, jobs, chunksize=32)
    for cfg_, out in results:
        r.traces += 1
        r.evaluations += 1
        r.nontrivial += 1
        for props, kind, detail in out:
            key = {"kind": kind, "grid": list(cfg_["grid"]), "kernel": cfg_["kernel"], "widths": [str(fr(w)) for w in cfg_["widths"]], "point": [str(fr(c)) for c in cfg_["pts"][0]],
                   "per_axis_widths_differ": len({fr(w) for w in cfg_["widths"]}) > 1}
            r.violations.append(core.Violation(props, "interp", key, detail, {}))
        if len(r.samples) < 4 and r.traces % 1500 == 1:
            r.samples.append({"grid": list(cfg_["grid"]), "kernel": cfg_["kernel"], "widths": [str(fr(w)) for w in cfg_["widths"]], "point": [str(fr(c)) for c in cfg_["pts"][0]]})
    r.exhaustive = bool(ctx.thorough)
    r.notes.append("%d of %d enumerated calls replayed (interpolate, gridding, batch, linop adjoint/normal)" % (len(jobs), k))
    for p in ("C07", "C01", "C04"):
        r.count(p, r.traces, r.evaluations, r.nontrivial)
    return r
