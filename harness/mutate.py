"""Systematic single-site mutation of the code under test (complements the hand-seeded changes of DESIGN 13.5).

usage: python -m harness.mutate <stream> <repo-relative file> <props: C08,C01> [--funcs f1,f2] [--max N] [--seed S] [--out file.jsonl]

For every selected mutation site the file is rewritten in a scratch worktree (/var/tmp/sigpy-mut-<stream>, never /repo), the quick
checks of the given properties are run against it (SIGPY_REPO) until one reports a violation, and one JSON line per mutant is
appended to the output: {"file", "line", "func", "op", "before", "after", "result": "caught:Cxx" | "held" | "machinery:Cxx" | "stillborn"}.
"held" mutants need a human look: equivalent mutant, behaviour no listed property speaks of, or a gap in the checks.

Mutation operators (one site each, located with `ast`, applied on the source text so that nothing else changes):
  cmp      <  <->  <=,  >  <->  >=,  ==  <->  !=
  arith    +  <->  -,   *  <->  /,   //  ->  /   (binary operators between names / calls / subscripts / numbers)
  aug      +=  ->  =,  -=  ->  +=,  *=  ->  /=,  /=  ->  *=
  const    integer literal n -> n + 1 (0 -> 1, 1 -> 2, 2 -> 1, -1 -> -2 by the unary form)
  bool     and <-> or,  `not x` -> `x`
  kwdrop   a keyword argument removed from a call
  conj     xp.conj(e) / np.conj(e) / e.conj() -> e
  idx      subscript index  0 <-> -1,  -1 <-> -2
"""
import argparse
import ast
import json
import os
import random
import subprocess
import sys
import time

ROOT = os.path.dirname(os.path.dirname(os.path.abspath(__file__)))
SKIP_WORDS = ("cupy", "cuda", "cudnn", "pbar", "repr_str", "__repr__", "device", "comm", "nccl", "mpi", "warn", "_verif", "config.")


def seg(src_lines, node):
    return ast.get_source_segment("".join(src_lines), node)


class Finder(ast.NodeVisitor):
    def __init__(self, src, funcs):
        self.src = src
        self.lines = src.splitlines(keepends=True)
        self.offs = [0]
        for ln in self.lines:
            self.offs.append(self.offs[-1] + len(ln))
        self.funcs = funcs
        self.stack = []
        self.sites = []   # (start, end, replacement, op, func, lineno)

    def pos(self, lineno, col):
        # col is in utf8 bytes; the sources are ascii
        return self.offs[lineno - 1] + col

    def span(self, node):
        return self.pos(node.lineno, node.col_offset), self.pos(node.end_lineno, node.end_col_offset)

    def add(self, a, b, repl, op, lineno):
        fn = ".".join(self.stack) or "<module>"
        if self.funcs and not any(f in self.stack for f in self.funcs):
            return
        line = self.lines[lineno - 1]
        if any(w in line for w in SKIP_WORDS):
            return
        self.sites.append((a, b, repl, op, fn, lineno))

    def visit_If(self, node):
        t = ast.get_source_segment(self.src, node.test) or ""
        if any(w in t for w in ("cupy_enabled", "cudnn_enabled", "nccl_enabled", "mpi4py_enabled", "pytorch_enabled", "!= backend.cpu_device", "device != ", "xp != np", "xp == cp")):
            for st in node.orelse:       # only the CPU side is exercised here
                self.visit(st)
            return
        if any(w in t for w in ("== backend.cpu_device", "xp == np")):
            self.visit(node.test)
            for st in node.body:
                self.visit(st)
            return
        self.generic_visit(node)

    def visit_FunctionDef(self, node):
        if any(w in node.name for w in ("cuda", "cudnn", "_gpu")):
            return
        self.stack.append(node.name)
        # skip the docstring
        body = node.body
        if body and isinstance(body[0], ast.Expr) and isinstance(getattr(body[0], "value", None), ast.Constant) and isinstance(body[0].value.value, str):
            body = body[1:]
        for dec in node.decorator_list:
            pass
        for st in body:
            self.visit(st)
        self.stack.pop()

    visit_AsyncFunctionDef = visit_FunctionDef

    def visit_ClassDef(self, node):
        self.stack.append(node.name)
        for st in node.body:
            self.visit(st)
        self.stack.pop()

    def visit_Raise(self, node):
        return   # error messages are not behaviour

    def visit_Compare(self, node):
        if len(node.ops) == 1:
            a = self.span(node.left)[1]
            b = self.span(node.comparators[0])[0]
            txt = self.src[a:b]
            swaps = {ast.Lt: ("<", "<="), ast.LtE: ("<=", "<"), ast.Gt: (">", ">="), ast.GtE: (">=", ">"), ast.Eq: ("==", "!="), ast.NotEq: ("!=", "==")}
            t = type(node.ops[0])
            if t in swaps and txt.count(swaps[t][0]) >= 1:
                self.add(a, b, txt.replace(swaps[t][0], swaps[t][1], 1), "cmp", node.lineno)
        self.generic_visit(node)

    def visit_BinOp(self, node):
        a = self.span(node.left)[1]
        b = self.span(node.right)[0]
        txt = self.src[a:b]
        swaps = {ast.Add: ("+", "-"), ast.Sub: ("-", "+"), ast.Mult: ("*", "/"), ast.Div: ("/", "*"), ast.FloorDiv: ("//", "/")}
        t = type(node.op)
        if t in swaps and txt.strip(" ()\n\\") == swaps[t][0]:
            # do not touch string formatting / list concatenation
            if not (isinstance(node.left, (ast.Constant, ast.List, ast.Tuple, ast.JoinedStr)) and isinstance(getattr(node.left, "value", None), str)) and not isinstance(node.left, (ast.List, ast.Tuple)) and not isinstance(node.right, (ast.List, ast.Tuple)):
                self.add(a, b, txt.replace(swaps[t][0], swaps[t][1], 1), "arith", node.lineno)
        self.generic_visit(node)

    def visit_AugAssign(self, node):
        a = self.span(node.target)[1]
        b = self.span(node.value)[0]
        txt = self.src[a:b]
        swaps = {ast.Add: ("+=", "="), ast.Sub: ("-=", "+="), ast.Mult: ("*=", "/="), ast.Div: ("/=", "*=")}
        t = type(node.op)
        if t in swaps and swaps[t][0] in txt:
            self.add(a, b, txt.replace(swaps[t][0], swaps[t][1], 1), "aug", node.lineno)
        self.generic_visit(node)

    def visit_Constant(self, node):
        if isinstance(node.value, int) and not isinstance(node.value, bool) and 0 <= node.value <= 4:
            a, b = self.span(node)
            if self.src[a:b] == str(node.value):
                self.add(a, b, {0: "1", 1: "2", 2: "1", 3: "2", 4: "3"}[node.value], "const", node.lineno)

    def visit_BoolOp(self, node):
        if len(node.values) == 2:
            a = self.span(node.values[0])[1]
            b = self.span(node.values[1])[0]
            txt = self.src[a:b]
            w = (" and ", " or ") if isinstance(node.op, ast.And) else (" or ", " and ")
            if w[0] in txt:
                self.add(a, b, txt.replace(w[0], w[1], 1), "bool", node.lineno)
        self.generic_visit(node)

    def visit_UnaryOp(self, node):
        if isinstance(node.op, ast.Not):
            a, b = self.span(node)
            oa, ob = self.span(node.operand)
            self.add(a, b, "(" + self.src[oa:ob] + ")", "bool", node.lineno)
        self.generic_visit(node)

    def visit_Call(self, node):
        # keyword dropped
        args_all = list(node.args) + [k.value for k in node.keywords]
        for k in node.keywords:
            if k.arg is None:
                continue
            ka = self.pos(k.lineno, k.col_offset) if hasattr(k, "lineno") else None
            if ka is None:
                continue
            kb = self.span(k.value)[1]
            # extend to the preceding comma (or following one if first)
            j = ka - 1
            while j >= 0 and self.src[j] in " \n\t":
                j -= 1
            if j >= 0 and self.src[j] == ",":
                self.add(j, kb, "", "kwdrop", k.value.lineno)
        # conj(e) -> e
        f = node.func
        if isinstance(f, ast.Attribute) and f.attr in ("conj", "conjugate"):
            a, b = self.span(node)
            if len(node.args) == 1 and not node.keywords:
                ea, eb = self.span(node.args[0])
                self.add(a, b, "(" + self.src[ea:eb] + ")", "conj", node.lineno)
            elif not node.args:
                ea, eb = self.span(f.value)
                self.add(a, b, "(" + self.src[ea:eb] + ")", "conj", node.lineno)
        self.generic_visit(node)

    def visit_Subscript(self, node):
        sl = node.slice
        if isinstance(sl, ast.Constant) and sl.value == 0:
            a, b = self.span(sl)
            self.add(a, b, "-1", "idx", node.lineno)
        elif isinstance(sl, ast.UnaryOp) and isinstance(sl.op, ast.USub) and isinstance(sl.operand, ast.Constant) and sl.operand.value in (1, 2):
            a, b = self.span(sl)
            self.add(a, b, "-2" if sl.operand.value == 1 else "-1", "idx", node.lineno)
        self.generic_visit(node)


def find_sites(src, funcs):
    f = Finder(src, funcs)
    f.visit(ast.parse(src))
    # de-duplicate identical spans
    seen, out = set(), []
    for s in f.sites:
        if (s[0], s[1], s[2]) not in seen:
            seen.add((s[0], s[1], s[2]))
            out.append(s)
    return out


def run_check(scratch, prop, timeout):
    env = dict(os.environ, SIGPY_REPO=scratch)
    try:
        p = subprocess.run([os.path.join(ROOT, "check"), prop], cwd=ROOT, env=env, stdout=subprocess.PIPE, stderr=subprocess.STDOUT, text=True, timeout=timeout)
    except subprocess.TimeoutExpired:
        return "timeout", ""
    out = p.stdout
    detail = ""
    for ln in out.splitlines():
        if ln.startswith("VIOLATION"):
            detail = ln
            break
    if p.returncode == 1 and detail:
        return "caught", detail
    if p.returncode == 0:
        return "held", ""
    return "machinery", out[-600:]


def main():
    ap = argparse.ArgumentParser()
    ap.add_argument("stream")
    ap.add_argument("file")
    ap.add_argument("props")
    ap.add_argument("--funcs", default="")
    ap.add_argument("--max", type=int, default=40)
    ap.add_argument("--seed", type=int, default=0)
    ap.add_argument("--ops", default="")
    ap.add_argument("--out", default=None)
    ap.add_argument("--timeout", type=int, default=900)
    ap.add_argument("--list", action="store_true")
    ap.add_argument("--lines", default="", help="only the sites on these source lines (re-test of recorded mutants)")
    a = ap.parse_args()
    props = a.props.split(",")
    funcs = [f for f in a.funcs.split(",") if f]
    with open(os.path.join("/repo", a.file)) as f:
        src = f.read()
    sites = find_sites(src, funcs)
    if a.ops:
        sites = [s for s in sites if s[3] in a.ops.split(",")]
    if a.lines:
        want = {int(v) for v in a.lines.split(",")}
        sites = [s for s in sites if s[5] in want]
    rng = random.Random("%s/%s/%s" % (a.file, a.funcs, a.seed))
    rng.shuffle(sites)
    sites = sites[: a.max]
    if a.list:
        for s in sorted(sites, key=lambda s: s[5]):
            print(s[5], s[3], s[4], repr(src[s[0]:s[1]]), "->", repr(s[2]))
        print(len(sites), "sites")
        return 0
    out = a.out or os.path.join(ROOT, "mutation", a.file.replace("/", "_") + ".jsonl")
    os.makedirs(os.path.dirname(out), exist_ok=True)
    scratch = "/var/tmp/sigpy-mut-%s" % a.stream
    subprocess.run(["git", "-C", "/repo", "worktree", "remove", "--force", scratch], stdout=subprocess.DEVNULL, stderr=subprocess.DEVNULL)
    subprocess.run(["git", "-C", "/repo", "worktree", "prune"])
    if subprocess.run(["git", "-C", "/repo", "worktree", "add", "-q", "--detach", scratch, "HEAD"]).returncode != 0:
        return 2
    try:
        for (s0, s1, repl, op, fn, lineno) in sites:
            mutated = src[:s0] + repl + src[s1:]
            try:
                compile(mutated, a.file, "exec")
            except SyntaxError:
                continue
            with open(os.path.join(scratch, a.file), "w") as f:
                f.write(mutated)
            before = src.splitlines()[lineno - 1].strip()
            after = mutated.splitlines()[lineno - 1].strip() if lineno - 1 < len(mutated.splitlines()) else ""
            rec = {"file": a.file, "line": lineno, "func": fn, "op": op, "before": before[:160], "after": after[:160], "span": [src[s0:s1], repl]}
            imp = subprocess.run(["/venv/bin/python", "-c", "import sigpy, sigpy.mri, sigpy.mri.rf"], cwd=scratch, env=dict(os.environ, PYTHONPATH=scratch), stdout=subprocess.PIPE, stderr=subprocess.STDOUT)
            t0 = time.time()
            if imp.returncode != 0:
                rec["result"] = "stillborn"
            else:
                rec["result"] = "held"
                for p in props:
                    res, detail = run_check(scratch, p, a.timeout)
                    if res == "caught":
                        rec["result"] = "caught:" + p
                        rec["detail"] = detail[:200]
                        break
                    if res in ("machinery", "timeout"):
                        rec["result"] = "%s:%s" % (res, p)
                        rec["detail"] = detail[-300:]
                        break
            rec["wall_s"] = round(time.time() - t0, 1)
            with open(out, "a") as f:
                f.write(json.dumps(rec) + "\n")
            print("%s:%d %-6s %-28s %s   [%s -> %s]" % (a.file, lineno, op, fn[:28], rec["result"], before[:60], after[:60]), flush=True)
    finally:
        subprocess.run(["git", "-C", "/repo", "worktree", "remove", "--force", scratch], stdout=subprocess.DEVNULL, stderr=subprocess.DEVNULL)
    return 0


if __name__ == "__main__":
    sys.exit(main())
