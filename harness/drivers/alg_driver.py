"""Runs in a subprocess with SIGPY_VERIF_TRACE set: drives real Alg / App objects
along call sequences taken from TLC behaviours of AlgLoop.tla, and emits extra
`probe` events (early-stop fixed-point probe) into the same trace.

usage: python -m harness.drivers.alg_driver jobs.json targets.json
"""
import json
import sys
import warnings

import numpy as np


def problem(n, seed, cplx=False):
    rs = np.random.RandomState(seed)
    A = np.eye(n) + 0.3 * rs.randn(n, n)
    if cplx:
        A = A + 0.3j * rs.randn(n, n)
    x = rs.randn(n) + (1j * rs.randn(n) if cplx else 0)
    y = A @ x
    return A, x, y


class Failing:
    pass


def make(cls, max_iter, seed, variant):
    """Returns (alg or app, solution_arrays_fn, is_app)."""
    import sigpy as sp
    from sigpy import alg, app, linop, prox

    n = 4
    A, xt, y = problem(n, seed, cplx=(variant % 2 == 1))
    dt = y.dtype
    L = np.linalg.norm(A, 2) ** 2
    if cls == "PowerMethod":
        x = np.random.RandomState(seed).randn(n).astype(dt)
        a = alg.PowerMethod(lambda v: A.conj().T @ (A @ v), x, max_iter=max_iter)
        return a, lambda: [a.x], False
    if cls == "GradientMethod":
        x = np.zeros(n, dtype=dt)
        lam = [0.0, 0.05, 1e3][variant % 3]  # 1e3: zero is the true minimiser -> genuine early stop
        if variant % 4 == 1:
            # warm start exactly at the minimiser of the smooth part: grad f(x0) = 0 but the prox still moves x
            A = np.diag(np.arange(1, n + 1)).astype(dt)
            y = (A @ np.arange(1, n + 1)).astype(dt)
            x = np.arange(1, n + 1).astype(dt)
            L = float(n) ** 2
            lam = 0.5
        pg = None if lam == 0 else prox.L1Reg([n], lam)
        a = alg.GradientMethod(lambda v: A.conj().T @ (A @ v - y), x, 1 / L, proxg=pg, accelerate=(variant // 3) % 2 == 1, max_iter=max_iter, tol=0)
        return a, lambda: [a.x], False
    if cls == "ConjugateGradient":
        x = np.zeros(n, dtype=dt)
        H = A.conj().T @ A
        b = A.conj().T @ y
        if variant % 4 == 2:
            b = np.zeros(n, dtype=dt)  # already solved: residual exactly zero
        if variant % 4 == 3:
            H = -H  # breakdown
        if variant % 2 == 0:
            a = alg.ConjugateGradient(lambda v: H @ v, b, x, max_iter=max_iter, tol=0)
        else:
            a = alg.ConjugateGradient(lambda v: H @ v, b, x, P=lambda r: r / np.abs(np.diag(H)), max_iter=max_iter, tol=0)
        return a, lambda: [a.x], False
    if cls == "PrimalDualHybridGradient":
        x = np.zeros(n, dtype=dt)
        u = np.zeros(n, dtype=dt)
        lam = [0.05, 0.05, 1e3][variant % 3]
        sigma = [1.0, 0.01, 1.0][variant % 3]
        tau = 1 / (sigma * L)
        theta = [1, 1, 1, 0, 0.5, 0][variant % 6]       # user-supplied extrapolation factor (Arrow-Hurwicz for 0)
        if variant % 2 == 0:
            # data term through the dual, sparsity through the primal prox
            a = alg.PrimalDualHybridGradient(prox.L2Reg([n], 1, y=-y), prox.L1Reg([n], lam), lambda v: A @ v, lambda v: A.conj().T @ v,
                                             x, u, tau, sigma, theta=theta, max_iter=max_iter, tol=0)
        else:
            # min 1/2 |x - y|^2 + lam |A x|_1: the dual prox clips (from a zero start the dual does not move while the primal does)
            a = alg.PrimalDualHybridGradient(prox.Conj(prox.L1Reg([n], [5.0, 0.05][variant % 2])), prox.L2Reg([n], 1, y=y), lambda v: A @ v, lambda v: A.conj().T @ v,
                                             x, u, tau, sigma, theta=theta, max_iter=max_iter, tol=0)
        return a, lambda: [a.x, a.u], False
    if cls == "AltMin":
        x = np.zeros(n, dtype=dt)
        z = np.zeros(n, dtype=dt)

        def min1():
            x[:] = np.linalg.solve(A.conj().T @ A + np.eye(n), A.conj().T @ y + z)

        def min2():
            z[:] = x / 2

        a = alg.AltMin(min1, min2, max_iter=max_iter)
        return a, lambda: [x, z], False
    if cls == "AugmentedLagrangianMethod":
        mu, lam = 1.0, 0.1
        xz = np.zeros(2 * n, dtype=dt)
        v = np.zeros(n, dtype=dt)

        def minL():
            xx, zz = xz[:n], xz[n:]
            xx[:] = np.linalg.solve(A.conj().T @ A + mu * np.eye(n), A.conj().T @ y - v + mu * zz)
            zz[:] = (mu * xx + v) / (mu + lam)

        a = alg.AugmentedLagrangianMethod(minL, None, lambda q: q[:n] - q[n:], xz, None, v, mu, max_iter=max_iter)
        return a, lambda: [a.x, a.v], False
    if cls == "ADMM":
        Aop = linop.MatMul([n, 1], A)
        ap = app.LinearLeastSquares(Aop, y.reshape(n, 1), proxg=prox.L1Reg([n, 1], 0.05), solver="ADMM", max_iter=max_iter, max_cg_iter=3, show_pbar=False)
        return ap, lambda: [ap.alg.x, ap.alg.z, ap.alg.u], True
    if cls == "SDMM":
        Ar = np.real(A)
        Aop = linop.MatMul([n, 1], Ar)
        Ls = [np.eye(n)]
        if variant % 3 == 1:
            # two explicit constraints: a tight ball on x that keeps moving for many updates, listed FIRST, and a slack constraint
            # on a coordinate the data keep at exactly zero (converged from the first update), listed LAST
            Aop = linop.MatMul([n, 1], np.diag(np.arange(1.0, n + 1)))
            d = np.ones((n, 1))
            d[-1] = 0
            sel = np.zeros((1, n))
            sel[0, -1] = 1
            a = alg.SDMM(Aop, d, 0.1, [np.eye(n), sel], [0.01, 1.0], 1.0, [1.0, 1.0], 1.0, 1.0, eps_pri=0, eps_dual=0, max_cg_iter=5, max_iter=max_iter)
            return a, lambda: [a.x] + list(a.z) + list(a.u), False
        if variant % 3 == 2:
            a = alg.SDMM(Aop, np.real(y).reshape(n, 1), 0.1, Ls, [0.5], 1.0, [1.0], 1.0, 1.0, eps_pri=0, eps_dual=0, c_max=0.3, c_norm=1.0, max_cg_iter=3, max_iter=max_iter)
            return a, lambda: [a.x], False
        a = alg.SDMM(Aop, np.real(y).reshape(n, 1), 0.1, Ls, [100.0], 1.0, [1.0], 1, 1, eps_pri=0, eps_dual=0, max_cg_iter=3, max_iter=max_iter)
        return a, lambda: [a.x], False
    if cls == "NewtonsMethod":
        x = np.zeros(n, dtype=dt)
        H = A.conj().T @ A + 0.1 * np.eye(n)
        Hi = np.linalg.inv(H)
        beta = 1 if variant % 2 == 0 else 0.5
        f = None if beta == 1 else (lambda v: 0.5 * np.linalg.norm(A @ v - y) ** 2 + 0.05 * np.linalg.norm(v) ** 2)
        a = alg.NewtonsMethod(lambda v: A.conj().T @ (A @ v - y) + 0.1 * v, lambda v: (lambda g: Hi @ g), x, beta=beta, f=f, max_iter=max_iter, tol=0)
        return a, lambda: [a.x], False
    if cls == "GerchbergSaxton":
        Aop = linop.MatMul([n, 1], A.astype(np.complex128))
        yy = np.abs(A @ xt).reshape(n, 1).astype(np.complex128)
        x0 = np.zeros([n, 1], dtype=np.complex128)
        if variant % 3 == 1:
            # start exactly consistent with the magnitudes (|A x0| = y): with a Tikhonov term the update still moves x
            x0 = xt.reshape(n, 1).astype(np.complex128)
        a = alg.GerchbergSaxton(Aop, yy, x0, max_iter=max_iter, tol=0, lamb=[0.1, 1.0][(variant // 3) % 2])
        return a, lambda: [a.x], False
    if cls == "FailingAlg":
        class FailingAlg(alg.Alg):
            def __init__(self, max_iter):
                self.k = 0
                super().__init__(max_iter)

            def _update(self):
                self.k += 1
                if self.k % 2 == 0:
                    raise ValueError("injected failure")

        a = FailingAlg(max_iter)
        return a, lambda: [], False
    # ---- Apps
    Aop = linop.MatMul([n, 1], A)
    y1 = y.reshape(n, 1)
    if cls == "MaxEig":
        ap = app.MaxEig(Aop.N, dtype=dt, max_iter=max_iter, show_pbar=False)
        return ap, lambda: [ap.x], True
    if cls.startswith("LLS_"):
        solver = cls[4:]
        kw = dict(max_iter=max_iter, show_pbar=(variant % 5 == 4), leave_pbar=False, tol=0)
        if solver == "ConjugateGradient":
            ap = app.LinearLeastSquares(Aop, y1, lamda=0.1 * (variant % 2), solver=solver, **kw)
        elif solver == "GradientMethod":
            ap = app.LinearLeastSquares(Aop, y1, proxg=prox.L1Reg([n, 1], [0.05, 1e3][variant % 2]), solver=solver, **kw)
        elif solver == "PrimalDualHybridGradient":
            G = linop.FiniteDifference([n, 1], axes=[0]) if variant % 2 == 0 else None
            pg = prox.L1Reg(G.oshape if G is not None else [n, 1], 0.05)
            ap = app.LinearLeastSquares(Aop, y1, proxg=pg, G=G, solver=solver, sigma=[1.0, 0.01][(variant // 2) % 2], **kw)
        else:
            ap = app.LinearLeastSquares(Aop, y1, proxg=prox.L1Reg([n, 1], 0.05), solver="ADMM", max_iter=max_iter, max_cg_iter=3, show_pbar=False)
        sol = (lambda: [ap.alg.x, ap.alg.u]) if solver == "PrimalDualHybridGradient" else (lambda: [ap.x])
        return ap, sol, True
    if cls.startswith("MRI_"):
        import sigpy.mri as mr

        rs = np.random.RandomState(seed)
        shape = (6, 6) if variant % 2 == 0 else (5, 6)
        nc = 3
        mps = rs.randn(nc, *shape) + 1j * rs.randn(nc, *shape)
        img = rs.randn(*shape) + 1j * rs.randn(*shape)
        ksp = sp.fft(mps * img, axes=(-2, -1))
        if variant % 3 == 1:
            ksp = ksp * (rs.rand(*shape) < 0.7)
        name = cls[4:]
        if name == "SenseRecon":
            ap = mr.app.SenseRecon(ksp, mps, lamda=[0.0, 0.01][variant % 2], max_iter=max_iter, show_pbar=False)
            return ap, lambda: [ap.x], True
        if name == "L1WaveletRecon":
            ap = mr.app.L1WaveletRecon(ksp, mps, [0.01, 1e4][variant % 2], wave_name="haar", max_iter=max_iter, show_pbar=False)
            return ap, lambda: [ap.x], True
        if name == "TotalVariationRecon":
            ap = mr.app.TotalVariationRecon(ksp, mps, 0.01, max_iter=max_iter, show_pbar=False)
            return ap, lambda: [ap.alg.x, ap.alg.u], True
        if name == "JsenseRecon":
            ap = mr.app.JsenseRecon(ksp, mps_ker_width=4, ksp_calib_width=6, lamda=0.01, max_iter=max_iter, max_inner_iter=3, show_pbar=False)
            return ap, lambda: [ap.mps_ker, ap.img_ker], True
        if name == "EspiritCalib":
            ap = mr.app.EspiritCalib(ksp, calib_width=6, kernel_width=3, max_iter=max_iter, show_pbar=False)
            return ap, lambda: [ap.alg.x], True
        raise KeyError(cls)
    if cls == "L2ConstrainedMinimization":
        ap = app.L2ConstrainedMinimization(Aop, y1, prox.L1Reg([n, 1], 1.0), 0.1, max_iter=max_iter, show_pbar=False)
        return ap, lambda: [ap.x, ap.u], True
    raise KeyError(cls)


def main():
    import sigpy as sp  # noqa: F401  (hooks active through the environment)
    from sigpy import _verif

    assert _verif.ON, "driver must run with SIGPY_VERIF_TRACE set"
    # numba compiles the thresholding ufuncs lazily per argument type and then prefers an
    # already compiled loop that the arguments can be cast to: a complex call made first
    # turns later real calls complex.  Compile the real loops first (noted in DESIGN.md).
    for dt_ in (np.float32, np.float64, np.complex64, np.complex128):
        sp.soft_thresh(0.1, np.ones(2, dtype=dt_))
        sp.hard_thresh(0.1, np.ones(2, dtype=dt_))
    jobs = json.load(open(sys.argv[1]))
    targets = []
    warnings.simplefilter("ignore")
    for k, job in enumerate(jobs):
        np.random.seed(job["seed"] % (2 ** 31))
        _verif._emit({"ev": "job", "k": k})      # boundary marker: one nested-stream trace per job (NestedTrace.tla)
        try:
            obj, sol, is_app = make(job["cls"], job["max_iter"], job["seed"], job["variant"])
        except Exception as e:  # construction failure is reported, not hidden
            targets.append({"job": k, "error": "construct: %r" % (e,)})
            continue
        a = obj.alg if is_app else obj
        rec = {"job": k, "cls": job["cls"], "uid": _verif._uid(a), "pid": _verif.os.getpid(), "max_iter": job["max_iter"],
               "variant": job["variant"], "calls": job["calls"], "obs": []}
        try:
            for c in job["calls"]:
                if c == "update":
                    try:
                        a.update()
                    except ValueError as e:
                        _verif._emit({"ev": "job.raise"})
                        if "injected" not in str(e):
                            raise
                    rec["obs"].append(["update", int(a.iter)])
                elif c == "done":
                    rec["obs"].append(["done", int(a.iter), bool(a.done())])
                elif c == "run":
                    if not is_app:
                        try:
                            while not a.done():
                                a.update()
                        except ValueError as e:
                            _verif._emit({"ev": "job.raise"})
                            if "injected" not in str(e):
                                raise
                        rec["obs"].append(["loop", int(a.iter)])
                    else:
                        out = obj.run()
                        held = obj._output()
                        same = out is held or (np.isscalar(out) and out == held)
                        if not same and job["cls"].startswith("MRI_") and not np.isscalar(out):
                            # these apps compute their output from the held state on every call (normalised maps): compare values
                            same = all(np.shape(a_) == np.shape(b_) and np.allclose(a_, b_, rtol=1e-12, atol=1e-12, equal_nan=True)
                                       for a_, b_ in zip(out if isinstance(out, tuple) else (out,), held if isinstance(held, tuple) else (held,)))
                        rec["obs"].append(["run", int(a.iter), bool(same)])
            if job.get("probe") and job["cls"] != "FailingAlg":
                d = a.done()
                if d and a.iter < a.max_iter:
                    before = [np.array(s, copy=True) for s in sol()]
                    a.update()
                    after = sol()
                    changed = any(b.shape != np.shape(c) or not np.array_equal(b, c) for b, c in zip(before, after))
                    brk = bool(getattr(a, "not_positive_definite", False))
                    _verif._emit({"ev": "probe", "uid": rec["uid"], "iter": int(a.iter) - 1, "max_iter": int(a.max_iter),
                                  "changed": int(changed), "breakdown": int(brk)})
                    rec["probe"] = {"changed": int(changed), "breakdown": int(brk), "at_iter": int(a.iter) - 1}
        except Exception as e:
            _verif._emit({"ev": "job.raise"})
            rec["error"] = "drive: %r" % (e,)
        targets.append(rec)
    json.dump(targets, open(sys.argv[2], "w"))


if __name__ == "__main__":
    main()
