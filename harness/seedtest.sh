#!/bin/sh
# usage: harness/seedtest.sh <PID> <seed-name> <prop> [prop...]
# Verifies a sub-agent's seed (demo fails with / passes without the change), stores it under seeded/<seed-name>,
# then runs the given checks against a SCRATCH COPY of /repo with the patch applied (/repo itself is not touched).
PID=$1; NAME=$2; shift 2
W=/tmp/mut/$PID
if [ -d "$W/_seed" ]; then
  cd $W
  PYTHONPATH=$W /venv/bin/python _seed/demo.py >/dev/null 2>&1; echo "demo with change: exit $?"
  git apply -R _seed/patch.diff && PYTHONPATH=$W /venv/bin/python _seed/demo.py >/dev/null 2>&1; echo "demo without change: exit $?"
  git apply _seed/patch.diff
  mkdir -p /verif/seeded/$NAME && cp _seed/patch.diff _seed/demo.py _seed/meta.json /verif/seeded/$NAME/
  git -C /repo worktree remove --force $W
fi
S=/var/tmp/sigpy-seedtest-$$
rm -rf $S; git -C /repo worktree prune; git -C /repo worktree add -q --detach $S HEAD || exit 2
git -C $S apply /verif/seeded/$NAME/patch.diff || { git -C /repo worktree remove --force $S; exit 2; }
cd /verif
for p in "$@"; do SIGPY_REPO=$S ./check $p 2>&1 | tail -3 | cut -c1-260; done
git -C /repo worktree remove --force $S
exit 0
