#!/bin/sh
# usage: harness/seedtest.sh <PID> <seed-name> <prop> [prop...]   (verifies a sub-agent's seed and runs the given checks against it)
PID=$1; NAME=$2; shift 2
W=/tmp/mut/$PID
if [ -d "$W/_seed" ]; then
  cd $W
  PYTHONPATH=$W /venv/bin/python _seed/demo.py >/dev/null 2>&1; echo "demo with change: exit $?"
  git apply -R _seed/patch.diff && PYTHONPATH=$W /venv/bin/python _seed/demo.py >/dev/null 2>&1; echo "demo without change: exit $?"
  git apply _seed/patch.diff
  mkdir -p /verif/seeded/$NAME && cp _seed/patch.diff _seed/demo.py _seed/meta.json /verif/seeded/$NAME/
fi
cd /repo && git apply /verif/seeded/$NAME/patch.diff || exit 2
cd /verif
for p in "$@"; do ./check $p 2>&1 | tail -3 | cut -c1-260; done
git -C /repo checkout -- . ; git -C /repo status --short | head -2
[ -d "$W" ] && git -C /repo worktree remove --force $W
exit 0
