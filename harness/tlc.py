"""Run TLC / SANY on the specifications under /verif/spec.

Generated wrapper modules (MC_*.tla with literal constants) and configs live
in a scratch directory under /verif/.work; the design modules are found through
-DTLA-Library=/verif/spec.
"""
import glob
import os
import re
import shutil
import subprocess
import time

ROOT = os.path.dirname(os.path.dirname(os.path.abspath(__file__)))
SPEC_DIR = os.environ.get("VERIF_SPEC_DIR") or os.path.join(ROOT, "spec")
WORK = os.path.join(ROOT, ".work")
JARS = "/opt/veriftools/tla/tla2tools.jar:/opt/veriftools/tla/CommunityModules-deps.jar"


class TlcResult:
    def __init__(self):
        self.ok = False
        self.timed_out = False
        self.generated = 0
        self.distinct = 0
        self.depth = 0
        self.violated = None  # name of violated invariant / property
        self.error = None  # first error text
        self.dump_path = None
        self.sim_files = []
        self.actions = {}  # action name -> (distinct, total) from -coverage
        self.wall_s = 0.0
        self.cmd = ""
        self.stdout = ""
        self.printed = []  # PrintT lines

    def summary(self):
        return {
            "ok": self.ok,
            "generated": self.generated,
            "distinct": self.distinct,
            "depth": self.depth,
            "violated": self.violated,
            "error": self.error,
            "wall_s": round(self.wall_s, 2),
            "actions": self.actions,
        }


def fresh_dir(name):
    """A scratch directory of this process: checks of different properties share engines and may run concurrently, so the
    directory name carries the process id; directories left by processes that no longer exist are removed."""
    os.makedirs(WORK, exist_ok=True)
    for e in os.listdir(WORK):
        if e.startswith(name + ".") and e[len(name) + 1:].isdigit():
            pid = int(e[len(name) + 1:])
            alive = True
            try:
                os.kill(pid, 0)
            except ProcessLookupError:
                alive = False
            except PermissionError:
                pass
            if not alive or pid == os.getpid():
                shutil.rmtree(os.path.join(WORK, e), ignore_errors=True)
    legacy = os.path.join(WORK, name)
    if os.path.isdir(legacy):
        shutil.rmtree(legacy, ignore_errors=True)
    d = os.path.join(WORK, "%s.%d" % (name, os.getpid()))
    os.makedirs(d)
    return d


def write_mc(workdir, name, body, cfg):
    """Write MC module `name` (body = text between header and footer) + cfg."""
    with open(os.path.join(workdir, name + ".tla"), "w") as f:
        f.write("---- MODULE %s ----\n%s\n====\n" % (name, body))
    with open(os.path.join(workdir, name + ".cfg"), "w") as f:
        f.write(cfg)
    return os.path.join(workdir, name + ".tla")


_RE_STATES = re.compile(r"(\d+) states generated, (\d+) distinct states found")
_RE_DEPTH = re.compile(r"The depth of the complete state graph search is (\d+)")
_RE_INV = re.compile(r"Invariant (\S+) is violated")
_RE_PROP = re.compile(r"(Action property|Temporal properties|Temporal property) (\S*)\s*(was|were) violated")
_RE_COV = re.compile(r"^<(\w+) line (\d+), col (\d+) to line (\d+), col (\d+) of module (\w+)>: (\d+):(\d+)")


def run_tlc(
    workdir,
    module,
    cfg=None,
    workers=16,
    timeout=900,
    dump=False,
    simulate=None,
    depth=None,
    seed=None,
    coverage=True,
    deadlock=False,
    env_extra=None,
    java_props=None,
    continue_=False,
    heap=None,
):
    """module: module name (file module.tla in workdir or in SPEC_DIR).

    simulate: None or dict(num=N, file=True|False)
    """
    res = TlcResult()
    mod_path = os.path.join(workdir, module + ".tla")
    if not os.path.exists(mod_path):
        shutil.copy(os.path.join(SPEC_DIR, module + ".tla"), mod_path)
    if cfg is None:
        cfg = module + ".cfg"
    cfg_path = cfg if os.path.isabs(cfg) else os.path.join(workdir, cfg)
    if not os.path.exists(cfg_path):
        shutil.copy(os.path.join(SPEC_DIR, "mc", os.path.basename(cfg)), cfg_path)
    meta = os.path.join(workdir, "meta_" + module)
    if os.path.isdir(meta):
        shutil.rmtree(meta)
    cmd = ["java", "-XX:+UseParallelGC", "-Xss64m"]
    if heap:
        cmd.append("-Xmx" + heap)
    cmd.append("-DTLA-Library=" + SPEC_DIR)
    for p in java_props or []:
        cmd.append("-D" + p)
    cmd += ["-cp", JARS, "tlc2.TLC", "-workers", str(workers), "-metadir", meta, "-noGenerateSpecTE"]
    if not deadlock:
        cmd.append("-deadlock")  # -deadlock DISABLES deadlock checking
    if coverage and simulate is None:
        cmd += ["-coverage", "1"]
    if continue_:
        cmd.append("-continue")
    if dump:
        res.dump_path = os.path.join(workdir, module + "_states")
        cmd += ["-dump", res.dump_path]
        res.dump_path += ".dump"
    if simulate is not None:
        spec = "num=%d" % simulate.get("num", 100)
        if simulate.get("file", True):
            simdir = os.path.join(workdir, "sim_" + module)
            if os.path.isdir(simdir):
                shutil.rmtree(simdir)
            os.makedirs(simdir)
            spec = "file=%s/tr,%s" % (simdir, spec)
        cmd += ["-simulate", spec]
        if depth is not None:
            cmd += ["-depth", str(depth)]
        if seed is not None:
            cmd += ["-seed", str(seed)]
    cmd += ["-config", cfg_path, mod_path]
    env = dict(os.environ)
    env.pop("JAVA_TOOL_OPTIONS", None)
    if env_extra:
        env.update(env_extra)
    res.cmd = " ".join(cmd)
    t0 = time.time()
    try:
        p = subprocess.run(
            cmd, cwd=workdir, env=env, stdout=subprocess.PIPE, stderr=subprocess.STDOUT, timeout=timeout, text=True
        )
        out = p.stdout
        rc = p.returncode
    except subprocess.TimeoutExpired as e:
        out = e.stdout if isinstance(e.stdout, str) else (e.stdout or b"").decode("utf8", "replace")
        rc = -9
        res.timed_out = True
        subprocess.run(["pkill", "-f", meta], check=False)
    res.wall_s = time.time() - t0
    res.stdout = out
    for m in _RE_STATES.finditer(out):
        res.generated, res.distinct = int(m.group(1)), int(m.group(2))
    m = _RE_DEPTH.search(out)
    if m:
        res.depth = int(m.group(1))
    m = _RE_INV.search(out)
    if m:
        res.violated = m.group(1)
    m = _RE_PROP.search(out)
    if m and not res.violated:
        res.violated = m.group(2) or "temporal"
    if "Temporal properties were violated" in out and not res.violated:
        res.violated = "temporal"
    for ln in out.splitlines():
        mm = _RE_COV.match(ln)
        if mm and mm.group(6) not in ("Naturals", "Integers", "Sequences"):
            nm = mm.group(1)
            d, t = int(mm.group(7)), int(mm.group(8))
            old = res.actions.get(nm, (0, 0))
            res.actions[nm] = (old[0] + d, old[1] + t)
    if simulate is not None and simulate.get("file", True):
        res.sim_files = sorted(glob.glob(os.path.join(workdir, "sim_" + module, "tr*")))
    if rc != 0 and res.violated is None:
        errs = [ln for ln in out.splitlines() if ln.startswith("Error:") or "Exception" in ln or "*** Errors" in ln]
        res.error = (errs[0] if errs else "tlc exit %d" % rc) + ("" if not res.timed_out else " (timeout)")
        # give the tail for diagnosis
        res.error += " :: " + " | ".join(out.strip().splitlines()[-6:])[:600]
    res.ok = rc == 0 and res.violated is None and res.error is None
    if os.path.isdir(meta):
        shutil.rmtree(meta, ignore_errors=True)
    return res


def sany(module_path):
    p = subprocess.run(
        ["java", "-DTLA-Library=" + SPEC_DIR, "-cp", JARS, "tla2sany.SANY", module_path],
        stdout=subprocess.PIPE,
        stderr=subprocess.STDOUT,
        text=True,
        cwd=os.path.dirname(module_path),
    )
    ok = p.returncode == 0 and "*** Errors" not in p.stdout and "Fatal" not in p.stdout and "Could not" not in p.stdout
    return ok, p.stdout


def error_trace(stdout):
    """Extract the states of a TLC error trace printed on stdout."""
    from . import tlaval

    states = []
    block = None
    for ln in stdout.splitlines():
        if re.match(r"^State \d+: ", ln):
            if block:
                states.append(tlaval._parse_conj(block))
            block = []
        elif block is not None:
            if ln.startswith("/\\ ") or (block and ln.strip() and not re.match(r"^(\d+ states|Error|The |Finished|Back to)", ln)):
                block.append(ln)
            elif ln.strip() == "":
                if block:
                    states.append(tlaval._parse_conj(block))
                block = None
    if block:
        states.append(tlaval._parse_conj(block))
    return states
