"""Every violation an engine can raise must be tagged with at least one property whose check runs that engine (registry.PROPS);
otherwise the finding is computed and never shown.  usage: /venv/bin/python -m harness.tagaudit   (exit 1 on an invisible tag)"""
import glob
import os
import re
import sys

from . import registry


def main():
    serves = {}
    for p, d in registry.PROPS.items():
        for en, mod, fn in d["engines"]:
            serves.setdefault(mod, set()).add(p)
    bad = 0
    here = os.path.join(os.path.dirname(os.path.abspath(__file__)), "engines")
    for f in sorted(glob.glob(os.path.join(here, "*.py"))):
        mod = os.path.basename(f)[:-3]
        if mod in ("linop_build", "__init__"):
            continue
        s = serves.get(mod, set())
        for i, ln in enumerate(open(f), 1):
            groups = re.findall(r'\[("C\d\d"(?:, "C\d\d")*)\]', ln)
            if not groups or "Violation(" not in ln and "out.append(" not in ln and "res.append(" not in ln:
                continue
            tags = set(re.findall(r"C\d\d", " ".join(groups)))      # (tag lists concatenated on one line count together)
            if s and not (tags & s):
                bad += 1
                print("%s:%d tags %s, engine runs under %s" % (mod, i, sorted(tags), sorted(s)))
    print("invisible tag sites: %d" % bad)
    return 1 if bad else 0


if __name__ == "__main__":
    sys.exit(main())
