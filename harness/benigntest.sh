#!/bin/sh
# usage: harness/benigntest.sh <BID|none> <name> <prop> [prop...]
# Stores a sub-agent's BEHAVIOUR-PRESERVING refactor under benign/<name> and runs the given checks against a scratch copy of /repo
# with the patch applied: every check must HOLD (a VIOLATED line here is a false alarm of the machinery, to be corrected).
PID=$1; NAME=$2; shift 2
W=/tmp/mut/$PID
if [ -d "$W/_seed" ]; then
  mkdir -p /verif/benign/$NAME && cp $W/_seed/patch.diff $W/_seed/meta.json /verif/benign/$NAME/ && cp $W/_seed/check.py /verif/benign/$NAME/ 2>/dev/null
  git -C /repo worktree remove --force $W
fi
S=/var/tmp/sigpy-benign-$$
rm -rf $S; git -C /repo worktree prune; git -C /repo worktree add -q --detach $S HEAD || exit 2
git -C $S apply /verif/benign/$NAME/patch.diff || { echo "$NAME PATCH-FAILED"; git -C /repo worktree remove --force $S; exit 2; }
cd /verif
for p in "$@"; do
  out=$(SIGPY_REPO=$S ./check $p 2>&1)
  last=$(echo "$out" | tail -1)
  case "$last" in *held*) echo "$NAME $p held";; *) echo "$NAME $p ALARM: $last"; echo "$out" | grep -A3 "^VIOLATION\|MACHINERY" | head -12 | cut -c1-300;; esac
done
git -C /repo worktree remove --force $S
exit 0
