"""./check Cxx --replay FILE : re-run one recorded violation on the current tree."""
import importlib
import json

ENGINE_MODULES = {"index_maps": "index_maps"}


def main(prop, path):
    with open(path) as f:
        d = json.load(f)
    mod = importlib.import_module("harness.engines." + ENGINE_MODULES.get(d["engine"], d["engine"]))
    if not hasattr(mod, "replay"):
        print("engine %s has no single-case replay; re-run ./check %s" % (d["engine"], prop))
        return 2
    v = mod.replay(d["payload"])
    if v:
        print("VIOLATION property=%s replay=%s" % (prop, path))
        print("   ", v)
        return 1
    print("replay: case passes on the current tree")
    return 0
