"""Regenerate /verif/MANIFEST.json from harness/registry.py (run: /venv/bin/python -m harness.manifest_gen)."""
import json
import os

from .registry import PROPS, MANIFEST_TEXT, NOT_APPLICABLE, ENGINES

ROOT = os.path.dirname(os.path.dirname(os.path.abspath(__file__)))


def main():
    checks = []
    for pid in sorted(PROPS):
        t = MANIFEST_TEXT[pid]
        checks.append({
            "property_id": pid,
            "quick_cmd": "./check %s --tier quick" % pid,
            "thorough_cmd": "./check %s --tier thorough" % pid,
            "evidence_file": "evidence/%s.json" % pid,
            "replay_cmd_template": "./check %s --replay {path}" % pid,
            "engine": ", ".join(e[0] for e in PROPS[pid]["engines"]),
            "level_claimed": {"category": PROPS[pid]["level"], "text": t["text"], "design_ref": t["design_ref"]},
            "level_note": t["note"],
            "technique": t["technique"],
        })
    man = {
        "version": 1,
        "setup_cmd": "./setup.sh",
        "hooks": {
            "guard": "SIGPY_VERIF_TRACE",
            "enable": "environment variable SIGPY_VERIF_TRACE=<ndjson path> (pure Python, nothing to rebuild); unset = hooks inert",
            "baseline_off_cmd": "cd /repo && env -u SIGPY_VERIF_TRACE /venv/bin/python -m pytest -ra -q -p no:cacheprovider --timeout=900 --continue-on-collection-errors",
            "source_commits": HOOK_COMMITS,
            "add_only": True,
        },
        "engines": ENGINES,
        "checks": checks,
        "not_applicable": [{"property_id": p, "reason": r} for p, r in sorted(NOT_APPLICABLE.items()) if p not in PROPS],
        "notes": "All checks: ./check <id> --tier quick|thorough; VERIF_SEED / VERIF_TIER honoured; exit 2 = machinery failure. Specs: spec/*.tla (TLC). Findings: known_findings.json. Design: DESIGN.md.",
    }
    with open(os.path.join(ROOT, "MANIFEST.json"), "w") as f:
        json.dump(man, f, indent=1)
        f.write("\n")


from .registry import HOOK_COMMITS  # noqa: E402

if __name__ == "__main__":
    main()
