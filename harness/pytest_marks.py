"""pytest plugin (loaded with -p harness.pytest_marks): writes a boundary marker into the hook trace at the start of
every test, so that the interleaved event stream can be cut into one trace per test (NestedTrace.tla)."""


def pytest_runtest_setup(item):
    try:
        from sigpy import _verif

        if _verif.ON:
            _verif._emit({"ev": "job", "k": item.nodeid})
    except Exception:
        pass
