"""Shared plumbing of ./check: engine results, violations, known findings,
evidence files, result cache."""
import hashlib
import json
import os
import random
import sys
import time

ROOT = os.path.dirname(os.path.dirname(os.path.abspath(__file__)))
REPO = os.environ.get("SIGPY_REPO", "/repo")
WORK = os.path.join(ROOT, ".work")
# evidence describes runs on the tree under /repo; runs redirected to a scratch copy (seeded changes, mutants: SIGPY_REPO) keep theirs apart
EVID = os.path.join(ROOT, "evidence") if os.path.realpath(REPO) == "/repo" else os.path.join(WORK, "evidence_scratch_tree")
FINDINGS_FILE = os.path.join(ROOT, "known_findings.json")
GUARD = "SIGPY_VERIF_TRACE"


def use_repo():
    """Make `import sigpy` resolve to the working tree under test."""
    if REPO not in sys.path:
        sys.path.insert(0, REPO)
    os.environ.setdefault("NUMBA_CACHE_DIR", os.path.join(WORK, "numba_cache"))


class Violation:
    def __init__(self, props, engine, key, detail, payload=None):
        self.props = list(props) if not isinstance(props, str) else [props]
        self.engine = engine
        self.key = key  # dict identifying the failing input / call site / history
        self.detail = detail
        self.payload = payload or {}

    def to_json(self):
        return {"props": self.props, "engine": self.engine, "key": self.key, "detail": self.detail, "payload": self.payload}

    @staticmethod
    def from_json(d):
        return Violation(d["props"], d["engine"], d["key"], d["detail"], d.get("payload"))


_CKPT = [None]   # path the forked engine process leaves its partial result in (model-checking counts survive a native crash)


def _checkpoint(r):
    if _CKPT[0]:
        try:
            with open(_CKPT[0] + ".part", "w") as f:
                json.dump(r.to_json(), f, default=_jsonable)
            os.replace(_CKPT[0] + ".part", _CKPT[0] + ".ckpt")
        except Exception:
            pass


class EngineResult:
    def __init__(self, name):
        self.name = name
        self.states = 0
        self.transitions = 0
        self.traces = 0  # spec states/behaviours replayed into the code + code traces validated by TLC
        self.evaluations = 0
        self.nontrivial = 0
        self.samples = []
        self.violations = []
        self.actions = {}
        self.cmds = []
        self.notes = []
        self.exhaustive = True
        self.wall_s = 0.0
        self.machinery_error = None
        self.per_prop = {}  # optional per-property counters: {prop: {"traces":n,"evaluations":n,"nontrivial":n}}

    def add_tlc(self, r, label=None):
        self.states += r.distinct
        self.transitions += r.generated
        for k, v in r.actions.items():
            kk = (label + ":" if label else "") + k
            self.actions[kk] = list(v)
        self.cmds.append(r.cmd.replace(ROOT, "/verif"))
        if r.error and not self.machinery_error:
            self.machinery_error = "TLC: " + r.error
        _checkpoint(self)

    def count(self, prop, traces=0, evaluations=0, nontrivial=0):
        d = self.per_prop.setdefault(prop, {"traces": 0, "evaluations": 0, "nontrivial": 0})
        d["traces"] += traces
        d["evaluations"] += evaluations
        d["nontrivial"] += nontrivial

    def to_json(self):
        d = dict(self.__dict__)
        d["violations"] = [v.to_json() for v in self.violations]
        return d

    @staticmethod
    def from_json(d):
        r = EngineResult(d["name"])
        for k, v in d.items():
            if k == "violations":
                r.violations = [Violation.from_json(x) for x in v]
            else:
                setattr(r, k, v)
        return r


class Ctx:
    def __init__(self, prop, tier, seed):
        self.prop = prop
        self.tier = tier
        self.seed = seed
        self.thorough = tier == "thorough"

    def rng(self, salt=""):
        return random.Random("%s/%s" % (self.seed, salt))

    def nprng(self, salt=""):
        import numpy as np

        h = int(hashlib.sha256(("%s/%s" % (self.seed, salt)).encode()).hexdigest()[:8], 16)
        return np.random.RandomState(h)


def layouts(x):
    """The same values in other memory layouts: Fortran order and a strided view into a larger buffer (arrays a caller may
    legitimately pass: transposes, slices, columns of a matrix)."""
    import numpy as np

    if not isinstance(x, np.ndarray) or x.ndim == 0 or x.size <= 1:
        return []
    buf = np.zeros(tuple(2 * n for n in x.shape), dtype=x.dtype)
    v = buf[tuple(slice(1, None, 2) for _ in x.shape)]
    v[...] = x
    return [("Fortran-ordered", np.asfortranarray(x)), ("strided", v)]


def allclose(a, b, **kw):
    """np.allclose that treats arrays of different (non-scalar) shapes as different instead of raising or broadcasting: a result of
    the wrong shape is a disagreement with the specification, never an exception of the harness."""
    import numpy as np

    if a is None or b is None:
        return False
    sa, sb = np.shape(a), np.shape(b)
    if sa != sb and sa != () and sb != ():
        return False
    try:
        return bool(np.allclose(a, b, **kw))
    except (TypeError, ValueError):
        return False


def tree_hash():
    h = hashlib.sha256()
    for base in (os.path.join(REPO, "sigpy"), os.path.join(ROOT, "spec"), os.path.join(ROOT, "harness")):
        for dp, dn, fn in sorted(os.walk(base)):
            dn[:] = sorted(d for d in dn if d != "__pycache__")
            for f in sorted(fn):
                if f.endswith((".py", ".tla", ".cfg", ".json")):
                    p = os.path.join(dp, f)
                    h.update(p.encode())
                    with open(p, "rb") as fh:
                        h.update(fh.read())
    with open(os.path.join(ROOT, "check"), "rb") as fh:
        h.update(fh.read())
    return h.hexdigest()[:24]


def run_engine_cached(engine_name, fn, ctx):
    """Engines shared by several properties are computed once per (tree, tier, seed)."""
    if os.environ.get("VERIF_NOCACHE"):
        return _run_engine(engine_name, fn, ctx)
    key = "%s_%s_%s_%s" % (engine_name, ctx.tier, ctx.seed, tree_hash())
    cdir = os.path.join(WORK, "cache")
    os.makedirs(cdir, exist_ok=True)
    path = os.path.join(cdir, key + ".json")
    if os.path.exists(path):
        try:
            with open(path) as f:
                r = EngineResult.from_json(json.load(f))
            r.notes = list(r.notes) + ["result reused from cache (same tree/spec/harness hash, tier, seed)"]
            return r
        except Exception:
            pass
    r = _run_engine(engine_name, fn, ctx)
    if r.machinery_error is None:
        tmp = path + ".tmp%d" % os.getpid()
        with open(tmp, "w") as f:
            json.dump(r.to_json(), f, default=_jsonable)
        os.replace(tmp, path)
        # keep the cache small
        ents = sorted((os.path.getmtime(os.path.join(cdir, e)), e) for e in os.listdir(cdir))
        for _, e in ents[:-200]:
            try:
                os.remove(os.path.join(cdir, e))
            except OSError:
                pass
    return r


def _raised_in_code_under_test(tb_text):
    """'file:function' of the innermost frame if it lies in the package under test (also through a worker pool's
    RemoteTraceback, whose text is part of the formatted chain), else None.  Only the FIRST exception of the chain counts:
    that is the one that started the unwinding."""
    import re

    first = re.split(r"\n(?:The above exception was the direct cause|During handling of the above exception)", tb_text)[0]
    frames = re.findall(r'File "([^"]+)", line (\d+), in (\S+)', first)
    if not frames:
        return None
    pkg = os.path.join(os.path.realpath(REPO), "sigpy") + os.sep
    own = os.path.realpath(ROOT) + os.sep
    for f, ln, fnname in reversed(frames):  # innermost first; frames of third-party libraries (numpy, pywt, ...) are skipped
        if not os.path.isabs(f):
            continue                        # compiled extension modules report relative source paths (pywt/_extensions/_dwt.pyx)
        rf = os.path.realpath(f)
        if rf.startswith(pkg):
            return "%s:%s" % (os.path.relpath(rf, os.path.realpath(REPO)), fnname)
        if rf.startswith(own):
            return None
    return None


def raised_in_code_under_test():
    """For use inside an `except` block of an engine: did the exception being handled start in the package under test?"""
    import traceback

    return _raised_in_code_under_test(traceback.format_exc())


def _engine_props(engine_name, ctx):
    from harness import registry

    return sorted(p for p, d in registry.PROPS.items() if any(en == engine_name for en, _, _ in d["engines"])) or [ctx.prop]


def _run_engine(engine_name, fn, ctx):
    """Run the engine in a forked child: native code of the library under test (numba kernels, compiled extensions it drives
    out of bounds) may kill the interpreter outright, and a dead interpreter is a verdict about that code, not about the
    machinery.  The child hands its result back as JSON; VERIF_INPROCESS=1 runs it in this process (debugging)."""
    if os.environ.get("VERIF_INPROCESS"):
        return _run_engine_here(engine_name, fn, ctx)
    import signal
    import tempfile

    os.makedirs(WORK, exist_ok=True)
    fd, path = tempfile.mkstemp(prefix="engine_%s_" % engine_name, suffix=".json", dir=WORK)
    os.close(fd)
    t0 = time.time()
    sys.stdout.flush()
    sys.stderr.flush()
    pid = os.fork()
    if pid == 0:
        code = 3
        _CKPT[0] = path
        try:
            r = _run_engine_here(engine_name, fn, ctx)
            with open(path, "w") as f:
                json.dump(r.to_json(), f, default=_jsonable)
            code = 0
        except BaseException:
            import traceback

            traceback.print_exc()
        finally:
            sys.stdout.flush()
            sys.stderr.flush()
            os._exit(code)
    _, status = os.waitpid(pid, 0)
    try:
        if os.WIFSIGNALED(status):
            sig = os.WTERMSIG(status)
            try:
                name = signal.Signals(sig).name
            except ValueError:
                name = str(sig)
            r = EngineResult(engine_name)
            try:
                with open(path + ".ckpt") as f:      # what the engine had established (TLC runs) before the interpreter died
                    r = EngineResult.from_json(json.load(f))
            except Exception:
                pass
            if sig in (signal.SIGSEGV, signal.SIGABRT, signal.SIGBUS, signal.SIGFPE, signal.SIGILL):
                r.violations.append(Violation(_engine_props(engine_name, ctx), engine_name, {"kind": "code_crashes", "signal": name},
                                              "the interpreter was killed by %s while the engine exercised the code under test on inputs the specification accepts "
                                              "(memory corruption / out-of-bounds access in native code)" % name, {}))
                r.notes.append("engine aborted: interpreter killed by %s" % name)
            else:
                r.machinery_error = "engine process killed by %s" % name
        elif os.WIFEXITED(status) and os.WEXITSTATUS(status) == 0:
            with open(path) as f:
                r = EngineResult.from_json(json.load(f))
        else:
            r = EngineResult(engine_name)
            r.machinery_error = "engine process exited with status %s" % (os.WEXITSTATUS(status) if os.WIFEXITED(status) else status)
    finally:
        for pth in (path, path + ".ckpt", path + ".part"):
            try:
                os.remove(pth)
            except OSError:
                pass
    r.wall_s = time.time() - t0
    return r


def _run_engine_here(engine_name, fn, ctx):
    t0 = time.time()
    try:
        r = fn(ctx)
    except Exception as e:
        import traceback

        r = EngineResult(engine_name)
        if _CKPT[0]:
            try:
                with open(_CKPT[0] + ".ckpt") as f:      # what the engine had established (TLC runs) before the exception
                    r = EngineResult.from_json(json.load(f))
            except Exception:
                pass
        txt = traceback.format_exc()
        where = _raised_in_code_under_test(txt)
        if where:
            # the code under test raised on an input that was generated from a state the specification accepts and that the
            # unchanged tree handles: no result is a wrong result for every property this engine decides
            props = _engine_props(engine_name, ctx)
            r.violations.append(Violation(props, engine_name, {"kind": "code_raises", "where": where, "exception": type(e).__name__},
                                          "the code under test raised on an input the specification accepts: %s: %s (innermost frame %s)" % (type(e).__name__, str(e)[:300], where),
                                          {"traceback": txt[-4000:]}))
            r.notes.append("engine aborted: code under test raised at %s" % where)
        else:  # machinery failure, never a verdict
            r.machinery_error = "%s: %s\n%s" % (type(e).__name__, e, txt)
    r.wall_s = time.time() - t0
    return r


# ---------------------------------------------------------------- findings


def load_findings():
    if not os.path.exists(FINDINGS_FILE):
        return {"known": [], "fixed": []}
    with open(FINDINGS_FILE) as f:
        return json.load(f)


def _match(matcher, v):
    """matcher: {"engine": name?, "key": {k: v,...}} all listed items must equal."""
    if "engine" in matcher and matcher["engine"] != v.engine:
        return False
    for k, x in matcher.get("key", {}).items():
        if v.key.get(k) != x:
            return False
    return True


def classify(prop, violations):
    """Split violations of `prop` into (new, known[(finding, violation)])."""
    fnd = load_findings()
    new, known = [], []
    for v in violations:
        if prop not in v.props:
            continue
        hit = None
        for k in fnd.get("known", []):
            if k["property"] == prop and _match(k["match"], v):
                hit = k
                break
        if hit:
            known.append((hit, v))
        else:
            new.append(v)
    return new, known


# ---------------------------------------------------------------- evidence


def write_evidence(prop, level, tier, seed, results, new, known, wall_s, assumptions, trusted, rule, exhaustive=None):
    os.makedirs(EVID, exist_ok=True)
    states = sum(r.states for r in results)
    transitions = sum(r.transitions for r in results)
    traces = ev = nt = 0
    for r in results:
        pp = r.per_prop.get(prop)
        if pp:
            traces += pp["traces"]
            ev += pp["evaluations"]
            nt += pp["nontrivial"]
        else:
            traces += r.traces
            ev += r.evaluations
            nt += r.nontrivial
    samples = []
    for r in results:
        for s in r.samples[:4]:
            samples.append({"engine": r.name, "case": s})
    actions = {}
    cmds = []
    notes = []
    for r in results:
        for k, v in r.actions.items():
            actions[r.name + ":" + k] = v
        cmds += r.cmds
        notes += ["%s: %s" % (r.name, n) for n in r.notes]
    never = sorted(k for k, v in actions.items() if v[1] == 0)
    cov = {
        "evaluations": int(ev),
        "distinct_nontrivial": int(nt),
        "rule": rule,
        "samples": samples if samples else [{"note": "no sample recorded"}],
        "states": int(states),
        "transitions": int(transitions),
        "traces_validated_against_impl": int(traces),
        "checker_cmd": " ; ".join(cmds[:6]) if cmds else "(no TLC run in this check)",
        "trusted_base": trusted,
        "exhaustive": bool(all(r.exhaustive for r in results) if exhaustive is None else exhaustive),
        "tlc_action_coverage": actions,
        "tlc_actions_never_taken": never,
        "engines": {r.name: {"wall_s": round(r.wall_s, 2), "states": r.states, "traces": r.traces, "evaluations": r.evaluations} for r in results},
        "notes": notes,
        "known_findings_reproduced": [k["id"] for k, _ in known],
    }
    doc = {
        "property_id": prop,
        "tier": tier,
        "seed": int(seed),
        "level": level,
        "coverage": cov,
        "assumptions": assumptions,
        "wall_s": round(wall_s, 2),
        "violations": len(new),
    }
    path = os.path.join(EVID, prop + ".json")
    with open(path, "w") as f:
        json.dump(doc, f, indent=1, default=_jsonable)
        f.write("\n")
    return path


def _jsonable(o):
    try:
        import numpy as np

        if isinstance(o, np.generic):
            return o.item()
        if isinstance(o, np.ndarray):
            return o.tolist()
    except Exception:
        pass
    if isinstance(o, complex):
        return [o.real, o.imag]
    if isinstance(o, (set, frozenset)):
        return sorted(o, key=repr)
    if isinstance(o, tuple):
        return list(o)
    return repr(o)


def save_replay(prop, idx, v):
    d = os.path.join(WORK, "replay")
    os.makedirs(d, exist_ok=True)
    p = os.path.join(d, "%s_%03d.json" % (prop, idx))
    with open(p, "w") as f:
        json.dump({"property": prop, **v.to_json()}, f, indent=1, default=_jsonable)
    return p
