"""Which engines decide which property, and at what claimed level."""

TLC_BASE = ["TLC 1.8 (tla2tools) incl. its -dump / -simulate output", "harness/tlaval.py value parser",
            "numpy element-wise arithmetic on small integers (exact in float64)"]

PROPS = {
    "C09": {
        "level": "model_checking",
        "engines": [("index_maps", "index_maps", "run")],
        "rule": "one case per TLC state of IndexMaps.tla = (function, parameter tuple); non-trivial = expected element map is not the identity map; every state is replayed on the real function with a labelled complex and a real array",
        "assumptions": ["bounds: see MC constants in checker_cmd's MC_IndexMaps.tla (shapes, shifts, factors, blocks, strides)",
                        "block sizes never exceed the array extent; shifts lie inside the array"],
        "trusted": TLC_BASE,
        "exhaustive": True,
    },
}

HOOK_COMMITS = []

ENGINES = [
    {"name": "index_maps", "path": "harness/engines/index_maps.py + spec/IndexMaps.tla", "serves_properties": ["C09", "C02"],
     "kind_free_text": "TLC exhaustive enumeration of calls + S->C replay of every dumped state on the real functions"},
]

MANIFEST_TEXT = {
    "C09": {
        "text": "TLC enumerates every (function, parameter) call of IndexMaps.tla in the bounds, checks 11 algebraic laws on the model, and every dumped state is replayed on the real function with labelled complex and real arrays (element-by-element equality, output shape, input bytes). Exhaustive within the bounds; the maps are index calculus, so small extents exercise every branch (odd/even, pad/crop, overlap/gap/remainder).",
        "design_ref": "DESIGN.md section 5 C09",
        "note": "Trusted: TLC, the dump parser, numpy integer-valued float arithmetic. Bounds: quick extents <=6 (1-D), <=3 (2-D), two 3-D shapes; thorough <=8 / <=4 / 3-D family. GPU paths not run.",
        "technique": "TLA+ spec of element maps, TLC exhaustive + spec-to-code replay of every state",
    },
}

NOT_APPLICABLE = {p: "check not built yet in this round (planned, see DESIGN.md section 5)" for p in
                  ["C01", "C02", "C03", "C04", "C05", "C06", "C07", "C08", "C10", "C11", "C12", "C13", "C14", "C15", "C16", "C17", "C18", "C19", "C20"]}
