"""Which engines decide which property, and at what claimed level."""

TLC_BASE = ["TLC 1.8 (tla2tools) incl. its -dump / -simulate output", "harness/tlaval.py value parser",
            "numpy element-wise arithmetic on small integers (exact in float64)"]

LINOP = ("linop_algebra", "linop", "run")
LINOP_RULE = ("one case per distinct top-of-stack entry (operator expression built through the API calls the spec recorded) or rejected constructor call "
              "reached by TLC in LinopAlgebra.tla; non-trivial = the entry's exact matrix is not an identity matrix (or the case is a rejected call)")
LINOP_ASSUME = ["bounds: atom catalogue and MaxStack/MaxLevel/MaxFlat of the themed MC_Linop_*.tla configurations (see checker_cmd)",
                "entries over Z[i]; flat sizes <= 16 (quick) / 24 (thorough)", "CPU numpy backend only"]

PROPS = {
    "C01": {"level": "model_checking", "engines": [LINOP, ("interp", "interp", "run"), ("conv", "conv", "run"), ("nufft", "nufft", "run"), ("wavelet", "wavelet", "run"), ("sense", "sense", "run"), ("fourier", "fourier", "run")], "rule": LINOP_RULE, "assumptions": LINOP_ASSUME, "trusted": TLC_BASE},
    # (every engine that can raise a violation tagged with a property is in that property's list: a tag nobody runs is a check nobody sees)
    "C02": {"level": "model_checking", "engines": [LINOP, ("index_maps", "index_maps", "run"), ("prox", "prox", "run"), ("nufft", "nufft", "run"), ("purity", "purity", "run"),
                                                   ("interp", "interp", "run"), ("sense", "sense", "run"), ("alg_protocol", "alg_protocol", "run")], "rule": LINOP_RULE, "assumptions": LINOP_ASSUME, "trusted": TLC_BASE},
    "C03": {"level": "model_checking", "engines": [LINOP, ("conv", "conv", "run"), ("interp", "interp", "run"), ("sense", "sense", "run"), ("alg_protocol", "alg_protocol", "run")], "rule": LINOP_RULE, "assumptions": LINOP_ASSUME, "trusted": TLC_BASE},
    "C04": {"level": "model_checking", "engines": [LINOP, ("interp", "interp", "run"), ("nufft", "nufft", "run"), ("conv", "conv", "run"), ("sense", "sense", "run")], "rule": LINOP_RULE, "assumptions": LINOP_ASSUME, "trusted": TLC_BASE},
    "C15": {"level": "model_checking", "engines": [("alg_protocol", "alg_protocol", "run"), ("cg", "cg", "run"), ("descent", "descent", "run"), ("espirit", "espirit", "run"), ("lls", "lls", "run"), ("splitting", "splitting", "run")],
            "rule": "one case per Alg object observed through the trace hooks (driven along TLC-generated call sequences, inner solvers, and the repository's own tests) validated by TLC against AlgLoopTrace.tla; non-trivial = the object performed at least two updates",
            "assumptions": ["protocol model checked for max_iter 0..3 (quick) / 0..4 (thorough) with up to max_iter+2 hand-driven updates", "early-stop probe compares solution arrays bitwise after one further update", "splitting engine: exact instances of dimension 1-2, max_iter <= 3 (quick) / 4 (thorough); early stop compared to 1e-9"],
            "trusted": TLC_BASE + ["tla2tools Json module", "trace hooks in sigpy/_verif.py"]},
    "C20": {"level": "model_checking", "engines": [("trap", "trap", "run")],
            "rule": "one case per TLC state of Trap.tla (designer, G, a) mapped to dimensional argument tuples, plus finished spoke assemblies of Spokes.tla; non-trivial = not at an exact ceil/floor tie (there only the requirement predicates are checked)",
            "assumptions": ["dimensionless grid G in k/4, a in k/8 plus small values (see MC_Trap.tla); 5 unit systems (dgdt, dt)", "float tolerance 1e-9 relative on area/amplitude, 1e-7 on slew"],
            "trusted": TLC_BASE, "exhaustive": True},
    "C18": {"level": "model_checking", "engines": [("poisson", "poisson", "run")],
            "rule": "one case per recorded poisson() call (argument tuple x 2 repetitions with differently perturbed numpy RNG) validated as a trace by TLC; non-trivial = the bisection needed at least two probes",
            "assumptions": ["bisection design checked on a float lattice of 7 (quick) / 8 (thorough) points with every acceleration function", "watchdog 90 s (quick) / 240 s (thorough) per call"],
            "trusted": TLC_BASE + ["tla2tools Json module", "the harness's own ellipse / calibration-block formulas"]},
    "C11": {"level": "model_checking", "engines": [("prox", "prox", "run")],
            "rule": "one case per Eval state of Prox.tla (prox expression tree, alpha, exact point) replayed in every array shape with that many elements, real and complex dtype, plus curated PSD inputs; all are non-trivial (points include zeros, thresholds, boundaries, ties)",
            "assumptions": ["expression trees with <= 1 wrapper (quick) / 2 (thorough) over 38 base configurations", "exact points: rationals and Gaussian rationals with rational moduli", "PSD projection checked on Q D Q^H with rational unitary Q (harness-side exact reference, not TLC)"],
            "trusted": TLC_BASE + ["Rat.tla arithmetic"]},
    "C12": {"level": "model_checking", "engines": [("cg", "cg", "run")],
            "rule": "exact tier: one case per TLC state of CG.tla (instance, number of updates) replayed on the real solver; large tier: one recorded run per seeded random system validated as a trace; non-trivial = at least one update performed",
            "assumptions": ["exact tier: all symmetric integer matrices with entries -1..2 of size 1 and 2 (PD and indefinite), b, x0 in {-1,0,2}^n, diagonal preconditioners, max_iter 1..3 (quick) / 1..4 (thorough)", "large tier thresholds: 1e-6 (A-norm increase, residual gap), 1e-5 (Krylov gap, exactness at n) relative, cond <= 1e3"],
            "trusted": TLC_BASE + ["Rat.tla arithmetic", "numpy.linalg.solve / lstsq as reference for the large tier"]},
    "C14": {"level": "model_checking", "engines": [("lls", "lls", "run")],
            "rule": "one case per final state of LLS.tla (solver x lamda x z x proxg x G, 288 option records) x option variants (step sizes / preconditioner / rho given or defaulted, x0 given or not) x real/complex instance; all non-trivial",
            "assumptions": ["instances: A 3x2, G 2x2 dense or finite difference, g in {none, l1, l2^2, box}; optimum by enumeration of the smooth pieces (exact for these instances)", "iteration budgets CG 30, GM 4000, PDHG 6000, ADMM 400x10; tolerance 2e-3 relative on the documented objective"],
            "trusted": TLC_BASE + ["numpy.linalg.solve / lstsq for the piecewise KKT reference"]},
    "C13": {"level": "model_checking", "engines": [("descent", "descent", "run"), ("splitting", "splitting", "run")],
            "rule": "exact tier: one case per TLC state of ProxGrad.tla (instance, iteration) replayed on GradientMethod, with the O(1/k) bound evaluated on the exact iterates; trace tier: one recorded GradientMethod / PDHG run per seeded problem with known minimiser; all non-trivial",
            "assumptions": ["exact tier: separable quadratics d in {(4,1),(2,2),(8,1),(4,0),(1,8)}, g in {0,l1,l2^2,box}, alpha in {1/L, 1/(2L)}, 3 updates", "trace tier: n 4..40, real/complex, Nesterov's worst-case quadratic, scalar and array-valued steps, strong-convexity acceleration; slack 1e-6",
                            "the Fejer-monotone distance is the M-norm of (x_{k-1}, u_k) (sigpy updates the dual first): see DESIGN.md C13"],
            "trusted": TLC_BASE + ["Rat.tla", "numpy for objective / norm evaluation in the trace tier"]},
    "C05": {"level": "model_checking", "engines": [("fourier", "fourier", "run")],
            "rule": "one case per TLC state of Fourier.tla (shape, axes as written incl. negative indices, center, norm, oshape, direction), each replayed with complex128, complex64, float64 and delta inputs; non-trivial = some axis longer than 1",
            "assumptions": ["shapes: rank 1 to 8, rank 2 to 4x4, selected rank 3 and 4 (thorough: larger families)", "oshape changes per axis in {-1, 0, +2}, only with center=True", "tolerance 1e-10 (complex128) / 2e-5 (complex64 and real input)"],
            "trusted": TLC_BASE + ["numpy.exp for realising roots of unity"]},
    "C07": {"level": "model_checking", "engines": [("interp", "interp", "run")],
            "rule": "one case per TLC state of Interp.tla (grid, kernel, widths, exact rational sample point); each replayed for real/complex data, scalar and per-axis spelling, batch axis, duplicated point, interpolate and gridding, and the two linops; all non-trivial",
            "assumptions": ["grids 1-D to 5, 2-D to 3x3, one 3-D grid (thorough: larger); coordinates multiples of 1/4 incl. ties and far outside; widths {1, 3/2, 2, 5/2, 3, 4}", "Kaiser-Bessel weights from scipy.special.i0 at the spec's exact arguments, tolerance 2e-6 relative (accuracy of the documented series)"],
            "trusted": TLC_BASE + ["Rat.tla", "scipy.special.i0"]},
    "C08": {"level": "model_checking", "engines": [("conv", "conv", "run")],
            "rule": "one case per TLC state of Conv.tla (D, data/filter extents, strides, mode, channels, batch) incl. inadmissible ones; each replayed with complex and real Gaussian-integer arrays on convolve, both adjoints and the Convolve* linops; all non-trivial",
            "assumptions": ["D=1: extents 1..4, strides 1..3, 5 channel settings, batch; D=2: extents 1..3; D=3: extents 1..2 (thorough 1..3)", "integer-valued data: comparisons are exact"],
            "trusted": TLC_BASE},
    "C06": {"level": "exploration", "engines": [("nufft", "nufft", "run")],
            "rule": "one measurement series per TLC state of Nufft.tla (image shape x coordinate family) with every (oversamp, width) pair: Frobenius and random-input relative error against the exact NDFT, adjoint exactness, Gram error, batch, Toeplitz normal; distinct_nontrivial counts the (shape, family) configurations",
            "assumptions": ["coordinates are multiples of 1/8 (on-grid, half-integer, eighths, clustered with duplicates, outside by +-N and +-3N/2)", "thresholds: 3 % at (1.25, 4) and 0.3 % at (2, 4) from the property; other (oversamp, width) pairs frozen at 3x the worst case measured once on the repaired tree",
                            "the error norm is floating point, computed by the harness: numeric clause, hence level exploration"],
            "trusted": TLC_BASE + ["numpy.exp realisation of the exponent matrices"]},
    "C10": {"level": "model_checking", "engines": [("wavelet", "wavelet", "run")],
            "rule": "one case per TLC state of Wavelet.tla (orthogonal wavelet, shape, axes subset, level): advertised and actual coefficient shapes compared exactly with the shape calculus, and the three identities measured for real and complex input; non-trivial = at least one decomposition level",
            "assumptions": ["quick: haar, db2, db4, sym3, coif1; thorough: haar, db2-8, sym2-8, coif1-5", "identities (irrational filter taps) are numeric: bound 1e-9 relative, validated through AccuracyTrace.tla"],
            "trusted": TLC_BASE + ["PyWavelets filter lengths (dec_len) as constants of the model"]},
    "C16": {"level": "model_checking", "engines": [("sense", "sense", "run")],
            "rule": "one case per TLC state of Sense.tla (coils, coil_batch_size, Cartesian/non-Cartesian, weights) x image shapes: dense operator vs explicit encoding, adjoint, batch invariance; plus SenseRecon / TotalVariationRecon / L1WaveletRecon runs against independent references; non-trivial = more than one coil",
            "assumptions": ["image shapes (4,4), (3,4), (5,2), (2,3,2); non-Cartesian accuracy bound 3 % (C06 default)", "recon references: dense ridge solution; independent numpy primal-dual run for TV / Haar-l1 (tolerance 2e-3 on the objective)"],
            "trusted": TLC_BASE + ["harness DFT / NDFT matrices", "independent numpy reference solver"]},
    "C19": {"level": "model_checking", "engines": [("bloch", "bloch", "run")],
            "rule": "exact tier: one case per TLC state of Bloch.tla (simulator, exact waveform prefix, optional split) replayed on abrm_hp / blochsim; numeric tier: random waveforms through all five simulators and inverse-SLR round trips (random polynomials, every dzrf ptype x ftype); all non-trivial",
            "assumptions": ["exact tier: rotation half-angles with rational cos/sin (0, pi, 2atan(4/3), 2atan(3/4)), RF and gradient phases on rational points of the unit circle, length <= 2 (rich) / 3-4 (axis-aligned)", "numeric bounds 1e-9 (identities), 1e-5 (SLR round trip with max|B| <= 0.95)",
                            "abrm_ptx returns the inverse-rotation convention: composition checked in the opposite order"],
            "trusted": TLC_BASE + ["Rat/CRat arithmetic"]},
    "C17": {"level": "exploration", "engines": [("espirit", "espirit", "run")],
            "rule": "one case per recorded EspiritCalib run (random and synthetic birdcage k-space; 2-D / 3-D; coils, calib_width, kernel_width, thresh, crop, max_iter varied), validated as a trace; distinct_nontrivial counts the runs",
            "assumptions": ["SVD / eigen-iteration are floating point: no exact model; what is decided are exact predicates on the output and per-iteration facts", "recovery bound 1.5 % for the repository test's configuration, 6 % for the other synthetic families (calibration region inside k-space); measured 0.5 % / 2.7 %"],
            "trusted": TLC_BASE + ["tla2tools Json module", "sigpy.mri.sim.birdcage_maps as ground truth"]},
    "C09": {
        "level": "model_checking",
        "engines": [("index_maps", "index_maps", "run")],
        "rule": "one case per TLC state of IndexMaps.tla = (function, parameter tuple); non-trivial = expected element map is not the identity map; every state is replayed on the real function with a labelled complex and a real array",
        "assumptions": ["bounds: see MC constants in checker_cmd's MC_IndexMaps.tla (shapes, shifts, factors, blocks, strides)",
                        "block sizes never exceed the array extent; shifts lie inside the array"],
        "trusted": TLC_BASE,
        "exhaustive": True,
    },
}

HOOK_COMMITS = ["609775d"]

ENGINES = [
    {"name": "rfassembly", "path": "harness/engines/rfassembly.py + spec/Pins.tla", "serves_properties": [],
     "kind_free_text": "TLC over the interleaving of sub-pulses and blips that dz_pins assembles (mutual exclusion, equal lengths, final layout); final model states compared with the returned arrays (reported by ./check extra)"},
    {"name": "leja", "path": "harness/engines/leja.py + spec/Leja.tla", "serves_properties": [],
     "kind_free_text": "TLC over the column-swap mechanism of sigpy.util.leja on Gaussian-integer root sets (ties nondeterministic) against the greedy meaning; the code's answer in every dtype/container/layout must be one behaviour of the model (reported by ./check extra)"},
    {"name": "splitting", "path": "harness/engines/splitting.py + spec/ADMM.tla, ALM.tla, AltMin.tla, Newton.tla, GerchbergSaxton.tla", "serves_properties": ["C15"],
     "kind_free_text": "TLC over exact rational trajectories of the remaining Alg subclasses, one action per sub-step of _update (fixed points, Lyapunov functions, line-search termination); every dumped state replayed on the real class through caller closures; counter / budget / early-stop clauses reported under C15, other disagreements under ./check extra"},
    {"name": "purity", "path": "harness/engines/purity.py + spec/PurityTrace.tla", "serves_properties": ["C02"],
     "kind_free_text": "recorded calls of every public array function (argument CRCs before/after, result CRC, repeated call) validated by TLC against PurityTrace.tla"},
    {"name": "espirit", "path": "harness/engines/espirit.py + spec/PowerMethod.tla, spec/EspiritTrace.tla", "serves_properties": ["C17", "C15"],
     "kind_free_text": "TLC on exact integer power iteration + replay; EspiritCalib runs validated as traces (norms, crop, phase reference, eigenvalue range and monotonicity, recovery)"},
    {"name": "bloch", "path": "harness/engines/bloch.py + spec/Bloch.tla, CRat.tla, AccuracyTrace.tla", "serves_properties": ["C19"],
     "kind_free_text": "TLC over exact SU(2) hard-pulse recursions (unitarity, zero pulse, composition) + replay; numeric defects of all simulators and SLR round trips validated against spec thresholds"},
    {"name": "sense", "path": "harness/engines/sense.py + spec/Sense.tla", "serves_properties": ["C16", "C01", "C02", "C03", "C04"],
     "kind_free_text": "TLC over coil-batching plans; dense factory vs explicit multi-coil encoding; recon apps vs independent references"},
    {"name": "wavelet", "path": "harness/engines/wavelet.py + spec/Wavelet.tla, spec/AccuracyTrace.tla", "serves_properties": ["C10", "C01"],
     "kind_free_text": "TLC: exact coefficient-shape calculus over families x shapes x axes x levels; harness: shape comparison and measured identities validated by TLC"},
    {"name": "nufft", "path": "harness/engines/nufft.py + spec/Nufft.tla, spec/AccuracyTrace.tla", "serves_properties": ["C06", "C04", "C02", "C01"],
     "kind_free_text": "TLC: exact NDFT exponent matrices and periodicity laws; harness: dense probing of nufft / adjoint / NUFFT linop; TLC validates the measured defects against the thresholds held in AccuracyTrace"},
    {"name": "conv", "path": "harness/engines/conv.py + spec/Conv.tla", "serves_properties": ["C08", "C01", "C03", "C04"],
     "kind_free_text": "TLC enumeration of convolution configurations as bilinear index relations + replay of convolve, adjoints, rejection and Convolve* linops"},
    {"name": "interp", "path": "harness/engines/interp.py + spec/Interp.tla", "serves_properties": ["C07", "C01", "C04", "C02", "C03"],
     "kind_free_text": "TLC enumeration of interpolation windows in exact rationals + replay of interpolate/gridding and the Interpolate/Gridding linops"},
    {"name": "fourier", "path": "harness/engines/fourier.py + spec/Fourier.tla", "serves_properties": ["C05"],
     "kind_free_text": "TLC enumeration of fft/ifft configurations with exact exponent laws + replay against explicit DFT matrices"},
    {"name": "descent", "path": "harness/engines/descent.py + spec/ProxGrad.tla, spec/DescentTrace.tla", "serves_properties": ["C13", "C15"],
     "kind_free_text": "TLC on exact proximal-gradient trajectories + replay; trace validation of accelerated / primal-dual runs against rate, Fejer and fixed-point conditions"},
    {"name": "lls", "path": "harness/engines/lls.py + spec/LLS.tla", "serves_properties": ["C14"],
     "kind_free_text": "TLC over the option cross product of LinearLeastSquares._get_alg (assembled vs documented problem) + replay of every configuration against an independently computed optimum"},
    {"name": "cg", "path": "harness/engines/cg.py + spec/CG.tla, spec/CGTrace.tla", "serves_properties": ["C12", "C15"],
     "kind_free_text": "TLC over exact rational CG on all small systems + replay; trace validation of larger random runs"},
    {"name": "prox", "path": "harness/engines/prox.py + spec/Prox.tla, Rat.tla", "serves_properties": ["C11", "C02"],
     "kind_free_text": "TLC: closed forms vs optimality conditions over exact points; replay on Prox classes and thresh functions in all shapes"},
    {"name": "poisson", "path": "harness/engines/poisson.py + spec/PoissonSearch.tla, spec/PoissonTrace.tla", "serves_properties": ["C18"],
     "kind_free_text": "TLC safety+liveness of the bisection design; batch trace validation of recorded poisson() calls"},
    {"name": "trap", "path": "harness/engines/trap.py + spec/Trap.tla, TrapDefs.tla, Spokes.tla, Rat.tla", "serves_properties": ["C20"],
     "kind_free_text": "TLC sweep of rational (G, a) grid and spoke assemblies + replay on trap_grad/min_trap_grad/spokes_grad"},
    {"name": "alg_protocol", "path": "harness/engines/alg_protocol.py + harness/drivers/alg_driver.py + spec/AlgLoop.tla, AlgLoopTrace.tla, NestedRuns.tla, NestedTrace.tla", "serves_properties": ["C15", "C02", "C03"],
     "kind_free_text": "TLC model checking of the iteration protocol and of the nesting design (frames of App.run / Alg.update across objects); graph walks drive real Alg/App objects with hooks; batch trace validation of driver and test-suite executions per object (AlgLoopTrace) and as whole interleaved streams (NestedTrace)"},
    {"name": "linop_algebra", "path": "harness/engines/linop.py + spec/LinopAlgebra.tla (CMat, ElementMaps, Shape)", "serves_properties": ["C01", "C02", "C03", "C04"],
     "kind_free_text": "TLC exhaustive over sessions with the linop API (themes atoms/algebra/stack) + S->C replay of every distinct entry and rejected call"},
    {"name": "index_maps", "path": "harness/engines/index_maps.py + spec/IndexMaps.tla", "serves_properties": ["C09", "C02"],
     "kind_free_text": "TLC exhaustive enumeration of calls + S->C replay of every dumped state on the real functions"},
]

_LINOP_NOTE = ("Trusted: TLC, the dump parser, the harness builder (spec api tree -> constructor calls) and the dense-matrix probe. "
               "Exact tier covers the index/broadcast/matmul/blocks/stack classes over Z[i]; FFT, NUFFT, Wavelet, Interpolate, Convolve and the MRI factories are "
               "bound by their own engines (see C05-C10, C16) and join the algebra in the opaque tier when built. GPU/MPI paths not run.")
MANIFEST_TEXT = {
    "C20": {"text": "Trap.tla transcribes both designers branch by branch in exact rationals (dimensionless units) and TLC checks the requirement predicates (ends at zero, exact area, amplitude, slew, defined) on every (G, a) of the grid incl. regime boundaries; Spokes.tla models the list surgery of spokes_grad. Every dumped design is called on the real functions in several unit systems; requirements are checked on the returned samples and the waveform is compared with the model (except at exact ceil/floor ties).",
            "design_ref": "DESIGN.md section 5 C20", "note": "Trusted: TLC, Rat.tla arithmetic, float64 summation to 1e-9. Spoke sets whose blips are longer than a sub-pulse are treated as rejected input.",
            "technique": "TLA+ rational transcription + TLC sweep + spec-to-code replay with requirement predicates"},
    "C15": {"text": "AlgLoop.tla (protocol of Alg.update/done and App.run) is model-checked by TLC (budget, counter, purity of done(), liveness of the canonical loop); behaviours of its state graph drive every Alg subclass and App with the trace hooks on; every Alg object observed - driven ones, inner solvers, and all objects created by the repository's tests - is validated by TLC against AlgLoopTrace.tla, including the harness's early-stop probe (tol=0, done() before the budget => one more update must leave the solution arrays bitwise unchanged, or a breakdown flag is set).",
            "design_ref": "DESIGN.md section 5 C15",
            "note": "Trusted: TLC, Json module, the hooks (sigpy/_verif.py), the driver's problem factories. Early-stop probe covers algorithms driven by the harness (all Alg subclasses, LinearLeastSquares per solver, L2ConstrainedMinimization, MaxEig). PowerMethod eigenvalue monotonicity: PowerMethod.tla (espirit engine). ADMM/ALM/AltMin/Newton/GerchbergSaxton.tla (splitting engine) add the exact update equations of the remaining subclasses; only their counter, budget, held-solution and early-stop clauses count for C15.",
            "technique": "TLA+ protocol spec + TLC (safety and liveness) + trace validation of hooked executions (driver and repository tests)"},
    "C01": {"text": "TLC checks AdjShapes/AdjCorrect/AdjInvolution for every operator expression reachable in LinopAlgebra.tla (mechanism AdjRule transcribed from each _adjoint_linop against exact matrices over Z[i]); every dumped entry is rebuilt on the real classes and dense(A.H) is compared with dense(A)^H, A.H.H with A, shapes swapped.",
            "design_ref": "DESIGN.md sections 4, 5 C01", "note": _LINOP_NOTE,
            "technique": "TLA+ operator-algebra spec, TLC exhaustive over themed catalogues + spec-to-code replay (dense matrix probing)"},
    "C02": {"text": "Same sessions as C01: for every entry linearity over C (i*e_j columns, a*x+y with complex a), bitwise determinism before/after .H/.N caching, byte purity of inputs and captured arrays, real-typed input against the exact matrix; plus purity of the rearrangement functions in the IndexMaps replay.",
            "design_ref": "DESIGN.md sections 4, 5 C02", "note": _LINOP_NOTE + " Prox objects and remaining public array functions: see the prox/trace engines once listed under engines.",
            "technique": "TLA+ operator-algebra spec + replay with byte snapshots and repeated application"},
    "C03": {"text": "MatOf of composites is DEFINED as the matrix expression (product, sum, conjugate, block row/column/diagonal along the axis); TLC checks shape soundness and that rejected calls leave the session unchanged; every dumped entry's dense matrix and advertised shapes are compared with the spec, and every spec-rejected constructor call must raise on the real classes.",
            "design_ref": "DESIGN.md sections 4, 5 C03", "note": _LINOP_NOTE,
            "technique": "TLA+ operator-algebra spec (stack machine over the linop API), TLC exhaustive + replay incl. rejected calls"},
    "C04": {"text": "TLC checks NormalCorrect (NrmRule transcribed from every _normal_linop shortcut, incl. the block-tiling conditions) against ConjT(m).m; replay compares dense(A.N) with dense(A)^H dense(A) for every entry, block strides swept over overlapping / tiling / gapped / non-dividing.",
            "design_ref": "DESIGN.md sections 4, 5 C04", "note": _LINOP_NOTE + " The NUFFT Toeplitz tolerance clause is decided by the nufft engine (when listed).",
            "technique": "TLA+ operator-algebra spec, TLC exhaustive + replay of A.N against probed A^H A"},
    "C09": {
        "text": "TLC enumerates every (function, parameter) call of IndexMaps.tla in the bounds, checks 11 algebraic laws on the model, and every dumped state is replayed on the real function with labelled complex and real arrays (element-by-element equality, output shape, input bytes). Exhaustive within the bounds; the maps are index calculus, so small extents exercise every branch (odd/even, pad/crop, overlap/gap/remainder).",
        "design_ref": "DESIGN.md section 5 C09",
        "note": "Trusted: TLC, the dump parser, numpy integer-valued float arithmetic. Bounds: quick extents <=6 (1-D), <=3 (2-D), two 3-D shapes; thorough <=8 / <=4 / 3-D family. GPU paths not run.",
        "technique": "TLA+ spec of element maps, TLC exhaustive + spec-to-code replay of every state",
    },
}

NOT_APPLICABLE = {}

# engines whose SPEC-tagged disagreements (conformance to the specification beyond the listed properties) are reported by `./check extra`
EXTRA_ENGINES = [("splitting", "splitting", "run"), ("alg_protocol", "alg_protocol", "run"), ("rfassembly", "rfassembly", "run"), ("leja", "leja", "run")]

MANIFEST_TEXT["C18"] = {
    "text": "PoissonSearch.tla models the slope bisection on a float lattice with an arbitrary (non-monotone) acceleration function; TLC checks OkIsWithinTol and the liveness property Terminates (the loop without the collapse test is kept as a negative control that must fail). poisson() is run on the real code with _poisson wrapped under a watchdog; every call (probes as slope ranks + integer facts about the mask, RNG state crc, reproducibility memo) is validated by TLC against PoissonTrace.tla.",
    "design_ref": "DESIGN.md section 5 C18",
    "note": "Trusted: TLC, Json module, harness formulas for the calibration block and the ellipse. Shapes 16-64 quick, to 128 thorough.",
    "technique": "TLA+ design spec with liveness + trace validation of wrapped real calls"}

MANIFEST_TEXT["C11"] = {
    "text": "Prox.tla carries two independent definitions: ProxModel (closed forms transcribed from prox.py/thresh.py) and IsMinimiser (optimality condition y-x in alpha*subdifferential, per class and recursively for Conj/Stack/UnitaryTransform/L2Reg(proxh)); TLC checks ModelIsMinimiser, ShapeKept, Idempotent, FeasibleIsFixed on every evaluation over exact rational / Gaussian-rational points incl. zeros, thresholds, ball boundaries and ties. Every evaluation is replayed on the real Prox objects and thresh functions in every array shape with the same number of elements (real and complex dtype); PSD projection is checked on Q D Q^H with rational unitary Q and repeated / zero / negative eigenvalues.",
    "design_ref": "DESIGN.md section 5 C11",
    "note": "Trusted: TLC, Rat.tla, harness builders. Points with irrational moduli are skipped by the exact tier (Eval is disabled when a needed square root is irrational).",
    "technique": "TLA+ closed forms vs optimality predicates (TLC) + spec-to-code replay"}

MANIFEST_TEXT["C12"] = {
    "text": "CG.tla has an algorithm layer (constructor, _update, _done transcribed, incl. the skipped last residual update and the breakdown flag) and a definition layer (Krylov-optimal iterate by Cramer's rule, x* = A^-1 b) in exact rationals; TLC checks IterateIsKrylovOpt, ErrANonIncreasing, ResidualIsTrue, ExactAtN, BreakdownStops, NoFalseBreakdown on every prefix of every history over all small systems. Every state is replayed on the real solver (A as function and as Linop): x, r, resid^2, flags, done(), caller's array identity. Random real/complex systems of dimension 3-12 with preconditioners are recorded per update (A-norm error, Krylov gap, residual gap) and validated by TLC against CGTrace.tla.",
    "design_ref": "DESIGN.md section 5 C12",
    "note": "Trusted: TLC, Rat.tla, numpy reference solves for the large tier (thresholds 1e-6/1e-5 relative with cond <= 1e3).",
    "technique": "TLA+ exact-rational algorithm vs definition layers (TLC) + replay + trace validation"}

MANIFEST_TEXT["C14"] = {
    "text": "LLS.tla follows _get_alg step by step (dispatch, validation, per-solver assembly incl. the two sub-steps of the primal-dual branch) and records which objective terms the branch really hands to its algorithm; TLC checks AssembledIsDocumented and RejectedIffInexpressible over the whole option cross product (the pinned G branch is a negative control that must fail). Every final state is instantiated on small real/complex instances with option variants; app.run() must raise where the spec rejects, and otherwise return a point whose documented objective is within 2e-3 of the optimum computed independently by enumerating the smooth pieces of the objective.",
    "design_ref": "DESIGN.md section 5 C14",
    "note": "Trusted: TLC, the harness's piecewise KKT reference (numpy). Iteration budgets calibrated once on the repaired tree.",
    "technique": "TLA+ dispatch/assembly model (TLC, with negative control) + spec-to-code replay against an independent optimum"}

MANIFEST_TEXT["C13"] = {
    "text": "ProxGrad.tla models the plain proximal-gradient update on separable quadratics (ill-conditioned and rank-deficient) with g in {0, l1, l2^2, box} in exact rationals; TLC checks ObjectiveNonIncreasing, DistanceNonIncreasing, XstarIsFixed, EarlyStopOnlyAtFixedPoint, every state is replayed on GradientMethod and the O(1/k) gap bound is evaluated on the exact iterates. Accelerated GradientMethod and PrimalDualHybridGradient (scalar/array steps, strong-convexity acceleration) are run on larger real/complex problems built around a known minimiser; per-update ratios to the theoretical rate, objective increases, the M-norm distance to the saddle point, tau*sigma invariance, the saddle-point defect, final distance and in-place flags are validated by TLC against DescentTrace.tla. PDHG.tla adds the constant-step primal-dual update in exact rationals (scalar and per-component steps, zero / given / saddle starts, a = 0 components): TLC checks SaddleIsFixed, EarlyStopIsSaddle and FejerMonotone (M-norm of (previous primal, current dual)) on every instance and every state is replayed on PrimalDualHybridGradient (start at the saddle point must not move, caller arrays updated in place).",
    "design_ref": "DESIGN.md section 5 C13, 13.6",
    "note": "Level is model_checking for the exact tier and the trace protocol; the rate clauses of the accelerated variants are numeric (exploration-grade) because theta = 1/sqrt(1+2*gamma*tau) is irrational. Trusted: numpy norms, problem construction around a known minimiser.",
    "technique": "TLA+ exact trajectories (TLC) + replay + trace validation of convergence-rate and Fejer conditions"}

MANIFEST_TEXT["C05"] = {
    "text": "Fourier.tla states the DFT-matrix meaning of every fft/ifft call (centred pad/crop from ElementMaps, per-axis exponent (k-c)(n-c) mod m, sign, scaling, numpy axis normalisation) and TLC checks on integer exponents that W^H W = m I (cancellation of roots of unity), the centre convention, conjugate inverse and the pad/crop map for every enumerated configuration. Each configuration is replayed on sigpy.fft/ifft against explicit DFT matrices for complex128, complex64, real and delta inputs, plus round trip, norm preservation and the dtype rule.",
    "design_ref": "DESIGN.md section 5 C05",
    "note": "Trusted: TLC, numpy.exp / tensordot for the reference. numpy's FFT kernel accuracy assumed 1e-10.",
    "technique": "TLA+ exponent-matrix spec (TLC exhaustive) + spec-to-code replay"}

MANIFEST_TEXT["C07"] = {
    "text": "Interp.tla states the documented kernel sum in exact rationals: per axis the window ceil(c-W/2)..floor(c+W/2), periodic wrap, argument (i-c)/(W/2), B-spline weights of order 0/1/2 (Kaiser-Bessel: the exact argument, evaluated with I0 by the harness); TLC checks window completeness, wrap range, non-negativity and the partition of unity of linear interpolation on every enumerated call (ties, negatives, far-outside points, per-axis widths). Every state is replayed on sigpy.interpolate and sigpy.gridding (transpose, coincident contributions add), real/complex, batch axis, scalar vs per-axis spelling, and on the Interpolate/Gridding linops (adjoint, A.N).",
    "design_ref": "DESIGN.md section 5 C07",
    "note": "Trusted: TLC, Rat.tla, scipy.special.i0 (KB tolerance 2e-6). 3-D grids: one in quick, three in thorough.",
    "technique": "TLA+ exact-rational kernel windows (TLC) + spec-to-code replay"}

MANIFEST_TEXT["C08"] = {
    "text": "Conv.tla defines convolution per axis as the index relation p -> {(t, u) : u = off + p*s - t} (full / valid offsets, strides), multi-D by product, channels by summation, and the admissibility rule of valid mode; TLC checks the output-length formulas, that full mode uses every pair once, that valid mode keeps only complete overlaps, flipping, and rejected <=> mixed on every enumerated configuration. The relation is contracted against Gaussian-integer arrays (exact) and compared with convolve, convolve_data_adjoint, convolve_filter_adjoint (shapes and values), inadmissible configurations must raise, and the Convolve* linops are probed for adjointness.",
    "design_ref": "DESIGN.md section 5 C08",
    "note": "Trusted: TLC, the harness's contraction of the relation. Extents bounded as listed in assumptions.",
    "technique": "TLA+ bilinear index relation (TLC exhaustive) + spec-to-code replay"}

MANIFEST_TEXT["C06"] = {
    "text": "Nufft.tla gives the exact non-uniform DFT for rational coordinates as matrices of integer exponents of a root of unity (no shared rounding with the implementation) and TLC checks periodicity, the centre reference and the periodicity of the oversampled coordinate map exactly. For every (shape, family) x (oversamp, width) the harness probes nufft to a dense matrix and measures Frobenius / random-input relative error, adjoint exactness, Gram error, batch and Toeplitz-normal defects; the thresholds are constants of AccuracyTrace.tla and TLC accepts or rejects each series.",
    "design_ref": "DESIGN.md section 5 C06",
    "note": "Accuracy is a floating-point statement: exploration level. Thresholds other than the two stated by the property are calibrated (3x measured) and frozen.",
    "technique": "TLA+ exact exponent-matrix reference + measured-defect traces validated by TLC against spec thresholds"}

MANIFEST_TEXT["C10"] = {
    "text": "Wavelet.tla computes the coefficient-array shape exactly (even padding of every axis, floor((n+L-1)/2) per analysis step, PyWavelets' maximum level rule, the [cA | cD_J | ... | cD_1] layout) for every enumerated (wavelet, shape, axes, level) and TLC checks its consistency laws; the harness compares fwt(x).shape and Wavelet.oshape with it exactly and measures perfect reconstruction, norm preservation and adjointness for real and complex input, accepted by TLC against the 1e-9 bounds of AccuracyTrace.tla.",
    "design_ref": "DESIGN.md section 5 C10",
    "note": "model_checking for the shape bookkeeping; the identities with irrational taps are numeric (self-referential, no external reference needed).",
    "technique": "TLA+ exact shape calculus (TLC) + measured identities validated against spec thresholds"}

MANIFEST_TEXT["C16"] = {
    "text": "Sense.tla models the factory's coil batching (consecutive ranges, short last batch) and TLC checks the partition laws for every coil count / batch size; for every state the harness assembles the explicit encoding matrix (centred orthonormal DFT or exact NDFT, Gaussian-integer maps, square root of weights) and compares it with the dense matrix of the real factory, its adjoint, and every batching. SenseRecon (all solvers, lamda 0 and >0, batched), TotalVariationRecon and L1WaveletRecon (Haar, unitary on the shape) are run on consistent problems: ridge closed form, image reproduction at lamda=0, and an independent numpy primal-dual reference for the l1 objectives.",
    "design_ref": "DESIGN.md section 5 C16",
    "note": "Operator clause: model_checking + exact comparison (Cartesian 1e-10; non-Cartesian within the NUFFT accuracy). Recon clause is numeric against independent references.",
    "technique": "TLA+ batching plan (TLC) + spec-to-code replay against explicit encoding matrices and reference optima"}

MANIFEST_TEXT["C19"] = {
    "text": "Bloch.tla transcribes the hard-pulse spinor recursions of abrm_hp and blochsim (order of RF and gradient steps, final half-phase) over Q(i) with Pythagorean angles; TLC checks unitarity on every prefix, the zero-pulse law and the composition law exactly; every state is replayed on the real simulators (1e-10) and composition re-checked on the code. Random complex waveforms (length 1-256, small to >pi flips, 1-3-D positions) go through all five simulators, and random / dzrf beta polynomials through b2rf + hard-pulse simulation; the measured defects are accepted by TLC against the AccuracyTrace bounds.",
    "design_ref": "DESIGN.md section 5 C19",
    "note": "model_checking for the exact hard-pulse family; simultaneous-rotation simulators, random waveforms and the SLR round trip are numeric. dzrf designs with max|B| >= 0.95 are rescaled to 0.95 (premise max|B| < 1).",
    "technique": "TLA+ exact SU(2) recursion (TLC) + replay + measured defects validated against spec thresholds"}

MANIFEST_TEXT["C17"] = {
    "text": "EspiritCalib is stepped on random and synthetic (birdcage maps) k-space over shapes, coil counts, calib/kernel widths, thresholds, crops; per power iteration the harness logs the per-voxel norm deviation and the eigenvalue estimate's range and largest decrease, and for the output the counts of voxels that are neither unit-norm nor zero, of crop mismatches, the phase reference of coil 0, the eigenvalue range and the interior error against the true maps; TLC validates every run against EspiritTrace.tla (protocol + predicates). PowerMethod.tla gives the exact integer power iteration whose monotonicity / lambda_max bound TLC checks and whose states are replayed on the real PowerMethod.",
    "design_ref": "DESIGN.md section 5 C17",
    "note": "exploration: no exact model of the SVD / eigen-iteration is attempted; the output predicates are exact, the recovery clause is numeric with calibrated bounds.",
    "technique": "trace validation by TLC of recorded App runs against a TLA+ trace specification; exact TLA+ power-iteration model"}
