"""Parser for TLA+ values as TLC prints them (-dump files, -simulate trace
modules, error traces).

Python representation:
  integer -> int            string  -> str           TRUE/FALSE -> bool
  <<..>>  -> tuple          {..}    -> frozenset     a..b       -> frozenset
  [f |-> v, ...] -> dict (str keys)
  (k :> v @@ ...) -> dict (arbitrary hashable keys)
  model value -> ModelValue(name)
"""
import re


class ModelValue(str):
    def __repr__(self):
        return "MV(%s)" % str.__repr__(self)


_TOK = re.compile(
    r"""\s*(?:
    (?P<int>-?\d+)|
    (?P<str>"(?:[^"\\]|\\.)*")|
    (?P<op><<|>>|\|->|:>|@@|\.\.|[\[\]{}(),])|
    (?P<id>[A-Za-z_][A-Za-z0-9_!]*)
    )""",
    re.X,
)


def tokenize(s):
    pos = 0
    n = len(s)
    out = []
    while pos < n:
        m = _TOK.match(s, pos)
        if not m:
            if s[pos:].strip() == "":
                break
            raise ValueError("cannot tokenize at %r" % s[pos:pos + 40])
        pos = m.end()
        k = m.lastgroup
        out.append((k, m.group(k)))
    return out


def _unescape(s):
    return (
        s[1:-1]
        .replace("\\\\", "\x00")
        .replace('\\"', '"')
        .replace("\\n", "\n")
        .replace("\\t", "\t")
        .replace("\x00", "\\")
    )


class _P:
    def __init__(self, toks):
        self.t = toks
        self.i = 0

    def peek(self):
        return self.t[self.i] if self.i < len(self.t) else (None, None)

    def next(self):
        tok = self.t[self.i]
        self.i += 1
        return tok

    def expect(self, v):
        k, x = self.next()
        if x != v:
            raise ValueError("expected %r got %r (tok %d)" % (v, x, self.i))

    def value(self):
        k, x = self.next()
        if k == "int":
            v = int(x)
            if self.peek()[1] == "..":
                self.next()
                k2, y = self.next()
                return frozenset(range(v, int(y) + 1))
            return v
        if k == "str":
            return _unescape(x)
        if k == "id":
            if x == "TRUE":
                return True
            if x == "FALSE":
                return False
            return ModelValue(x)
        if x == "<<":
            items = []
            if self.peek()[1] == ">>":
                self.next()
                return ()
            while True:
                items.append(self.value())
                k2, y = self.next()
                if y == ">>":
                    return tuple(items)
                if y != ",":
                    raise ValueError("bad tuple sep %r" % y)
        if x == "{":
            items = []
            if self.peek()[1] == "}":
                self.next()
                return frozenset()
            while True:
                items.append(_freeze(self.value()))
                k2, y = self.next()
                if y == "}":
                    return frozenset(items)
                if y != ",":
                    raise ValueError("bad set sep %r" % y)
        if x == "[":
            d = {}
            if self.peek()[1] == "]":
                self.next()
                return d
            while True:
                k2, name = self.next()
                self.expect("|->")
                d[name] = self.value()
                k3, y = self.next()
                if y == "]":
                    return d
                if y != ",":
                    raise ValueError("bad record sep %r" % y)
        if x == "(":
            d = {}
            while True:
                key = _freeze(self.value())
                self.expect(":>")
                d[key] = self.value()
                k3, y = self.next()
                if y == ")":
                    return d
                if y != "@@":
                    raise ValueError("bad function sep %r" % y)
        raise ValueError("unexpected token %r" % (x,))


def _freeze(v):
    if isinstance(v, dict):
        return tuple(sorted((k, _freeze(x)) for k, x in v.items()))
    if isinstance(v, tuple):
        return tuple(_freeze(x) for x in v)
    return v


def parse(s):
    p = _P(tokenize(s))
    v = p.value()
    if p.i != len(p.t):
        raise ValueError("trailing tokens after value: %r" % (p.t[p.i:p.i + 5],))
    return v


_STATE_HDR = re.compile(r"^State (\d+):")
_VAR = re.compile(r"^/\\ ([A-Za-z_][A-Za-z0-9_]*) = (.*)$", re.S)


def _parse_conj(block):
    """block: text of '/\\ v = value' conjuncts (values may span lines)."""
    st = {}
    cur = None
    for ln in block:
        if ln.startswith("/\\ "):
            if cur is not None:
                m = _VAR.match(cur)
                st[m.group(1)] = parse(m.group(2))
            cur = ln
        elif cur is not None:
            cur += "\n" + ln
    if cur is not None:
        m = _VAR.match(cur)
        st[m.group(1)] = parse(m.group(2))
    return st


def read_dump(path):
    """Yield one dict per state of a TLC -dump file."""
    block = []
    with open(path) as f:
        for ln in f:
            ln = ln.rstrip("\n")
            if _STATE_HDR.match(ln):
                if block:
                    yield _parse_conj(block)
                block = []
            elif ln.strip():
                block.append(ln)
    if block:
        yield _parse_conj(block)


_ACT = re.compile(r"^\\\* <(\w+)(?:\((.*)\))? line")
_STDEF = re.compile(r"^STATE_(\d+) ==")


def read_behaviour(path):
    """Parse one behaviour module written by `tlc -simulate file=...`.

    Returns a list of (action_name or None, action_args_text or None, state).
    """
    steps = []
    act = (None, None)
    block = None
    with open(path) as f:
        for ln in f:
            ln = ln.rstrip("\n")
            m = _ACT.match(ln)
            if m:
                act = (m.group(1), m.group(2))
                continue
            if _STDEF.match(ln):
                block = []
                continue
            if block is not None:
                if ln.strip() == "" or ln.startswith("===="):
                    if block:
                        steps.append((act[0], act[1], _parse_conj(block)))
                    block = None
                    act = (None, None)
                else:
                    block.append(ln)
    if block:
        steps.append((act[0], act[1], _parse_conj(block)))
    return steps


def to_tla(v):
    """Python value -> TLA+ source text (for generated MC_*.tla constants)."""
    if isinstance(v, bool):
        return "TRUE" if v else "FALSE"
    if isinstance(v, int):
        return str(v) if v >= 0 else "(%d)" % v
    if isinstance(v, ModelValue):
        return str(v)
    if isinstance(v, str):
        return '"%s"' % v.replace("\\", "\\\\").replace('"', '\\"')
    if isinstance(v, (tuple, list)):
        return "<<" + ", ".join(to_tla(x) for x in v) + ">>"
    if isinstance(v, (set, frozenset)):
        return "{" + ", ".join(to_tla(x) for x in sorted(v, key=repr)) + "}"
    if isinstance(v, dict):
        if all(isinstance(k, str) and re.match(r"^[A-Za-z_]\w*$", k) for k in v):
            if not v:
                raise ValueError("empty record")
            return "[" + ", ".join("%s |-> %s" % (k, to_tla(x)) for k, x in v.items()) + "]"
        return "(" + " @@ ".join("%s :> %s" % (to_tla(k), to_tla(x)) for k, x in v.items()) + ")"
    raise TypeError("cannot convert %r" % (v,))


def read_dot(path):
    """Parse `tlc -dump dot,actionlabels` output: returns (nodes{id: state}, edges[(src, dst, action)], initial ids)."""
    nodes, edges, init = {}, [], []
    node_re = re.compile(r'^(-?\d+) \[label="((?:[^"\\]|\\.)*)"(,style = filled)?')
    edge_re = re.compile(r'^(-?\d+) -> (-?\d+) \[label="([^"]*)"')
    with open(path) as f:
        for ln in f:
            ln = ln.rstrip("\n")
            m = edge_re.match(ln)
            if m:
                edges.append((m.group(1), m.group(2), m.group(3)))
                continue
            m = node_re.match(ln)
            if m:
                txt = m.group(2).replace("\\n", "\n").replace('\\"', '"').replace("\\\\", "\\")
                nodes[m.group(1)] = _parse_conj(txt.split("\n"))
                if m.group(3):
                    init.append(m.group(1))
    return nodes, edges, init
