----------------------------- MODULE CMat -----------------------------
(* Exact complex arithmetic over the Gaussian integers Z[i] and dense   *)
(* matrices over them.  A number is a pair <<re, im>>; a matrix is a    *)
(* sequence of rows (each a sequence of numbers) with at least one row  *)
(* and one column.  TLC's integers are 32-bit and overflow is an error, *)
(* so every value in a checked model is exact.                          *)
EXTENDS Integers, Sequences, TLC

Zero == <<0, 0>>
One == <<1, 0>>
ImagI == <<0, 1>>
CAdd(x, y) == <<x[1] + y[1], x[2] + y[2]>>
CNeg(x) == <<0 - x[1], 0 - x[2]>>
CSub(x, y) == CAdd(x, CNeg(y))
CMul(x, y) == <<x[1] * y[1] - x[2] * y[2], x[1] * y[2] + x[2] * y[1]>>
CConj(x) == <<x[1], 0 - x[2]>>
CAbs2(x) == x[1] * x[1] + x[2] * x[2]

Rows(A) == Len(A)
Cols(A) == Len(A[1])

RECURSIVE CSumTo(_, _)
CSumToB(f, n) == IF n = 0 THEN Zero ELSE CAdd(f[n], CSumTo(f, n - 1))
CSumTo(f, n) == CSumToB(f, n)   \* TLC does not cache arguments of RECURSIVE operators; the body operator does
CSum(f) == CSumTo(f, Len(f))

\* TLC evaluates [x \in S |-> e] lazily and re-evaluates e at every application,
\* which is exponential for nested matrix expressions; every matrix is therefore
\* built through Mat, which forces rows and entries with TLCEval.
Mat(r, c, F(_, _)) == TLCEval([i \in 1..r |-> TLCEval([j \in 1..c |-> F(i, j)])])

MId(n) == Mat(n, n, LAMBDA i, j : IF i = j THEN One ELSE Zero)
MZero(r, c) == Mat(r, c, LAMBDA i, j : Zero)
MMul(A, B) == Mat(Rows(A), Cols(B), LAMBDA i, j : CSum([k \in 1..Cols(A) |-> CMul(A[i][k], B[k][j])]))
MAdd(A, B) == Mat(Rows(A), Cols(A), LAMBDA i, j : CAdd(A[i][j], B[i][j]))
MScale(c, A) == Mat(Rows(A), Cols(A), LAMBDA i, j : CMul(c, A[i][j]))
MConj(A) == Mat(Rows(A), Cols(A), LAMBDA i, j : CConj(A[i][j]))
MConjT(A) == Mat(Cols(A), Rows(A), LAMBDA j, i : CConj(A[i][j]))
MVec(A, x) == TLCEval([i \in 1..Rows(A) |-> CSum([k \in 1..Cols(A) |-> CMul(A[i][k], x[k])])])

\* 0/1 matrix of an element map (see ElementMaps): row p has ones at the labels in map[p]
MapMat(map, ncols) == Mat(Len(map), ncols, LAMBDA p, q : IF q \in map[p] THEN One ELSE Zero)
=======================================================================
