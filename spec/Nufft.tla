------------------------------- MODULE Nufft -------------------------------
(* sigpy.nufft / sigpy.nufft_adjoint (sigpy/fourier.py:90-216) - C06, and the *)
(* Toeplitz normal operator of C04.                                           *)
(*                                                                           *)
(* MEANING: the non-uniform DFT  y_j = N^(-1/2) SUM_n x_n exp(-2 pi i k_j.n/N) *)
(* with n measured from the centre index N \div 2 and coordinates in grid      *)
(* units.  Coordinates are rationals a/Den per axis, so the phase of entry     *)
(* (j, n) on an axis of length N is the integer exponent                      *)
(*        E[j][n] = ( - a_j * (n - N \div 2) ) mod (Den * N)                   *)
(* of the root of unity omega = exp(2 pi i / (Den * N)); the multi-D phase is  *)
(* the product over axes.  The state carries these exponent matrices: an       *)
(* exact reference that shares no rounding with the implementation.            *)
(* MECHANISM facts checked exactly on the model: the oversampled grid length   *)
(* ceil(os * N), the coordinate map k * ceil(os N)/N + ceil(os N) \div 2 and   *)
(* its periodicity (coordinates differing by N hit the same wrapped window).   *)
EXTENDS Rat, Sequences, FiniteSets, TLC

CONSTANTS Shapes,      \* transform shapes (1..3 dims)
          Families,    \* names of coordinate families
          Den,         \* denominator of the rational coordinates (8: multiples of 1/8)
          Oversamps    \* set of rational oversampling factors

VARIABLES cfg, expo
vars == <<cfg, expo>>

\* coordinate numerators (units 1/Den) per family for an axis of length N
AxisCoords(fam, N) ==
  CASE fam = "ongrid"   -> <<0, Den, (0 - Den) * (N \div 2), Den * ((N - 1) \div 2), 2 * Den>>
    [] fam = "half"     -> <<Den \div 2, 0 - (Den \div 2), 3 * (Den \div 2), Den * (N \div 2) - Den \div 2, 0 - 5 * (Den \div 2)>>
    [] fam = "eighths"  -> <<1, -3, 5, 11, -13, 7 * N, 2 * N + 1>>
    [] fam = "cluster"  -> <<0, 1, -1, 2, 1, 0>>                            \* clustered, with duplicates
    [] fam = "outside"  -> <<Den * N + 3, 3 - Den * N, (3 * Den * N) \div 2, 0 - (3 * Den * N) \div 2 + 1, 3>>   \* +-N, +-3N/2; first, second and last alias each other
Points(fam, shape) ==   \* the j-th point takes the j-th (cyclically shifted per axis) coordinate of every axis
  LET L == Len(AxisCoords(fam, shape[1])) IN
  [j \in 1..L |-> [d \in 1..Len(shape) |-> AxisCoords(fam, shape[d])[((j - 1 + (d - 1)) % L) + 1]]]

Exponent(a, n, N) == ((0 - a) * (n - N \div 2)) % (Den * N)
ExpoMatrices(shape, pts) ==
  [d \in 1..Len(shape) |-> [j \in 1..Len(pts) |-> [n \in 1..shape[d] |-> Exponent(pts[j][d], n - 1, shape[d])]]]

Init == \E s \in Shapes, f \in Families :
           cfg = [shape |-> s, family |-> f, pts |-> Points(f, s)] /\ expo = ExpoMatrices(s, Points(f, s))
Next == UNCHANGED vars
Spec == Init /\ [][Next]_vars

\* ------------------------------------------------------------------ exact laws
\* the transform is periodic: coordinates differing by a multiple of N give identical phases
Periodic ==
  \A d \in 1..Len(cfg.shape) : \A j \in 1..Len(cfg.pts) : \A jj \in 1..Len(cfg.pts) :
     (cfg.pts[j][d] - cfg.pts[jj][d]) % (Den * cfg.shape[d]) = 0 => expo[d][j] = expo[d][jj]
\* the centre sample has phase 0 for every coordinate
CentreReference ==
  \A d \in 1..Len(cfg.shape) : \A j \in 1..Len(cfg.pts) : expo[d][j][(cfg.shape[d] \div 2) + 1] = 0
\* mechanism: oversampled grid and coordinate map; shifting a coordinate by N shifts the mapped coordinate by exactly
\* the oversampled length, so the periodic wrap of the interpolation window reproduces the periodicity
OsLen(os, N) == RCeil(RMul(os, RInt(N)))
Mapped(os, a, N) == RAdd(RMul(R(a, Den), R(OsLen(os, N), N)), RInt(OsLen(os, N) \div 2))
MechanismPeriodic ==
  \A os \in Oversamps : \A d \in 1..Len(cfg.shape) : \A j \in 1..Len(cfg.pts) :
     LET N == cfg.shape[d]  a == cfg.pts[j][d] IN
     RSub(Mapped(os, a + Den * N, N), Mapped(os, a, N)) = RInt(OsLen(os, N))
\* the oversampled grid is never shorter than the image
OsGridCoversImage == \A os \in Oversamps : \A d \in 1..Len(cfg.shape) : OsLen(os, cfg.shape[d]) >= cfg.shape[d]
============================================================================
