------------------------------- MODULE CG -------------------------------
(* sigpy.alg.ConjugateGradient (sigpy/alg.py:212-289) - property C12 and   *)
(* the `Done` rule used by C15.  Exact rational arithmetic.                *)
(*                                                                         *)
(* ALGORITHM LAYER (bound to the code): variables x, r, p, rzold, iter,    *)
(* npd and the instance A, b, x0, P, max_iter.  Init is the constructor,   *)
(* Update is _update + `iter += 1`, Done is _done.  Deliberate deviations  *)
(* of the code that the model reproduces: the LAST update (iter =          *)
(* max_iter - 1) skips the residual / direction recurrences, so r is stale *)
(* afterwards; a zero curvature p^T A p <= 0 sets the breakdown flag and   *)
(* changes nothing else.                                                   *)
(* DEFINITION LAYER (independent of the recurrences): KrylovOpt(k), the    *)
(* minimiser of the A-norm of the error over x0 + K_k(PA, P r0), written   *)
(* with Cramer's rule; xstar = A^-1 b.                                     *)
EXTENDS Rat, Sequences, TLC

CONSTANTS Mats,      \* set of symmetric matrices (sequences of rows of integers), n = 1 or 2
          Vecs(_),   \* Vecs(n): set of integer vectors used for b and x0
          Precs(_),  \* Precs(n): set of diagonal preconditioners (sequence of positive integers); <<>> = none
          MaxIters,
          TolSq      \* tol^2 as a rational (the code compares resid = sqrt(rzold) with tol)

VARIABLES A, b, x0, P, max_iter, x, r, p, rzold, iter, npd
inst == <<A, b, x0, P, max_iter>>
vars == <<A, b, x0, P, max_iter, x, r, p, rzold, iter, npd>>

N == Len(A)
\* ---------------------------------------------------------------- vectors / matrices over Rat
RECURSIVE RSum(_, _)
RSumB(f, n) == IF n = 0 THEN RInt(0) ELSE RAdd(f[n], RSum(f, n - 1))
RSum(f, n) == RSumB(f, n)
Dot(u, v) == RSum(TLCEval([i \in 1..Len(u) |-> RMul(u[i], v[i])]), Len(u))
MV(M, v) == TLCEval([i \in 1..Len(M) |-> RSum(TLCEval([j \in 1..Len(v) |-> RMul(RInt(M[i][j]), v[j])]), Len(v))])
Axpy(u, a, v) == TLCEval([i \in 1..Len(u) |-> RAdd(u[i], RMul(a, v[i]))])     \* u + a v
VSubR(u, v) == Axpy(u, RInt(-1), v)
ToRat(v) == TLCEval([i \in 1..Len(v) |-> RInt(v[i])])
ApplyP(Pd, v) == IF Pd = <<>> THEN v ELSE TLCEval([i \in 1..Len(v) |-> RMul(RInt(Pd[i]), v[i])])
IsZero(v) == \A i \in 1..Len(v) : v[i] = RInt(0)

Det2(M) == M[1][1] * M[2][2] - M[1][2] * M[2][1]
IsPD(M) == IF Len(M) = 1 THEN M[1][1] > 0 ELSE M[1][1] > 0 /\ Det2(M) > 0
IsSym(M) == \A i \in 1..Len(M) : \A j \in 1..Len(M) : M[i][j] = M[j][i]
\* A^-1 v by Cramer's rule (n <= 2)
Solve(M, v) ==
  IF Len(M) = 1 THEN <<RDiv(v[1], RInt(M[1][1]))>>
  ELSE LET d == RInt(Det2(M)) IN
       <<RDiv(RSub(RMul(RInt(M[2][2]), v[1]), RMul(RInt(M[1][2]), v[2])), d),
         RDiv(RSub(RMul(RInt(M[1][1]), v[2]), RMul(RInt(M[2][1]), v[1])), d)>>

\* ---------------------------------------------------------------- definition layer
Xstar == Solve(A, ToRat(b))
R0 == VSubR(ToRat(b), MV(A, ToRat(x0)))
Z0 == ApplyP(P, R0)
ErrA2(xx) == LET e == VSubR(Xstar, xx) IN Dot(e, MV(A, e))     \* ||x* - x||_A^2
\* minimiser of the A-norm error over x0 + span of the first k Krylov vectors
KrylovOpt(k) ==
  IF k = 0 \/ IsZero(Z0) THEN ToRat(x0)
  ELSE IF k = 1 /\ N = 2 /\
          (LET w == ApplyP(P, MV(A, Z0)) IN RSub(RMul(Z0[1], w[2]), RMul(Z0[2], w[1])) # RInt(0))
       THEN Axpy(ToRat(x0), RDiv(Dot(Z0, R0), Dot(Z0, MV(A, Z0))), Z0)      \* line search along z0
       ELSE Xstar            \* the Krylov space is exhausted (dimension n, or z0 is an eigenvector of PA)

\* ---------------------------------------------------------------- algorithm layer
Init ==
  /\ A \in Mats /\ IsSym(A)
  /\ b \in Vecs(Len(A)) /\ x0 \in Vecs(Len(A)) /\ P \in Precs(Len(A)) /\ max_iter \in MaxIters
  /\ (P # <<>> => \A i \in 1..Len(x0) : x0[i] = 0)    \* preconditioned instances start from zero (keeps the exact rationals within 32 bits)
  /\ x = ToRat(x0)
  /\ r = VSubR(ToRat(b), MV(A, ToRat(x0)))
  /\ p = ApplyP(P, VSubR(ToRat(b), MV(A, ToRat(x0))))
  /\ rzold = Dot(VSubR(ToRat(b), MV(A, ToRat(x0))), ApplyP(P, VSubR(ToRat(b), MV(A, ToRat(x0)))))
  /\ iter = 0 /\ npd = FALSE

Done == iter >= max_iter \/ npd \/ RLe(rzold, TolSq)

Update ==
  /\ ~Done
  /\ (IsPD(A) \/ iter = 0)      \* indefinite systems: only the first update (breakdown test) is explored; beyond it
                                \* the iterates are meaningless and outgrow 32-bit rationals
  /\ LET Ap == MV(A, p)
         pAp == Dot(p, Ap)
     IN IF RLe(pAp, RInt(0))
        THEN npd' = TRUE /\ UNCHANGED <<x, r, p, rzold>>
        ELSE LET al == RDiv(rzold, pAp)
                 rn == Axpy(r, RNeg(al), Ap)
                 zn == ApplyP(P, rn)
                 rzn == Dot(rn, zn)
             IN /\ x' = Axpy(x, al, p)
                /\ npd' = FALSE
                /\ IF iter < max_iter - 1
                     THEN r' = rn /\ rzold' = rzn /\ p' = Axpy(zn, RDiv(rzn, rzold), p)
                     ELSE UNCHANGED <<r, p, rzold>>
  /\ iter' = iter + 1
  /\ UNCHANGED inst
Next == Update
Spec == Init /\ [][Next]_vars

\* ---------------------------------------------------------------- properties (for Hermitian positive definite A)
HPD == IsPD(A)
IterateIsKrylovOpt == (HPD /\ ~npd) => x = KrylovOpt(iter)
ResidualIsTrue == (HPD /\ iter < max_iter) => r = VSubR(ToRat(b), MV(A, x))
ExactAtN == (HPD /\ iter >= N) => x = Xstar
ErrANonIncreasing == [][HPD => RLe(ErrA2(x'), ErrA2(x))]_vars
\* breakdown: once flagged, the solver is done and nothing moves any more
BreakdownStops == npd => Done
NoFalseBreakdown == (HPD /\ npd) => IsZero(r)       \* for PD systems p^T A p <= 0 only when already converged
CounterByOne == [][iter' = iter + 1]_iter
=========================================================================
