------------------------------- MODULE Pins -------------------------------
(* sigpy.mri.rf.multiband.dz_pins (sigpy/mri/rf/multiband.py:132-201): the   *)
(* assembly of a PINS pulse as an interleaving of n hard sub-pulses of hpw    *)
(* samples with n - 1 gradient blips of lb samples:                           *)
(*      rf : [sub][ 0 ][sub][ 0 ] ... [sub]                                   *)
(*      g  : [ 0 ][blp][ 0 ][blp] ... [ 0 ]                                   *)
(* The number of sub-pulses is n = 2 floor(ceil(tb sl_sep / sl_thick) / 2)    *)
(* (exact rational arithmetic on the request); hpw and lb come from the       *)
(* envelope design and the blip designer (properties C19 / C20) and are       *)
(* parameters here.  State: the two occupancy masks built so far.             *)
(* Safety: RF and gradient never play at the same sample, both waveforms have *)
(* the same length at every stage, every blip window is closed by a           *)
(* sub-pulse, and the pulse ends with a sub-pulse.                            *)
EXTENDS Integers, Sequences, TLC

CONSTANTS Insts     \* records [id, tbn, tbd (tb = tbn/tbd), sepn, sepd (sl_sep), thn, thd (sl_thick), hpw, lb]
VARIABLES inst, k, phase, rfm, gm
vars == <<inst, k, phase, rfm, gm>>

CeilDiv(a, b) == 0 - ((0 - a) \div b)
\* kz_width / (1 / sl_sep) = tb * sl_sep / sl_thick
NPulses == LET num == inst.tbn * inst.sepn * inst.thd
               den == inst.tbd * inst.sepd * inst.thn
           IN 2 * (CeilDiv(num, den) \div 2)
Rep(v, n) == [i \in 1..n |-> v]

Init == inst \in Insts /\ k = 0 /\ phase = "sub" /\ rfm = <<>> /\ gm = <<>>
AppendSub ==
  /\ phase = "sub" /\ k < NPulses
  /\ rfm' = rfm \o Rep(1, inst.hpw) /\ gm' = gm \o Rep(0, inst.hpw)
  /\ k' = k + 1 /\ phase' = IF k + 1 < NPulses THEN "blip" ELSE "end"
  /\ UNCHANGED inst
AppendBlip ==
  /\ phase = "blip"
  /\ rfm' = rfm \o Rep(0, inst.lb) /\ gm' = gm \o Rep(1, inst.lb)
  /\ phase' = "sub" /\ UNCHANGED <<inst, k>>
Next == AppendSub \/ AppendBlip
Spec == Init /\ [][Next]_vars /\ WF_vars(Next)

SameLength == Len(rfm) = Len(gm)
NeverTogether == \A i \in 1..Len(rfm) : ~(rfm[i] = 1 /\ gm[i] = 1)
NeverSilent == \A i \in 1..Len(rfm) : rfm[i] = 1 \/ gm[i] = 1
FinalLength == phase = "end" => Len(rfm) = (NPulses - 1) * (inst.hpw + inst.lb) + inst.hpw
EndsWithSub == phase = "end" => (Len(rfm) > 0 /\ rfm[Len(rfm)] = 1)
Finishes == NPulses >= 1 => <>(phase = "end")
===========================================================================
