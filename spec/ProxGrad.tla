----------------------------- MODULE ProxGrad -----------------------------
(* sigpy.alg.GradientMethod without acceleration (sigpy/alg.py:108-210) on    *)
(* composite problems  F(x) = f(x) + g(x),  f(x) = 1/2 x^T D x - c^T x with   *)
(* D = diag(d) = A^T A for a matrix A with orthogonal columns (so L = max d   *)
(* is exact), g in {0, lam*||.||_1, lam/2*||.||^2, box} - property C13 (and   *)
(* the early-stop rule of C15).  Exact rational arithmetic: ill-conditioned   *)
(* (d = (100, 1)) and rank-deficient (d_i = 0) instances included.            *)
(* Update mirrors _update: x' = prox_{alpha g}(x - alpha grad f(x)),          *)
(* resid = ||x' - x|| / alpha, Done = iter >= max_iter \/ resid <= tol (=0).  *)
(* x* and F* are closed forms per coordinate (independent of the iteration).  *)
EXTENDS Rat, Sequences, TLC

CONSTANTS Ds, Cs, Gkinds, LamVals, X0s, AlphaDivs, MaxIter, BoxLo, BoxHi

VARIABLES d, c, gk, lam, x0, adiv, x, iter, moved
inst == <<d, c, gk, lam, x0, adiv>>
vars == <<d, c, gk, lam, x0, adiv, x, iter, moved>>

RECURSIVE RSum(_, _)
RSumB(f, n) == IF n = 0 THEN RInt(0) ELSE RAdd(f[n], RSum(f, n - 1))
RSum(f, n) == RSumB(f, n)
N == Len(d)
MaxD == IF d[1] >= d[2] THEN d[1] ELSE d[2]
Alpha == R(1, adiv * MaxD)
RSign(q) == IF q[1] > 0 THEN 1 ELSE IF q[1] < 0 THEN 0 - 1 ELSE 0
SoftR(v, t) == IF RLe(RAbs(v), t) THEN RInt(0) ELSE RMul(RInt(RSign(v)), RSub(RAbs(v), t))
ClipB(v) == IF RLt(v, BoxLo) THEN BoxLo ELSE IF RLt(BoxHi, v) THEN BoxHi ELSE v
\* regularisation weight: for the quadratic g it is given in units of 1/alpha (keeps 1 + alpha*lam an integer)
Lam == IF gk = "l2" THEN RMul(lam, RInt(MaxD * adiv)) ELSE lam
ProxG(al, v) ==
  CASE gk = "none" -> v
    [] gk = "l1"   -> SoftR(v, RMul(al, Lam))
    [] gk = "l2"   -> RDiv(v, RAdd(RInt(1), RMul(al, Lam)))
    [] gk = "box"  -> ClipB(v)
GVal(v) ==
  CASE gk = "none" -> RInt(0)
    [] gk = "l1"   -> RMul(Lam, RAbs(v))
    [] gk = "l2"   -> RMul(RDiv(Lam, RInt(2)), RSq(v))
    [] gk = "box"  -> RInt(0)
F(xx) == RSum(TLCEval([i \in 1..N |-> RAdd(RSub(RMul(R(d[i], 2), RSq(xx[i])), RMul(RInt(c[i]), xx[i])), GVal(xx[i]))]), N)
Step(xx) == TLCEval([i \in 1..N |-> ProxG(Alpha, RSub(xx[i], RMul(Alpha, RSub(RMul(RInt(d[i]), xx[i]), RInt(c[i])))))])

\* closed-form minimiser per coordinate (independent of the iteration)
XstarI(i) ==
  LET di == RInt(d[i])  ci == RInt(c[i]) IN
  IF d[i] > 0 THEN
     CASE gk = "none" -> RDiv(ci, di)
       [] gk = "l1"   -> RDiv(SoftR(ci, Lam), di)
       [] gk = "l2"   -> RDiv(ci, RAdd(di, Lam))
       [] gk = "box"  -> ClipB(RDiv(ci, di))
  ELSE
     CASE gk = "none" -> RInt(x0[i])                     \* flat direction (c_i = 0 required): stays where it starts
       [] gk = "l1"   -> RInt(0)                         \* |c_i| <= lam required
       [] gk = "l2"   -> RDiv(ci, Lam)
       [] gk = "box"  -> IF c[i] > 0 THEN BoxHi ELSE IF c[i] < 0 THEN BoxLo ELSE ClipB(RInt(x0[i]))
Xstar == TLCEval([i \in 1..N |-> XstarI(i)])
Bounded == \A i \in 1..N : d[i] = 0 => (CASE gk = "none" -> c[i] = 0 [] gk = "l1" -> RLe(RAbs(RInt(c[i])), Lam) [] OTHER -> TRUE)
Dist2(u, v) == RSum(TLCEval([i \in 1..N |-> RSq(RSub(u[i], v[i]))]), N)
X0R == TLCEval([i \in 1..N |-> RInt(x0[i])])
Feasible0 == gk = "box" => \A i \in 1..N : RLe(BoxLo, RInt(x0[i])) /\ RLe(RInt(x0[i]), BoxHi)

Init ==
  /\ d \in Ds /\ c \in Cs /\ gk \in Gkinds /\ lam \in LamVals /\ adiv \in AlphaDivs
  \* initial points: the configured ones, or (for d = (1,1)) the minimiser of the smooth part, where
  \* grad f(x0) = 0 although the proximal step still moves x
  /\ (x0 \in X0s \/ (d = <<1, 1>> /\ x0 = c))
  /\ Bounded /\ Feasible0
  /\ x = TLCEval([i \in 1..Len(d) |-> RInt(x0[i])]) /\ iter = 0 /\ moved = TRUE
Done == iter >= MaxIter \/ ~moved          \* tol = 0: resid = ||x - x_old||/alpha <= 0 iff nothing moved
Update ==
  /\ ~Done
  /\ (gk = "l2" => iter < 2)     \* 32-bit rationals: x* = c/(d + lam) has non-dyadic denominators, two exact steps fit
  /\ x' = Step(x) /\ moved' = (Step(x) # x) /\ iter' = iter + 1 /\ UNCHANGED inst
Next == Update
Spec == Init /\ [][Next]_vars

\* ------------------------------------------------------------------ properties
ObjectiveNonIncreasing == [][RLe(F(x'), F(x))]_vars
\* F(x_k) - F* <= L ||x0 - x*||^2 / (2k)
GapBound == iter >= 1 =>
   RLe(RMul(RSub(F(x), F(Xstar)), RInt(2 * iter)), RMul(RInt(MaxD * adiv), Dist2(X0R, Xstar)))
XstarIsFixed == Step(Xstar) = Xstar
\* an early stop (nothing moved, budget left) happens only at a minimiser
EarlyStopOnlyAtFixedPoint == (~moved /\ iter < MaxIter) => (Step(x) = x /\ \A i \in 1..N : d[i] > 0 => x[i] = Xstar[i])
\* every coordinate moves monotonically towards its minimiser (the problems are separable)
DistanceNonIncreasing == [][\A i \in 1..N : RLe(RAbs(RSub(x'[i], Xstar[i])), RAbs(RSub(x[i], Xstar[i])))]_vars
\* NOTE: GapBound (F - F* with mixed denominators) exceeds TLC's 32-bit integers on most instances; it is
\* evaluated by the conformance harness in unbounded rational arithmetic on the exact iterates TLC dumps.
==========================================================================
