--------------------------- MODULE ElementMaps ---------------------------
(* MEANING of sigpy's array rearrangement functions as element maps:     *)
(*   output position (1-based flat, row-major) -> SET of input labels    *)
(* whose values are summed there (empty set = zero).  Written from the   *)
(* docstrings / property statement C09, not from the code.  Pure         *)
(* definitions: used by IndexMaps.tla (state machine over calls) and by  *)
(* LinopAlgebra.tla (as the matrices of the corresponding Linop atoms).  *)
EXTENDS Shape

None == <<>>   \* the Python None for optional sequence arguments (explicit sequences are non-empty)

\* ---------------------------------------------------------------- helpers
\* gather: every output position reads at most one input element;
\* Src(d, k) is the 0-based input coordinate on axis d for output
\* coordinate k, or -1 for "nothing there".
\* (TLCEval forces the lazily evaluated function; see the note in CMat.tla)
Gather(oshape, ishape, Src(_, _)) ==
  TLCEval([p \in 1..Prod(oshape) |->
     LET k == MultiOf(p - 1, oshape)
         j == TLCEval([d \in 1..Len(oshape) |-> Src(d, k[d])])
     IN IF \E d \in 1..Len(oshape) : j[d] < 0 THEN {} ELSE {FlatOf(j, ishape) + 1}])

SeqsOver(S, n) == [1..n -> S]

\* axes arguments: None, or a sequence of one or two distinct axes written with
\* non-negative or negative indices
AxesArgs(r) ==
  {None} \cup {<<a>> : a \in (-r)..(r - 1)}
         \cup {ab \in ((-r)..(r - 1)) \X ((-r)..(r - 1)) : ab[1] % r # ab[2] % r}
AxesSet(axes, r) == IF axes = None THEN 0..(r - 1) ELSE {axes[i] % r : i \in 1..Len(axes)}

\* ---------------------------------------------------------------- resize
\* "zero-pads or crops with index n//2 of the input aligned to index m//2 of
\* the output (or by the given shifts)".  Shapes of different rank are first
\* left-padded with ones (numpy convention) and the result reshaped.
DefaultShift(n, m) == Max2((n \div 2) - (m \div 2), 0)
ResizeSrc(n, m, is, os, k) ==
  LET t == k - os IN IF t >= 0 /\ is + t < n THEN is + t ELSE -1
ResizeOut(ishape, oshape, ishift, oshift) ==
  LET r  == Max2(Len(ishape), Len(oshape))
      i1 == PadLeft(ishape, r)
      o1 == PadLeft(oshape, r)
      is == IF ishift = None THEN TLCEval([d \in 1..r |-> DefaultShift(i1[d], o1[d])]) ELSE ishift
      os == IF oshift = None THEN TLCEval([d \in 1..r |-> DefaultShift(o1[d], i1[d])]) ELSE oshift
  IN Gather(o1, i1, LAMBDA d, k : ResizeSrc(i1[d], o1[d], is[d], os[d], k))
\* the centre-alignment reading of the default, stated independently
ResizeCentreOut(ishape, oshape) ==
  LET r  == Max2(Len(ishape), Len(oshape))
      i1 == PadLeft(ishape, r)
      o1 == PadLeft(oshape, r)
  IN Gather(o1, i1, LAMBDA d, k :
        LET j == k - (o1[d] \div 2) + (i1[d] \div 2) IN IF j >= 0 /\ j < i1[d] THEN j ELSE -1)

\* ---------------------------------------------------------------- flip / circshift
FlipOut(shape, axes) ==
  LET A == AxesSet(axes, Len(shape)) IN
  Gather(shape, shape, LAMBDA d, k : IF (d - 1) \in A THEN shape[d] - 1 - k ELSE k)

\* total shift applied to axis d (0-based) by the (axis, shift) pairs
RECURSIVE RollOn(_, _, _, _)
RollOnB(d, axes, shifts, r) ==
  IF Len(shifts) = 0 THEN 0
  ELSE (IF (IF axes = None THEN Len(shifts) = r - d ELSE Head(axes) % r = d) THEN Head(shifts) ELSE 0)
       + RollOn(d, IF axes = None THEN None ELSE Tail(axes), Tail(shifts), r)
RollOn(d, axes, shifts, r) == RollOnB(d, axes, shifts, r)   \* TLC does not cache arguments of RECURSIVE operators; the body operator does
\* element at position j moves to (j + shift) mod n
CircshiftOut(shape, shifts, axes) ==
  LET r == Len(shape) IN
  Gather(shape, shape, LAMBDA d, k : (k - RollOn(d - 1, axes, shifts, r)) % shape[d])

\* ---------------------------------------------------------------- down / upsample
CeilDiv(a, b) == (a + b - 1) \div b
DownShape(ishape, f, s) == TLCEval([d \in 1..Len(ishape) |-> CeilDiv(ishape[d] - s[d], f[d])])
DownsampleOut(ishape, f, s) ==
  Gather(DownShape(ishape, f, s), ishape, LAMBDA d, k : s[d] + k * f[d])
\* upsample(input, oshape, factors, shift): input has shape DownShape(oshape, f, s)
UpsampleOut(oshape, f, s) ==
  Gather(oshape, DownShape(oshape, f, s), LAMBDA d, k :
     IF k >= s[d] /\ (k - s[d]) % f[d] = 0 THEN (k - s[d]) \div f[d] ELSE -1)

\* ---------------------------------------------------------------- blocks
\* input [batch..., N_1..N_D]; blocks of extent B_d start at every multiple of
\* S_d that leaves the whole window inside the array
NumBlks(N, B, S) == TLCEval([d \in 1..Len(N) |-> (N[d] - B[d] + S[d]) \div S[d]])
A2BShape(batch, N, B, S) == batch \o NumBlks(N, B, S) \o B
A2BOut(batch, N, B, S) ==
  LET D == Len(N)  nb == Len(batch)
      osh == A2BShape(batch, N, B, S)
      ish == batch \o N
  IN TLCEval([p \in 1..Prod(osh) |->
        LET k == MultiOf(p - 1, osh)
            j == TLCEval([d \in 1..(nb + D) |->
                    IF d <= nb THEN k[d]
                    ELSE k[nb + (d - nb)] * S[d - nb] + k[nb + D + (d - nb)]])
        IN {FlatOf(j, ish) + 1}])
\* blocks_to_array: "sums blocks back into place, so overlapping positions
\* accumulate and positions not covered stay zero"
B2AOut(batch, N, B, S) ==
  LET D == Len(N)  nb == Len(batch)
      nblk == NumBlks(N, B, S)
      ish == A2BShape(batch, N, B, S)
      osh == batch \o N
  IN TLCEval([p \in 1..Prod(osh) |->
        LET i == MultiOf(p - 1, osh)
            \* per block axis: the (block number, offset) pairs that land on i
            pairs(d) == {nc \in (0..(nblk[d] - 1)) \X (0..(B[d] - 1)) : nc[1] * S[d] + nc[2] = i[nb + d]}
            allpairs == UNION {pairs(d) : d \in 1..D}
            choices == {c \in [1..D -> allpairs] : \A d \in 1..D : c[d] \in pairs(d)}
        IN TLCEval({FlatOf([d \in 1..(nb + 2 * D) |->
                      IF d <= nb THEN i[d]
                      ELSE IF d <= nb + D THEN c[d - nb][1] ELSE c[d - nb - D][2]], ish) + 1
             : c \in choices})])

\* composition of two label maps: first f (ishape -> mid), then g (mid -> out)
Compose2(g, f) == TLCEval([p \in DOMAIN g |-> UNION {f[q] : q \in g[p]}])
IdMap(n) == TLCEval([p \in 1..n |-> {p}])
TransposeOf(f, nin) == TLCEval([q \in 1..nin |-> TLCEval({p \in DOMAIN f : q \in f[p]})])

=======================================================================
