------------------------------ MODULE Interp ------------------------------
(* sigpy.interpolate / sigpy.gridding (sigpy/interp.py) - property C07, and  *)
(* the meaning of the Interpolate / Gridding operators for C01.              *)
(*                                                                          *)
(* MEANING (docstring): for a coordinate c (per axis), kernel full width W   *)
(* and kernel K, every integer grid index i with |i - c| <= W/2 contributes  *)
(* K((i - c)/(W/2)), separably over the axes, and lands on index i mod n     *)
(* (periodic wrap); coincident and wrapped contributions ADD.  gridding      *)
(* accumulates with the same weights: it is the transpose.                   *)
(* A state is one call: grid shape, one or two sample points with exact      *)
(* rational coordinates (incl. ceil/floor ties, negatives, far outside the   *)
(* grid), per-axis widths and kernel parameters.  The state carries, per     *)
(* point and axis, the window  <<i, i mod n, argument (i-c)/(W/2), weight>>  *)
(* (weight exact for the B-splines of order 0, 1, 2; for Kaiser-Bessel the   *)
(* harness evaluates I0(beta*sqrt(1 - arg^2)) from the exact argument).      *)
EXTENDS Rat, Sequences, FiniteSets, TLC

CONSTANTS Grids,      \* set of grid shapes (1..3 dims)
          CoordVals,  \* rational coordinate values per axis
          Widths,     \* rational kernel widths
          Kernels,    \* subset of {"spline0", "spline1", "spline2", "kb"}
          AxisWidths, \* set of per-axis width tuples (sequences, one width per axis) tried in addition to scalar widths
          Coords2     \* coordinate values used when the grid has more than one axis

VARIABLES cfg, win
vars == <<cfg, win>>

Half == R(1, 2)
\* B-splines on [-1, 1] as documented
Spline(order, x) ==
  LET ax == RAbs(x) IN
  IF RLt(RInt(1), ax) THEN RInt(0)
  ELSE CASE order = 0 -> RInt(1)
         [] order = 1 -> RSub(RInt(1), ax)
         [] order = 2 -> IF RLt(R(1, 3), ax) THEN RMul(R(9, 8), RSq(RSub(RInt(1), ax)))
                         ELSE RMul(R(3, 4), RSub(RInt(1), RMul(RInt(3), RSq(x))))
\* window of one axis: indices ceil(c - W/2) .. floor(c + W/2)
Window(n, c, W, kern) ==
  LET lo == RCeil(RSub(c, RMul(W, Half)))
      hi == RFloor(RAdd(c, RMul(W, Half)))
  IN [t \in 1..(IF hi >= lo THEN hi - lo + 1 ELSE 0) |->
        LET i == lo + t - 1
            arg == RDiv(RSub(RInt(i), c), RMul(W, Half))
        IN [i |-> i, wrapped |-> i % n, arg |-> arg,
            w |-> CASE kern = "spline0" -> Spline(0, arg) [] kern = "spline1" -> Spline(1, arg)
                    [] kern = "spline2" -> Spline(2, arg) [] OTHER -> RInt(0),
            \* the weights of all three spline orders: `param` may differ per axis (order 2 along z, 1 along y, 0 along x, ...)
            ws |-> <<Spline(0, arg), Spline(1, arg), Spline(2, arg)>>]]

Points(r) == [1..r -> IF r = 1 THEN CoordVals ELSE Coords2]
WidthArgs(r) == {[d \in 1..r |-> w] : w \in Widths} \cup {ws \in AxisWidths : Len(ws) = r}

\* the grid and kernel are chosen in the initial state (many initial states: TLC explores them in parallel)
Init == /\ \E g \in Grids, k \in Kernels : cfg = [grid |-> g, pts |-> <<>>, widths |-> <<>>, kernel |-> k, called |-> FALSE]
        /\ win = <<>>
Call ==
  /\ ~cfg.called
  /\ LET g == cfg.grid  k == cfg.kernel IN
     \E ws \in WidthArgs(Len(g)) : \E p \in Points(Len(g)) :
        /\ cfg' = [grid |-> g, pts |-> <<p>>, widths |-> ws, kernel |-> k, called |-> TRUE]
        /\ win' = <<[d \in 1..Len(g) |-> Window(g[d], p[d], ws[d], k)]>>
Next == Call
Spec == Init /\ [][Next]_vars

Called == cfg.called
\* every contributing index is within half a width, none is missed
WindowComplete ==
  Called => \A j \in 1..Len(win) : \A d \in 1..Len(cfg.grid) :
     LET c == cfg.pts[j][d]  hw == RMul(cfg.widths[d], Half)  W == win[j][d] IN
     /\ \A t \in 1..Len(W) : RLe(RAbs(RSub(RInt(W[t].i), c)), hw) /\ RLe(RAbs(W[t].arg), RInt(1))
     /\ \A i \in (RFloor(RSub(c, hw)) - 1)..(RCeil(RAdd(c, hw)) + 1) :
          RLe(RAbs(RSub(RInt(i), c)), hw) => \E t \in 1..Len(W) : W[t].i = i
WrapInGrid == Called => \A j \in 1..Len(win) : \A d \in 1..Len(cfg.grid) : \A t \in 1..Len(win[j][d]) :
                 win[j][d][t].wrapped \in 0..(cfg.grid[d] - 1)
WeightsNonNegative == Called => \A j \in 1..Len(win) : \A d \in 1..Len(cfg.grid) : \A t \in 1..Len(win[j][d]) :
                 RLe(RInt(0), win[j][d][t].w)
\* linear interpolation with the documented width = order + 1 reproduces constants (weights sum to one)
LinearPartitionOfUnity ==
  (Called /\ cfg.kernel = "spline1") => \A j \in 1..Len(win) : \A d \in 1..Len(cfg.grid) :
     cfg.widths[d] = RInt(2) =>
        LET W == win[j][d]
            RECURSIVE S(_)
            S(t) == IF t = 0 THEN RInt(0) ELSE RAdd(W[t].w, S(t - 1))
        IN S(Len(W)) = RInt(1)
===========================================================================
