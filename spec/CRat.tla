------------------------------ MODULE CRat ------------------------------
(* Complex rationals Q(i): pairs <<re, im>> of Rat.                       *)
EXTENDS Rat
C0 == <<RInt(0), RInt(0)>>
C1 == <<RInt(1), RInt(0)>>
CI == <<RInt(0), RInt(1)>>
CAddQ(a, b) == <<RAdd(a[1], b[1]), RAdd(a[2], b[2])>>
CSubQ(a, b) == <<RSub(a[1], b[1]), RSub(a[2], b[2])>>
CMulQ(a, b) == <<RSub(RMul(a[1], b[1]), RMul(a[2], b[2])), RAdd(RMul(a[1], b[2]), RMul(a[2], b[1]))>>
CScale(q, a) == <<RMul(q, a[1]), RMul(q, a[2])>>
CConjQ(a) == <<a[1], RNeg(a[2])>>
CNegQ(a) == <<RNeg(a[1]), RNeg(a[2])>>
CAbs2Q(a) == RAdd(RSq(a[1]), RSq(a[2]))
=========================================================================
