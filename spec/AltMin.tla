------------------------------ MODULE AltMin ------------------------------
(* sigpy.alg.AltMin (sigpy/alg.py:439-456): block coordinate descent, the    *)
(* skeleton of JsenseRecon.  The class owns exactly the ORDER min1-then-min2 *)
(* (Gauss-Seidel: min2 sees the block min1 has just written) and the         *)
(* counter; both minimisers are closures of the caller.                      *)
(* Instances: F(a, b) = 1/2 (a - b)^2 + q1/2 (a - p1)^2 + q2/2 (b - p2)^2    *)
(* per component; the joint minimiser is the solution of a 2x2 system.       *)
EXTENDS Rat, Sequences, TLC

CONSTANTS Insts,     \* records [q1, p1, q2, p2 : Rat, a0, b0 : Rat]
          MaxIters
VARIABLES inst, max_iter, iter, pc, a, b
vars == <<inst, max_iter, iter, pc, a, b>>

F(aa, bb) == RAdd(RAdd(RDiv(RSq(RSub(aa, bb)), RInt(2)), RMul(RDiv(inst.q1, RInt(2)), RSq(RSub(aa, inst.p1)))),
                  RMul(RDiv(inst.q2, RInt(2)), RSq(RSub(bb, inst.p2))))
Min1(bb) == RDiv(RAdd(bb, RMul(inst.q1, inst.p1)), RAdd(RInt(1), inst.q1))
Min2(aa) == RDiv(RAdd(aa, RMul(inst.q2, inst.p2)), RAdd(RInt(1), inst.q2))
\* (1+q1) a - b = q1 p1,  -a + (1+q2) b = q2 p2
Det == RSub(RMul(RAdd(RInt(1), inst.q1), RAdd(RInt(1), inst.q2)), RInt(1))
AStar == RDiv(RAdd(RMul(RMul(inst.q1, inst.p1), RAdd(RInt(1), inst.q2)), RMul(inst.q2, inst.p2)), Det)
BStar == RDiv(RAdd(RMul(RMul(inst.q2, inst.p2), RAdd(RInt(1), inst.q1)), RMul(inst.q1, inst.p1)), Det)

Init == inst \in Insts /\ max_iter \in {m \in MaxIters : m <= inst.cap} /\ iter = 0 /\ pc = "min1" /\ a = inst.a0 /\ b = inst.b0
Done == iter >= max_iter
StepMin1 == pc = "min1" /\ ~Done /\ a' = Min1(b) /\ pc' = "min2" /\ UNCHANGED <<inst, max_iter, iter, b>>
StepMin2 == pc = "min2" /\ b' = Min2(a) /\ pc' = "min1" /\ iter' = iter + 1 /\ UNCHANGED <<inst, max_iter, a>>
Next == StepMin1 \/ StepMin2
Spec == Init /\ [][Next]_vars /\ WF_vars(Next)

ObjectiveNonIncreasing == [][RLe(F(a', b'), F(a, b))]_vars
FixedPointIsMinimiser == (pc = "min1" /\ Min1(b) = a /\ Min2(Min1(b)) = b) => (a = AStar /\ b = BStar)
MinimiserIsFixed == (pc = "min1" /\ a = AStar /\ b = BStar) => (Min1(b) = a /\ Min2(a) = b)
\* linear convergence: the error of block b contracts by 1/((1+q1)(1+q2)) per update
Contraction == [][pc = "min2" => RSub(Min2(a), BStar) = RDiv(RSub(b, BStar), RMul(RAdd(RInt(1), inst.q1), RAdd(RInt(1), inst.q2)))]_vars
CounterOnlyOnMin2 == [][iter' # iter => (pc = "min2" /\ iter' = iter + 1)]_vars
Terminates == <>(Done /\ pc = "min1")
=========================================================================
