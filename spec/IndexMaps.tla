--------------------------- MODULE IndexMaps ---------------------------
(* Array rearrangement functions of sigpy (property C09; reused as the  *)
(* MEANING of the corresponding Linop atoms in LinopAlgebra.tla).       *)
(*                                                                      *)
(* Models: sigpy.util.resize / flip / circshift / downsample / upsample *)
(* (sigpy/util.py:120-249) and sigpy.block.array_to_blocks /            *)
(* blocks_to_array (sigpy/block.py).                                    *)
(*                                                                      *)
(* Everything here is MEANING, written from the docstrings and the      *)
(* property statement, not from the code: a function is described by    *)
(* the map  output position -> SET of input labels whose values are     *)
(* summed there (the empty set is a zero).  Labels are 1-based flat     *)
(* row-major positions (module Shape).  N-D maps are products of        *)
(* per-axis maps.  The conformance harness feeds labelled arrays to the *)
(* real functions and compares element by element.                      *)
(*                                                                      *)
(* One state of this specification = one call of one function with one  *)
(* parameter tuple; TLC enumerates all tuples in the configured         *)
(* bounds and checks the algebraic laws below on every one of them.     *)
EXTENDS Shape, TLC

CONSTANTS Shapes,       \* set of array shapes (sequences of positive integers)
          ShiftVals,    \* explicit resize / resample shifts
          Factors,      \* down/upsampling factors
          BlkSizes,     \* block extents
          Strides,      \* block strides
          RollVals,     \* circular shifts (may exceed the extent, may be negative)
          BatchShapes,  \* leading batch shapes for the block functions
          Ops           \* which functions this configuration enumerates

VARIABLES op, par, out
vars == <<op, par, out>>

None == <<>>   \* the Python None for optional sequence arguments (explicit sequences are non-empty)

\* ---------------------------------------------------------------- helpers
\* gather: every output position reads at most one input element;
\* Src(d, k) is the 0-based input coordinate on axis d for output
\* coordinate k, or -1 for "nothing there".
Gather(oshape, ishape, Src(_, _)) ==
  [p \in 1..Prod(oshape) |->
     LET k == MultiOf(p - 1, oshape)
         j == [d \in 1..Len(oshape) |-> Src(d, k[d])]
     IN IF \E d \in 1..Len(oshape) : j[d] < 0 THEN {} ELSE {FlatOf(j, ishape) + 1}]

SeqsOver(S, n) == [1..n -> S]

\* axes arguments: None, or a sequence of one or two distinct axes written with
\* non-negative or negative indices
AxesArgs(r) ==
  {None} \cup {<<a>> : a \in (-r)..(r - 1)}
         \cup {ab \in ((-r)..(r - 1)) \X ((-r)..(r - 1)) : ab[1] % r # ab[2] % r}
AxesSet(axes, r) == IF axes = None THEN 0..(r - 1) ELSE {axes[i] % r : i \in 1..Len(axes)}

\* ---------------------------------------------------------------- resize
\* "zero-pads or crops with index n//2 of the input aligned to index m//2 of
\* the output (or by the given shifts)".  Shapes of different rank are first
\* left-padded with ones (numpy convention) and the result reshaped.
DefaultShift(n, m) == Max2((n \div 2) - (m \div 2), 0)
ResizeSrc(n, m, is, os, k) ==
  LET t == k - os IN IF t >= 0 /\ is + t < n THEN is + t ELSE -1
ResizeOut(ishape, oshape, ishift, oshift) ==
  LET r  == Max2(Len(ishape), Len(oshape))
      i1 == PadLeft(ishape, r)
      o1 == PadLeft(oshape, r)
      is == IF ishift = None THEN [d \in 1..r |-> DefaultShift(i1[d], o1[d])] ELSE ishift
      os == IF oshift = None THEN [d \in 1..r |-> DefaultShift(o1[d], i1[d])] ELSE oshift
  IN Gather(o1, i1, LAMBDA d, k : ResizeSrc(i1[d], o1[d], is[d], os[d], k))
\* the centre-alignment reading of the default, stated independently
ResizeCentreOut(ishape, oshape) ==
  LET r  == Max2(Len(ishape), Len(oshape))
      i1 == PadLeft(ishape, r)
      o1 == PadLeft(oshape, r)
  IN Gather(o1, i1, LAMBDA d, k :
        LET j == k - (o1[d] \div 2) + (i1[d] \div 2) IN IF j >= 0 /\ j < i1[d] THEN j ELSE -1)

\* ---------------------------------------------------------------- flip / circshift
FlipOut(shape, axes) ==
  LET A == AxesSet(axes, Len(shape)) IN
  Gather(shape, shape, LAMBDA d, k : IF (d - 1) \in A THEN shape[d] - 1 - k ELSE k)

\* total shift applied to axis d (0-based) by the (axis, shift) pairs
RECURSIVE RollOn(_, _, _, _)
RollOn(d, axes, shifts, r) ==
  IF Len(shifts) = 0 THEN 0
  ELSE (IF (IF axes = None THEN Len(shifts) = r - d ELSE Head(axes) % r = d) THEN Head(shifts) ELSE 0)
       + RollOn(d, IF axes = None THEN None ELSE Tail(axes), Tail(shifts), r)
\* element at position j moves to (j + shift) mod n
CircshiftOut(shape, shifts, axes) ==
  LET r == Len(shape) IN
  Gather(shape, shape, LAMBDA d, k : (k - RollOn(d - 1, axes, shifts, r)) % shape[d])

\* ---------------------------------------------------------------- down / upsample
CeilDiv(a, b) == (a + b - 1) \div b
DownShape(ishape, f, s) == [d \in 1..Len(ishape) |-> CeilDiv(ishape[d] - s[d], f[d])]
DownsampleOut(ishape, f, s) ==
  Gather(DownShape(ishape, f, s), ishape, LAMBDA d, k : s[d] + k * f[d])
\* upsample(input, oshape, factors, shift): input has shape DownShape(oshape, f, s)
UpsampleOut(oshape, f, s) ==
  Gather(oshape, DownShape(oshape, f, s), LAMBDA d, k :
     IF k >= s[d] /\ (k - s[d]) % f[d] = 0 THEN (k - s[d]) \div f[d] ELSE -1)

\* ---------------------------------------------------------------- blocks
\* input [batch..., N_1..N_D]; blocks of extent B_d start at every multiple of
\* S_d that leaves the whole window inside the array
NumBlks(N, B, S) == [d \in 1..Len(N) |-> (N[d] - B[d] + S[d]) \div S[d]]
A2BShape(batch, N, B, S) == batch \o NumBlks(N, B, S) \o B
A2BOut(batch, N, B, S) ==
  LET D == Len(N)  nb == Len(batch)
      osh == A2BShape(batch, N, B, S)
      ish == batch \o N
  IN [p \in 1..Prod(osh) |->
        LET k == MultiOf(p - 1, osh)
            j == [d \in 1..(nb + D) |->
                    IF d <= nb THEN k[d]
                    ELSE k[nb + (d - nb)] * S[d - nb] + k[nb + D + (d - nb)]]
        IN {FlatOf(j, ish) + 1}]
\* blocks_to_array: "sums blocks back into place, so overlapping positions
\* accumulate and positions not covered stay zero"
B2AOut(batch, N, B, S) ==
  LET D == Len(N)  nb == Len(batch)
      nblk == NumBlks(N, B, S)
      ish == A2BShape(batch, N, B, S)
      osh == batch \o N
  IN [p \in 1..Prod(osh) |->
        LET i == MultiOf(p - 1, osh)
            \* per block axis: the (block number, offset) pairs that land on i
            pairs(d) == {nc \in (0..(nblk[d] - 1)) \X (0..(B[d] - 1)) : nc[1] * S[d] + nc[2] = i[nb + d]}
            allpairs == UNION {pairs(d) : d \in 1..D}
            choices == {c \in [1..D -> allpairs] : \A d \in 1..D : c[d] \in pairs(d)}
        IN {FlatOf([d \in 1..(nb + 2 * D) |->
                      IF d <= nb THEN i[d]
                      ELSE IF d <= nb + D THEN c[d - nb][1] ELSE c[d - nb - D][2]], ish) + 1
             : c \in choices}]

\* ---------------------------------------------------------------- actions
Init == op = "init" /\ par = <<>> /\ out = <<>>

SameRank(s) == {t \in Shapes : Len(t) = Len(s)}
ShiftArgs(limit) ==  \* None or one explicit shift per axis, inside the array
  {None} \cup {s \in SeqsOver(ShiftVals, Len(limit)) : \A d \in 1..Len(limit) : s[d] < limit[d]}

DoResize ==
  /\ op = "init" /\ "resize" \in Ops
  /\ \E ishape \in Shapes, oshape \in Shapes :
       LET r == Max2(Len(ishape), Len(oshape)) IN
       \E ishift \in ShiftArgs(PadLeft(ishape, r)), oshift \in ShiftArgs(PadLeft(oshape, r)) :
          /\ op' = "resize"
          /\ par' = [ishape |-> ishape, oshape |-> oshape, ishift |-> ishift, oshift |-> oshift]
          /\ out' = ResizeOut(ishape, oshape, ishift, oshift)

DoFlip ==
  /\ op = "init" /\ "flip" \in Ops
  /\ \E shape \in Shapes : \E axes \in AxesArgs(Len(shape)) :
          /\ op' = "flip"
          /\ par' = [ishape |-> shape, oshape |-> shape, axes |-> axes]
          /\ out' = FlipOut(shape, axes)

DoCircshift ==
  /\ op = "init" /\ "circshift" \in Ops
  /\ \E shape \in Shapes : \E axes \in AxesArgs(Len(shape)) :
       \E shifts \in SeqsOver(RollVals, IF axes = None THEN Len(shape) ELSE Len(axes)) :
          /\ op' = "circshift"
          /\ par' = [ishape |-> shape, oshape |-> shape, axes |-> axes, shifts |-> shifts]
          /\ out' = CircshiftOut(shape, shifts, axes)

ResampleArgs(shape) ==
  {fs \in SeqsOver(Factors, Len(shape)) \X SeqsOver(ShiftVals, Len(shape)) :
      \A d \in 1..Len(shape) : fs[2][d] < shape[d]}

DoDownsample ==
  /\ op = "init" /\ "downsample" \in Ops
  /\ \E ishape \in Shapes : \E fs \in ResampleArgs(ishape) :
          /\ op' = "downsample"
          /\ par' = [ishape |-> ishape, oshape |-> DownShape(ishape, fs[1], fs[2]),
                     factors |-> fs[1], shift |-> fs[2]]
          /\ out' = DownsampleOut(ishape, fs[1], fs[2])

DoUpsample ==
  /\ op = "init" /\ "upsample" \in Ops
  /\ \E oshape \in Shapes : \E fs \in ResampleArgs(oshape) :
          /\ op' = "upsample"
          /\ par' = [ishape |-> DownShape(oshape, fs[1], fs[2]), oshape |-> oshape,
                     factors |-> fs[1], shift |-> fs[2]]
          /\ out' = UpsampleOut(oshape, fs[1], fs[2])

BlockArgs(N) ==
  {bs \in SeqsOver(BlkSizes, Len(N)) \X SeqsOver(Strides, Len(N)) :
      \A d \in 1..Len(N) : bs[1][d] <= N[d]}

DoA2B ==
  /\ op = "init" /\ "a2b" \in Ops
  /\ \E N \in Shapes, batch \in BatchShapes : \E bs \in BlockArgs(N) :
          /\ op' = "a2b"
          /\ par' = [ishape |-> batch \o N, oshape |-> A2BShape(batch, N, bs[1], bs[2]),
                     batch |-> batch, N |-> N, B |-> bs[1], S |-> bs[2]]
          /\ out' = A2BOut(batch, N, bs[1], bs[2])

DoB2A ==
  /\ op = "init" /\ "b2a" \in Ops
  /\ \E N \in Shapes, batch \in BatchShapes : \E bs \in BlockArgs(N) :
          /\ op' = "b2a"
          /\ par' = [ishape |-> A2BShape(batch, N, bs[1], bs[2]), oshape |-> batch \o N,
                     batch |-> batch, N |-> N, B |-> bs[1], S |-> bs[2]]
          /\ out' = B2AOut(batch, N, bs[1], bs[2])

Next == DoResize \/ DoFlip \/ DoCircshift \/ DoDownsample \/ DoUpsample \/ DoA2B \/ DoB2A
Spec == Init /\ [][Next]_vars

\* ---------------------------------------------------------------- laws (checked by TLC on every state)
\* composition of two label maps: first f (ishape -> mid), then g (mid -> out)
Compose2(g, f) == [p \in DOMAIN g |-> UNION {f[q] : q \in g[p]}]
IdMap(n) == [p \in 1..n |-> {p}]
TransposeOf(f, nin) == [q \in 1..nin |-> {p \in DOMAIN f : q \in f[p]}]

TypeOK == op = "init" \/ (Len(out) = Prod(par.oshape) /\ \A p \in DOMAIN out : out[p] \subseteq 1..Prod(par.ishape))

\* default resize is the centre-aligned pad/crop
ResizeCentreLaw ==
  (op = "resize" /\ par.ishift = None /\ par.oshift = None)
     => out = ResizeCentreOut(par.ishape, par.oshape)
\* cropping a padded array back gives the array (default shifts)
ResizeRoundTrip ==
  (op = "resize" /\ par.ishift = None /\ par.oshift = None /\ Len(par.ishape) = Len(par.oshape)
      /\ \A d \in 1..Len(par.ishape) : par.oshape[d] >= par.ishape[d])
     => Compose2(ResizeOut(par.oshape, par.ishape, None, None), out) = IdMap(Prod(par.ishape))
\* resize with swapped shifts is the transpose (this is what Resize.H relies on)
ResizeSwapIsTranspose ==
  (op = "resize" /\ Len(par.ishape) = Len(par.oshape))
     => ResizeOut(par.oshape, par.ishape, par.oshift, par.ishift) = TransposeOf(out, Prod(par.ishape))
FlipInvolution ==
  op = "flip" => Compose2(out, out) = IdMap(Prod(par.ishape))
CircshiftInverse ==
  op = "circshift" =>
     Compose2(CircshiftOut(par.ishape, [i \in DOMAIN par.shifts |-> 0 - par.shifts[i]], par.axes), out)
        = IdMap(Prod(par.ishape))
PermutationLaw ==  \* flip and circshift are permutations
  op \in {"flip", "circshift"} =>
     /\ \A p \in DOMAIN out : Cardinality(out[p]) = 1
     /\ UNION Range(out) = 1..Prod(par.ishape)
UpDownLaw ==  \* downsample(upsample(x)) = x and upsample = transpose of downsample
  op = "upsample" =>
     /\ Compose2(DownsampleOut(par.oshape, par.factors, par.shift), out) = IdMap(Prod(par.ishape))
     /\ out = TransposeOf(DownsampleOut(par.oshape, par.factors, par.shift), Prod(par.oshape))
B2AIsTransposeOfA2B ==
  op = "b2a" => out = TransposeOf(A2BOut(par.batch, par.N, par.B, par.S), Prod(par.oshape))
\* value at a position = number of blocks covering it (0 where none)
CoverageCount ==
  op = "b2a" =>
     \A p \in DOMAIN out :
        LET i == MultiOf(p - 1, par.oshape)  nb == Len(par.batch)
            nblk == NumBlks(par.N, par.B, par.S)
            cover(d) == Cardinality({n \in 0..(nblk[d] - 1) :
                            n * par.S[d] <= i[nb + d] /\ i[nb + d] < n * par.S[d] + par.B[d]})
            RECURSIVE prodcov(_)
            prodcov(d) == IF d = 0 THEN 1 ELSE cover(d) * prodcov(d - 1)
        IN Cardinality(out[p]) = prodcov(Len(par.N))
A2BWindowLaw ==  \* every block element is exactly one array element
  op = "a2b" => \A p \in DOMAIN out : Cardinality(out[p]) = 1
=======================================================================
