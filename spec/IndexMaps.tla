--------------------------- MODULE IndexMaps ---------------------------
(* Array rearrangement functions of sigpy (property C09; reused as the  *)
(* MEANING of the corresponding Linop atoms in LinopAlgebra.tla).       *)
(*                                                                      *)
(* Models: sigpy.util.resize / flip / circshift / downsample / upsample *)
(* (sigpy/util.py:120-249) and sigpy.block.array_to_blocks /            *)
(* blocks_to_array (sigpy/block.py).                                    *)
(*                                                                      *)
(* Everything here is MEANING, written from the docstrings and the      *)
(* property statement, not from the code: a function is described by    *)
(* the map  output position -> SET of input labels whose values are     *)
(* summed there (the empty set is a zero).  Labels are 1-based flat     *)
(* row-major positions (module Shape).  N-D maps are products of        *)
(* per-axis maps.  The conformance harness feeds labelled arrays to the *)
(* real functions and compares element by element.                      *)
(*                                                                      *)
(* One state of this specification = one call of one function with one  *)
(* parameter tuple; TLC enumerates all tuples in the configured         *)
(* bounds and checks the algebraic laws below on every one of them.     *)
EXTENDS ElementMaps, TLC

CONSTANTS Shapes,       \* set of array shapes (sequences of positive integers)
          ShiftVals,    \* explicit resize / resample shifts
          Factors,      \* down/upsampling factors
          BlkSizes,     \* block extents
          Strides,      \* block strides
          RollVals,     \* circular shifts (may exceed the extent, may be negative)
          BatchShapes,  \* leading batch shapes for the block functions
          Ops           \* which functions this configuration enumerates

VARIABLES op, par, out
vars == <<op, par, out>>

\* ---------------------------------------------------------------- actions
Init == op = "init" /\ par = <<>> /\ out = <<>>

SameRank(s) == {t \in Shapes : Len(t) = Len(s)}
ShiftArgs(limit) ==  \* None or one explicit shift per axis, inside the array
  {None} \cup {s \in SeqsOver(ShiftVals, Len(limit)) : \A d \in 1..Len(limit) : s[d] < limit[d]}

DoResize ==
  /\ op = "init" /\ "resize" \in Ops
  /\ \E ishape \in Shapes, oshape \in Shapes :
       LET r == Max2(Len(ishape), Len(oshape)) IN
       \E ishift \in ShiftArgs(PadLeft(ishape, r)), oshift \in ShiftArgs(PadLeft(oshape, r)) :
          /\ op' = "resize"
          /\ par' = [ishape |-> ishape, oshape |-> oshape, ishift |-> ishift, oshift |-> oshift]
          /\ out' = ResizeOut(ishape, oshape, ishift, oshift)

DoFlip ==
  /\ op = "init" /\ "flip" \in Ops
  /\ \E shape \in Shapes : \E axes \in AxesArgs(Len(shape)) :
          /\ op' = "flip"
          /\ par' = [ishape |-> shape, oshape |-> shape, axes |-> axes]
          /\ out' = FlipOut(shape, axes)

DoCircshift ==
  /\ op = "init" /\ "circshift" \in Ops
  /\ \E shape \in Shapes : \E axes \in AxesArgs(Len(shape)) :
       \E shifts \in SeqsOver(RollVals, IF axes = None THEN Len(shape) ELSE Len(axes)) :
          /\ op' = "circshift"
          /\ par' = [ishape |-> shape, oshape |-> shape, axes |-> axes, shifts |-> shifts]
          /\ out' = CircshiftOut(shape, shifts, axes)

ResampleArgs(shape) ==
  {fs \in SeqsOver(Factors, Len(shape)) \X SeqsOver(ShiftVals, Len(shape)) :
      \A d \in 1..Len(shape) : fs[2][d] < shape[d]}

DoDownsample ==
  /\ op = "init" /\ "downsample" \in Ops
  /\ \E ishape \in Shapes : \E fs \in ResampleArgs(ishape) :
          /\ op' = "downsample"
          /\ par' = [ishape |-> ishape, oshape |-> DownShape(ishape, fs[1], fs[2]),
                     factors |-> fs[1], shift |-> fs[2]]
          /\ out' = DownsampleOut(ishape, fs[1], fs[2])

DoUpsample ==
  /\ op = "init" /\ "upsample" \in Ops
  /\ \E oshape \in Shapes : \E fs \in ResampleArgs(oshape) :
          /\ op' = "upsample"
          /\ par' = [ishape |-> DownShape(oshape, fs[1], fs[2]), oshape |-> oshape,
                     factors |-> fs[1], shift |-> fs[2]]
          /\ out' = UpsampleOut(oshape, fs[1], fs[2])

BlockArgs(N) ==
  {bs \in SeqsOver(BlkSizes, Len(N)) \X SeqsOver(Strides, Len(N)) :
      \A d \in 1..Len(N) : bs[1][d] <= N[d]}

DoA2B ==
  /\ op = "init" /\ "a2b" \in Ops
  /\ \E N \in Shapes, batch \in BatchShapes : \E bs \in BlockArgs(N) :
          /\ op' = "a2b"
          /\ par' = [ishape |-> batch \o N, oshape |-> A2BShape(batch, N, bs[1], bs[2]),
                     batch |-> batch, N |-> N, B |-> bs[1], S |-> bs[2]]
          /\ out' = A2BOut(batch, N, bs[1], bs[2])

DoB2A ==
  /\ op = "init" /\ "b2a" \in Ops
  /\ \E N \in Shapes, batch \in BatchShapes : \E bs \in BlockArgs(N) :
          /\ op' = "b2a"
          /\ par' = [ishape |-> A2BShape(batch, N, bs[1], bs[2]), oshape |-> batch \o N,
                     batch |-> batch, N |-> N, B |-> bs[1], S |-> bs[2]]
          /\ out' = B2AOut(batch, N, bs[1], bs[2])

Next == DoResize \/ DoFlip \/ DoCircshift \/ DoDownsample \/ DoUpsample \/ DoA2B \/ DoB2A
Spec == Init /\ [][Next]_vars

\* ---------------------------------------------------------------- laws (checked by TLC on every state)
TypeOK == op = "init" \/ (Len(out) = Prod(par.oshape) /\ \A p \in DOMAIN out : out[p] \subseteq 1..Prod(par.ishape))

\* default resize is the centre-aligned pad/crop
ResizeCentreLaw ==
  (op = "resize" /\ par.ishift = None /\ par.oshift = None)
     => out = ResizeCentreOut(par.ishape, par.oshape)
\* cropping a padded array back gives the array (default shifts)
ResizeRoundTrip ==
  (op = "resize" /\ par.ishift = None /\ par.oshift = None /\ Len(par.ishape) = Len(par.oshape)
      /\ \A d \in 1..Len(par.ishape) : par.oshape[d] >= par.ishape[d])
     => Compose2(ResizeOut(par.oshape, par.ishape, None, None), out) = IdMap(Prod(par.ishape))
\* resize with swapped shifts is the transpose (this is what Resize.H relies on)
ResizeSwapIsTranspose ==
  (op = "resize" /\ Len(par.ishape) = Len(par.oshape))
     => ResizeOut(par.oshape, par.ishape, par.oshift, par.ishift) = TransposeOf(out, Prod(par.ishape))
FlipInvolution ==
  op = "flip" => Compose2(out, out) = IdMap(Prod(par.ishape))
CircshiftInverse ==
  op = "circshift" =>
     Compose2(CircshiftOut(par.ishape, [i \in DOMAIN par.shifts |-> 0 - par.shifts[i]], par.axes), out)
        = IdMap(Prod(par.ishape))
PermutationLaw ==  \* flip and circshift are permutations
  op \in {"flip", "circshift"} =>
     /\ \A p \in DOMAIN out : Cardinality(out[p]) = 1
     /\ UNION Range(out) = 1..Prod(par.ishape)
UpDownLaw ==  \* downsample(upsample(x)) = x and upsample = transpose of downsample
  op = "upsample" =>
     /\ Compose2(DownsampleOut(par.oshape, par.factors, par.shift), out) = IdMap(Prod(par.ishape))
     /\ out = TransposeOf(DownsampleOut(par.oshape, par.factors, par.shift), Prod(par.oshape))
B2AIsTransposeOfA2B ==
  op = "b2a" => out = TransposeOf(A2BOut(par.batch, par.N, par.B, par.S), Prod(par.oshape))
\* value at a position = number of blocks covering it (0 where none)
CoverageCount ==
  op = "b2a" =>
     \A p \in DOMAIN out :
        LET i == MultiOf(p - 1, par.oshape)  nb == Len(par.batch)
            nblk == NumBlks(par.N, par.B, par.S)
            cover(d) == Cardinality({n \in 0..(nblk[d] - 1) :
                            n * par.S[d] <= i[nb + d] /\ i[nb + d] < n * par.S[d] + par.B[d]})
            RECURSIVE prodcov(_)
            prodcov(d) == IF d = 0 THEN 1 ELSE cover(d) * prodcov(d - 1)
        IN Cardinality(out[p]) = prodcov(Len(par.N))
A2BWindowLaw ==  \* every block element is exactly one array element
  op = "a2b" => \A p \in DOMAIN out : Cardinality(out[p]) = 1
=======================================================================
