-------------------------- MODULE GerchbergSaxton --------------------------
(* sigpy.alg.GerchbergSaxton (sigpy/alg.py:860-910), real-valued instances:   *)
(*   y_hat = y * exp(i angle(A x))  (= y * sign(A x), with sign(0) = +1)      *)
(*   x <- (A^T A + lamb I)^-1 A^T y_hat   (inner ConjugateGradient, 5 steps,  *)
(*                                         exact for n <= 2)                  *)
(*   residual = sum | |A x| - y |;  Done = iter >= max_iter or residual <= tol *)
(* A is an integer matrix with n <= 2 columns and m <= 2 rows.                *)
(* `amb` marks runs in which some (A x)_i vanished after the first update:    *)
(* the sign floating point gives such an entry is not determined, so the      *)
(* replay stops comparing there.                                              *)
EXTENDS Rat, Sequences, TLC

CONSTANTS Insts,    \* records [A : Seq(Seq(Int)) (rows), y : Seq(Rat), x0 : Seq(Rat), lamb : Rat]
          MaxIters
VARIABLES inst, max_iter, iter, x, res, fresh, amb
vars == <<inst, max_iter, iter, x, res, fresh, amb>>

M == Len(inst.A)
N == Len(inst.A[1])
RECURSIVE RSum(_, _)
RSumB(f, n) == IF n = 0 THEN RInt(0) ELSE RAdd(f[n], RSum(f, n - 1))
RSum(f, n) == RSumB(f, n)
AX(xx) == TLCEval([i \in 1..M |-> RSum(TLCEval([j \in 1..N |-> RMul(RInt(inst.A[i][j]), xx[j])]), N)])
ATV(w) == TLCEval([j \in 1..N |-> RSum(TLCEval([i \in 1..M |-> RMul(RInt(inst.A[i][j]), w[i])]), M)])
Sgn(q) == IF q[1] < 0 THEN RInt(0 - 1) ELSE RInt(1)
YHat(xx) == TLCEval([i \in 1..M |-> RMul(inst.y[i], Sgn(AX(xx)[i]))])
\* normal matrix A^T A + lamb I (n <= 2) and its inverse applied to a vector
Nrm(j, k) == RAdd(RSum(TLCEval([i \in 1..M |-> RInt(inst.A[i][j] * inst.A[i][k])]), M), IF j = k THEN inst.lamb ELSE RInt(0))
SolveN(w) ==
  IF N = 1 THEN <<RDiv(w[1], Nrm(1, 1))>>
  ELSE LET d == RSub(RMul(Nrm(1, 1), Nrm(2, 2)), RMul(Nrm(1, 2), Nrm(2, 1))) IN
       <<RDiv(RSub(RMul(Nrm(2, 2), w[1]), RMul(Nrm(1, 2), w[2])), d),
         RDiv(RSub(RMul(Nrm(1, 1), w[2]), RMul(Nrm(2, 1), w[1])), d)>>
Step(xx) == SolveN(ATV(YHat(xx)))
Resid1(xx) == RSum(TLCEval([i \in 1..M |-> RAbs(RSub(RAbs(AX(xx)[i]), inst.y[i]))]), M)
Err2(xx) == RSum(TLCEval([i \in 1..M |-> RSq(RSub(RAbs(AX(xx)[i]), inst.y[i]))]), M)
HasZero(xx) == \E i \in 1..M : AX(xx)[i] = RInt(0)

Init == /\ inst \in Insts /\ max_iter \in {m \in MaxIters : m <= inst.cap} /\ iter = 0 /\ x = inst.x0 /\ res = RInt(0) /\ fresh = TRUE /\ amb = FALSE
Done == iter >= max_iter \/ (~fresh /\ RLe(res, RInt(0)))
Update ==
  /\ ~Done
  /\ x' = Step(x) /\ res' = Resid1(Step(x)) /\ fresh' = FALSE /\ iter' = iter + 1
  /\ amb' = (amb \/ (iter >= 1 /\ HasZero(x)))
  /\ UNCHANGED <<inst, max_iter>>
Next == Update
Spec == Init /\ [][Next]_vars /\ WF_vars(Next)

\* the error-reduction property of the Gerchberg-Saxton iteration (without Tikhonov term), in the 2-norm
ErrorReduction == [][(inst.lamb = RInt(0) /\ ~fresh) => RLe(Err2(x'), Err2(x))]_vars
\* tol = 0: stopping before max_iter happens only at exact consistency |A x| = y, where a further update changes nothing
EarlyStopIsFixedPoint == (Done /\ iter < max_iter) => (Resid1(x) = RInt(0) /\ Step(x) = x)
ResidualIsOfHeldX == ~fresh => res = Resid1(x)
CounterByOne == [][iter' = iter + 1]_vars
Terminates == <>Done
=========================================================================
