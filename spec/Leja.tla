-------------------------------- MODULE Leja --------------------------------
(* sigpy.util.leja (sigpy/util.py:387-443): Leja ordering of the roots of a   *)
(* polynomial, used by the inverse SLR transform (rf/slr.py:623) before the   *)
(* roots are multiplied out again.                                            *)
(*                                                                            *)
(* MEANING (what a caller is promised): the result is a re-ordering of the    *)
(* roots such that the first root has the largest modulus and every later     *)
(* root (but the last, which is what is left) maximises                       *)
(*        |p| * prod_{j<k} |p - out_j|                                        *)
(* among the roots not placed yet (Lang & Frenzel's criterion: the modulus    *)
(* factor of the first row stays in the running product).                     *)
(*                                                                            *)
(* MECHANISM (what the code does): an (n+1) x n work matrix whose COLUMNS are *)
(* swapped, a running product `foo` aligned with the columns.  Here: the      *)
(* column order `cols`, the running product `foo` (squared, exact), the       *)
(* position `ll`.  One action per step of the code: First (the argmax of the  *)
(* moduli is swapped to the front), Step (multiply in the distances to the    *)
(* root placed last, swap the argmax of the rest to position ll), Finish.     *)
(* Where several roots tie the code takes the first; floating point may break *)
(* an exact tie either way, so the model lets ANY maximiser be taken and the  *)
(* replay asks that the code's answer is one of the model's behaviours.       *)
(* Roots are Gaussian integers <<re, im>>, so all products are exact.         *)
EXTENDS Integers, Sequences, FiniteSets, TLC

CONSTANTS Insts        \* set of sequences of Gaussian integers
VARIABLES x, cols, foo, ll, pc
vars == <<x, cols, foo, ll, pc>>

N == Len(x)
Abs2(p) == p[1] * p[1] + p[2] * p[2]
Dist2(p, q) == (p[1] - q[1]) * (p[1] - q[1]) + (p[2] - q[2]) * (p[2] - q[2])
Swap(s, i, j) == [s EXCEPT ![i] = s[j], ![j] = s[i]]
ArgMax(f, lo, hi) == {i \in lo..hi : \A j \in lo..hi : f[j] <= f[i]}

Init == x \in Insts /\ cols = x /\ foo = [i \in 1..Len(x) |-> 0] /\ ll = 0 /\ pc = "first"

\* ind = argmax |a[0, :]|, swap columns 0 and ind, foo = a[0, :]
First ==
  /\ pc = "first"
  /\ IF N = 0 THEN cols' = cols /\ foo' = foo
     ELSE \E ind \in ArgMax([i \in 1..N |-> Abs2(cols[i])], 1, N) :
            /\ cols' = Swap(cols, 1, ind)
            /\ foo' = [i \in 1..N |-> Abs2(Swap(cols, 1, ind)[i])]
  /\ ll' = 1 /\ pc' = IF N >= 3 THEN "step" ELSE "finish"
  /\ UNCHANGED x

\* for ll in 1..n-2 (0-based): foo *= |col - out[ll-1]|, ind = ll + argmax foo[ll:], swap columns (and foo) ll and ind
Step ==
  /\ pc = "step"
  /\ LET prod == [i \in 1..N |-> IF i > ll THEN foo[i] * Dist2(cols[i], cols[ll]) ELSE foo[i]]
     IN \E ind \in ArgMax(prod, ll + 1, N) :
          /\ cols' = Swap(cols, ll + 1, ind)
          /\ foo' = Swap(prod, ll + 1, ind)
  /\ ll' = ll + 1
  /\ pc' = IF ll + 1 < N - 1 THEN "step" ELSE "finish"
  /\ UNCHANGED x

Finish == pc = "finish" /\ pc' = "done" /\ UNCHANGED <<x, cols, foo, ll>>
Next == First \/ Step \/ Finish
Spec == Init /\ [][Next]_vars /\ WF_vars(Next)

\* ---------------------------------------------------------------- meaning
Count(s, p) == Cardinality({i \in 1..Len(s) : s[i] = p})
IsReordering(s) == Len(s) = N /\ \A i \in 1..N : Count(s, x[i]) = Count(x, x[i])
RECURSIVE Crit(_, _, _)
\* |p|^2 * prod_{j <= k} |p - s[j]|^2
Crit(s, k, p) == IF k = 0 THEN Abs2(p) ELSE Crit(s, k - 1, p) * Dist2(p, s[k])
\* position k holds a maximiser among positions k..N
GreedyAt(s, k) == \A i \in k..N : Crit(s, k - 1, s[i]) <= Crit(s, k - 1, s[k])
Greedy(s) == \A k \in 1..(N - 1) : GreedyAt(s, k)

\* ---------------------------------------------------------------- properties
AlwaysReordering == IsReordering(cols)
\* the running product is the criterion of the meaning for every column not placed yet
RunningProductIsCriterion == (pc \in {"step", "finish", "done"} /\ N > 0) => \A i \in (ll + 1)..N : foo[i] = Crit(cols, ll - 1, cols[i])
\* every prefix placed so far is greedy
PlacedPrefixGreedy == (pc \in {"step", "finish", "done"}) => \A k \in 1..ll : (k <= N - 1 => GreedyAt(cols, k))
ResultIsGreedy == pc = "done" => (IsReordering(cols) /\ Greedy(cols))
\* distinct roots are separated: two consecutive placed roots never coincide unless all remaining roots coincide with a placed one
PlacedOnlyOnce == [][\A k \in 1..ll : cols'[k] = cols[k]]_vars
Terminates == <>(pc = "done")
=============================================================================
