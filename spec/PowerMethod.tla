---------------------------- MODULE PowerMethod ----------------------------
(* sigpy.alg.PowerMethod (sigpy/alg.py:76-106) - third clause of C15:          *)
(* "the eigenvalue estimate, once the vector is normalised, is non-decreasing  *)
(*  and never exceeds the largest eigenvalue of a Hermitian PSD operator".     *)
(* Exact integers: with u_k = A^k v0 the estimate after update k+1 is          *)
(*   max_eig = ||A x_k|| with x_k = u_k/||u_k||,  so  max_eig^2 = |u_{k+1}|^2/|u_k|^2. *)
(* Matrices are curated symmetric PSD integer matrices with known integer top  *)
(* eigenvalue (incl. rank-deficient and repeated-top cases).                   *)
EXTENDS Rat, Sequences, TLC

CONSTANTS Cases,     \* set of <<matrix (seq of rows), lambda_max, cap>>  (cap: updates whose exact ratios still fit TLC's 32-bit integers)
          Starts(_), \* integer start vectors per dimension: Starts(n)
          MaxUpdates

VARIABLES A, lmax, cap, v0, u, k, est2, prev2
vars == <<A, lmax, cap, v0, u, k, est2, prev2>>

RECURSIVE ISum(_, _)
ISumB(f, n) == IF n = 0 THEN 0 ELSE f[n] + ISum(f, n - 1)
ISum(f, n) == ISumB(f, n)
MV(M, v) == TLCEval([i \in 1..Len(M) |-> ISum(TLCEval([j \in 1..Len(v) |-> M[i][j] * v[j]]), Len(v))])
N2(v) == ISum(TLCEval([i \in 1..Len(v) |-> v[i] * v[i]]), Len(v))

Init ==
  /\ \E c \in Cases : A = c[1] /\ lmax = c[2] /\ cap = c[3]
  /\ v0 \in Starts(Len(A)) /\ N2(v0) > 0
  /\ u = v0 /\ k = 0 /\ est2 = RInt(0) /\ prev2 = RInt(0)
\* one update: y = A x ; max_eig = ||y|| ; x <- y / max_eig
Update ==
  /\ k < MaxUpdates /\ k < cap /\ N2(MV(A, u)) > 0
  /\ u' = MV(A, u)
  /\ prev2' = est2
  /\ est2' = IF k = 0 THEN R(N2(MV(A, u)), 1)              \* the first estimate uses the caller's un-normalised vector
             ELSE R(N2(MV(A, u)), N2(u))
  /\ k' = k + 1
  /\ UNCHANGED <<A, lmax, cap, v0>>
Next == Update
Spec == Init /\ [][Next]_vars

\* non-decreasing from the first estimate made on a normalised vector onwards
Monotone == k >= 3 => RLe(prev2, est2)     \* prev2 is then an estimate made on a normalised vector
\* (the very first estimate uses the caller's un-normalised vector and is excluded: "once the vector is normalised")
BelowLambdaMax == k >= 1 => RLe(est2, RMul(RInt(lmax * lmax), IF k = 1 THEN R(N2(v0), 1) ELSE RInt(1)))
============================================================================
