--------------------------- MODULE AlgLoopTrace ---------------------------
(* Trace validation for AlgLoop.tla: every Alg object observed through the  *)
(* SIGPY_VERIF_TRACE hooks (alg.update.begin/.end, alg.done, app.run.begin/  *)
(* .end) must be a behaviour of the protocol specification.  One trace per   *)
(* Alg object; a batch of traces is validated in one TLC run (tid chooses    *)
(* the trace, l is the position in it).  Every logged field is bound, the    *)
(* only unlogged variable is the algorithm's own stop flag `early`, which    *)
(* TLC infers.  A failed _update leaves no end event: the silent             *)
(* UpdateAbort step is composed in front of the next event of that object.   *)
EXTENDS AlgLoop, Sequences, Json, IOUtils

Traces == JsonDeserialize(IOEnv.TRACE_FILE)

VARIABLES tid, l
tvars == <<vars, tid, l>>

Ev == Traces[tid].ev[l]
More == l <= Len(Traces[tid].ev)
Consume == l' = l + 1 /\ tid' = tid
MaxOf(a, b) == IF a >= b THEN a ELSE b

TInit ==
  /\ tid \in 1..Len(Traces)
  /\ l = 1
  /\ max_iter = Traces[tid].max_iter
  /\ iter = 0 /\ upd = "idle" /\ early \in BOOLEAN
  /\ lastdone = "unknown" /\ run = "none" /\ iter0 = 0 /\ runupd = 0
  /\ TLCSet(tid, 1)

SameBudget == Ev.max_iter = max_iter          \* the budget never changes
TUpdateBegin == More /\ Ev.e = "ub" /\ SameBudget /\ Ev.iter = iter /\ UpdateBegin /\ Consume
TUpdateEnd   == More /\ Ev.e = "ue" /\ SameBudget /\ UpdateEnd /\ iter' = Ev.iter /\ Consume
TDone        == More /\ Ev.e = "done" /\ SameBudget /\ Ev.iter = iter /\ DoneQuery(Ev.done) /\ Consume
TRunBegin    == More /\ Ev.e = "rb" /\ RunBegin /\ Consume
TRunEnd      == More /\ Ev.e = "re" /\ Ev.iter = iter /\ RunEnd /\ Consume
\* early-stop probe (recorded by the harness): done() answered True at iteration Ev.iter
\* although the budget was not used up; one more update was then performed and the
\* solution arrays compared.  Accepted only at a genuine fixed point or after a breakdown.
TProbe       == /\ More /\ Ev.e = "probe" /\ Ev.iter + 1 = iter
                /\ (Ev.iter < max_iter => (Ev.changed = 0 \/ Ev.breakdown = 1))
                /\ UNCHANGED vars /\ Consume
\* silent step: the previous update raised (no end event was logged)
TAbort       == More /\ Ev.e # "ue" /\ UpdateAbort /\ UNCHANGED <<tid, l>>

TNext == TUpdateBegin \/ TUpdateEnd \/ TDone \/ TRunBegin \/ TRunEnd \/ TProbe \/ TAbort
TraceSpec == TInit /\ [][TNext]_tvars

\* per-trace high-water mark of matched lines
HighWater == TLCSet(tid, MaxOf(TLCGet(tid), l))
\* the design invariants are evaluated on every state of every trace
TraceInv == CanonicalBudget /\ CounterIsUpdates /\ ExhaustedMeansDone

Report ==
  \A t \in 1..Len(Traces) :
     \/ TLCGet(t) = Len(Traces[t].ev) + 1
     \/ PrintT(<<"REJECT", Traces[t].id, TLCGet(t)>>)
===========================================================================
