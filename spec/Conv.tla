------------------------------- MODULE Conv -------------------------------
(* sigpy.convolve / convolve_data_adjoint / convolve_filter_adjoint          *)
(* (sigpy/conv.py) - property C08.                                           *)
(*                                                                           *)
(* MEANING (signal-processing convolution): per axis, output sample p of     *)
(* the strided result is  SUM_t data[t] * filt[off + p*s - t]  over all t    *)
(* with the filter index in range; off = 0 in 'full' mode and                *)
(* min(m, n) - 1 in 'valid' mode (only complete overlaps).  Multi-D is the   *)
(* product over axes; with channels out[b, co] = SUM_ci data[b, ci] * filt   *)
(* [co, ci].  Because the operation is bilinear the state carries, per axis, *)
(* the index relation  p |-> set of <<t, u>>  - it decides all real and      *)
(* complex values at once.  The adjoints are its two transposes (with a      *)
(* conjugate on the fixed argument).  'valid' is admissible iff one operand  *)
(* is at least as large as the other in EVERY axis.                          *)
EXTENDS Integers, Sequences, FiniteSets, TLC

CONSTANTS Dims,       \* set of D
          Lens,       \* extents for data and filter axes
          StrideVals,
          Channels,   \* set of <<c_i, c_o>> pairs tried with multi_channel (<<0, 0>> = not multi-channel)
          Batches     \* set of batch shapes

VARIABLES cfg, verdict, pshape, rel
vars == <<cfg, verdict, pshape, rel>>

Min2(a, b) == IF a <= b THEN a ELSE b
CeilDiv(a, b) == (a + b - 1) \div b
FullLen(m, n) == m + n - 1
ValidLen(m, n) == (IF m >= n THEN m - n ELSE n - m) + 1
Admissible(c) ==
  c.mode = "full" \/ (\A d \in 1..c.D : c.m[d] >= c.n[d]) \/ (\A d \in 1..c.D : c.m[d] <= c.n[d])
OutLen(c, d) == CeilDiv(IF c.mode = "full" THEN FullLen(c.m[d], c.n[d]) ELSE ValidLen(c.m[d], c.n[d]), c.s[d])
Offset(c, d) == IF c.mode = "full" THEN 0 ELSE Min2(c.m[d], c.n[d]) - 1
AxisRel(c, d) ==
  [p \in 0..(OutLen(c, d) - 1) |->
     {tu \in (0..(c.m[d] - 1)) \X (0..(c.n[d] - 1)) : tu[2] = Offset(c, d) + p * c.s[d] - tu[1]}]

Init ==
  /\ \E D \in Dims, mode \in {"full", "valid"}, ch \in Channels :
       cfg = [D |-> D, mode |-> mode, ch |-> ch, m |-> <<>>, n |-> <<>>, s |-> <<>>, batch |-> <<>>, called |-> FALSE]
  /\ verdict = "none" /\ pshape = <<>> /\ rel = <<>>
Call ==
  /\ ~cfg.called
  /\ \E m \in [1..cfg.D -> Lens], n \in [1..cfg.D -> Lens], s \in [1..cfg.D -> StrideVals], b \in Batches :
       LET c == [cfg EXCEPT !.m = m, !.n = n, !.s = s, !.batch = b, !.called = TRUE] IN
       /\ cfg' = c
       /\ IF Admissible(c)
            THEN /\ verdict' = "ok"
                 /\ pshape' = [d \in 1..c.D |-> OutLen(c, d)]
                 /\ rel' = [d \in 1..c.D |-> AxisRel(c, d)]
            ELSE verdict' = "rejected" /\ pshape' = <<>> /\ rel' = <<>>
Next == Call
Spec == Init /\ [][Next]_vars

\* ------------------------------------------------------------------ laws
Ok == verdict = "ok"
ShapeFormula == Ok => \A d \in 1..cfg.D : pshape[d] >= 1 /\
   pshape[d] = (IF cfg.mode = "full" THEN CeilDiv(cfg.m[d] + cfg.n[d] - 1, cfg.s[d])
                ELSE CeilDiv((IF cfg.m[d] >= cfg.n[d] THEN cfg.m[d] - cfg.n[d] ELSE cfg.n[d] - cfg.m[d]) + 1, cfg.s[d]))
\* with unit stride 'full' uses every (data, filter) pair exactly once, 'valid' only complete overlaps
FullUsesEveryPairOnce ==
  (Ok /\ cfg.mode = "full") => \A d \in 1..cfg.D : cfg.s[d] = 1 =>
     /\ \A t \in 0..(cfg.m[d] - 1) : \A u \in 0..(cfg.n[d] - 1) :
           Cardinality({p \in DOMAIN rel[d] : <<t, u>> \in rel[d][p]}) = 1
ValidIsCompleteOverlap ==
  (Ok /\ cfg.mode = "valid") => \A d \in 1..cfg.D : \A p \in DOMAIN rel[d] :
     Cardinality(rel[d][p]) = Min2(cfg.m[d], cfg.n[d])
\* flipping: the filter index decreases as the data index increases
Flipped == Ok => \A d \in 1..cfg.D : \A p \in DOMAIN rel[d] : \A a \in rel[d][p] : \A b \in rel[d][p] :
     a[1] < b[1] => a[2] > b[2]
RejectedIffMixed == (verdict = "rejected") <=> (cfg.called /\ ~Admissible(cfg))
===========================================================================
