------------------------------ MODULE Fourier ------------------------------
(* sigpy.fft / sigpy.ifft (sigpy/fourier.py:21-87, 266-293) - property C05.   *)
(*                                                                           *)
(* A call is [shape, axes, center, ortho, oshape, dir].  The MEANING is the   *)
(* explicit DFT-matrix definition: the input is first zero-padded / cropped   *)
(* about its centre to oshape (ElementMaps!ResizeOut), then along every       *)
(* requested axis (numpy axis normalisation, negative indices allowed) of     *)
(* length m the matrix                                                        *)
(*      W[k][n] = s * omega_m ^ ( sgn * (k - c) * (n - c) )                   *)
(* is applied, omega_m = exp(2 pi i / m), sgn = -1 forward / +1 inverse,      *)
(* c = m \div 2 when centred and 0 otherwise, s = m^(-1/2) (ortho) or         *)
(* 1 / m^-1 (norm None, forward / inverse).  The state carries this PLAN;     *)
(* exponents are kept as integers mod m, so every statement TLC checks is     *)
(* exact.  The harness realises omega_m numerically and compares with the     *)
(* real functions on basis and random vectors.                                *)
EXTENDS ElementMaps, FiniteSets

CONSTANTS Shapes, OshapeDeltas   \* array shapes; per-axis changes of the output length tried with center = TRUE

VARIABLES cfg, plan
vars == <<cfg, plan>>

\* axes argument: None, the EMPTY subset (written <<-99>> here because None is <<>>: nothing is transformed, the call is
\* the identity up to the centred resize), or every way of writing a non-empty subset with non-negative / negative indices
EmptyAxes == <<-99>>
AscendingAxes(r) ==
  {SelectSeq([d \in 1..r |-> f[d]], LAMBDA a : a # 99) : f \in {g \in [1..r -> {99} \cup ((0 - r)..(r - 1))] :
        /\ \E d \in 1..r : g[d] # 99
        /\ \A d \in 1..r : g[d] # 99 => g[d] % r = d - 1}}
RevSeq(s) == [i \in 1..Len(s) |-> s[Len(s) + 1 - i]]
\* ... in ascending order of the axes and (for two or more axes) in descending order: the transform does not depend on it
AxesChoices(r) == {None, EmptyAxes} \cup AscendingAxes(r) \cup {RevSeq(s) : s \in {t \in AscendingAxes(r) : Len(t) >= 2}}
AxSetOf(axes, r) == IF axes = None THEN 0..(r - 1) ELSE IF axes = EmptyAxes THEN {} ELSE {axes[i] % r : i \in 1..Len(axes)}

Exponent(m, c, sgn, k, n) == (sgn * (k - c) * (n - c)) % m
AxisPlan(m, transformed, center) ==
  [m |-> m, t |-> transformed, c |-> IF center THEN m \div 2 ELSE 0]

MkPlan(c) ==
  LET r == Len(c.shape)
      osh == IF c.oshape = None THEN c.shape ELSE c.oshape
      A == AxSetOf(c.axes, r)
  IN [oshape |-> osh,
      axes |-> [d \in 1..r |-> AxisPlan(osh[d], (d - 1) \in A, c.center)],
      sgn |-> IF c.dir = "fft" THEN 0 - 1 ELSE 1,
      \* magnitude per transformed axis of length m: "isqrt" = m^(-1/2), "one" = 1, "inv" = 1/m
      scale |-> IF c.ortho THEN "isqrt" ELSE IF c.dir = "fft" THEN "one" ELSE "inv",
      \* centred pad/crop of the input (identity when oshape is not given); only carried for small arrays
      resize |-> IF c.oshape = None \/ Prod(c.shape) > 24 \/ Prod(osh) > 24 THEN <<>> ELSE ResizeOut(c.shape, osh, None, None)]

OshapeChoices(shape) ==
  {None} \cup {[d \in 1..Len(shape) |-> shape[d] + dl[d]] : dl \in {g \in [1..Len(shape) -> OshapeDeltas] :
                   (\E d \in 1..Len(shape) : g[d] # 0) /\ \A d \in 1..Len(shape) : shape[d] + g[d] >= 1}}

Init == cfg = [shape |-> <<>>, axes |-> None, center |-> TRUE, ortho |-> TRUE, oshape |-> None, dir |-> "none"] /\ plan = <<>>
Call ==
  /\ cfg.dir = "none"
  /\ \E shape \in Shapes, center \in BOOLEAN, ortho \in BOOLEAN, dir \in {"fft", "ifft"} :
     \E axes \in AxesChoices(Len(shape)) :
     \E osh \in (IF center THEN OshapeChoices(shape) ELSE {None}) :    \* oshape is only enumerated together with center
        LET c == [shape |-> shape, axes |-> axes, center |-> center, ortho |-> ortho, oshape |-> osh, dir |-> dir] IN
        cfg' = c /\ plan' = MkPlan(c)
Next == Call
Spec == Init /\ [][Next]_vars

\* ------------------------------------------------------------------ laws of the meaning (exact, on exponents)
Gcd2(a, b) == CHOOSE g \in 1..b : a % g = 0 /\ b % g = 0 /\ \A h \in 1..b : (a % h = 0 /\ b % h = 0) => h <= g
Called == cfg.dir # "none"
\* W^H W = m I: for every j # 0 the exponents j*(k-c) mod m, k = 0..m-1, hit each multiple of gcd(j, m)
\* equally often, so the roots of unity sum to zero; for j = 0 all exponents are 0.  Hence the ortho
\* transform is unitary, ifft(fft(x)) = x for both normalisations and the norm is preserved.
RootsCancel ==
  Called => \A d \in 1..Len(plan.axes) : plan.axes[d].t =>
     LET m == plan.axes[d].m  c == plan.axes[d].c IN
     \A j \in 1..(m - 1) :
        LET g == Gcd2(j, m) IN
        \A rr \in 0..(m - 1) :
           Cardinality({k \in 0..(m - 1) : (j * (k - c)) % m = rr}) = (IF rr % g = 0 THEN g ELSE 0)
\* origin at index m \div 2 (centred) or 0: a delta there transforms to the constant s
CentreConvention ==
  Called => \A d \in 1..Len(plan.axes) : plan.axes[d].t =>
     \A k \in 0..(plan.axes[d].m - 1) : Exponent(plan.axes[d].m, plan.axes[d].c, plan.sgn, k, plan.axes[d].c) = 0
\* forward and inverse use opposite exponents and reciprocal scalings
InverseIsConjugate ==
  Called => \A d \in 1..Len(plan.axes) : \A k \in 0..(plan.axes[d].m - 1) : \A n \in 0..(plan.axes[d].m - 1) :
     (Exponent(plan.axes[d].m, plan.axes[d].c, 1, k, n) + Exponent(plan.axes[d].m, plan.axes[d].c, 0 - 1, k, n)) % plan.axes[d].m = 0
\* the input is padded / cropped about its centre
PadCropAboutCentre ==
  (Called /\ plan.resize # <<>>) => plan.resize = ResizeCentreOut(cfg.shape, plan.oshape)
AxesNormalised ==
  Called => {d \in 1..Len(plan.axes) : plan.axes[d].t} = {a + 1 : a \in AxSetOf(cfg.axes, Len(cfg.shape))}
============================================================================
