---------------------------- MODULE NestedRuns ----------------------------
(* The call structure of sigpy's iterative layer ACROSS objects               *)
(* (sigpy/alg.py:60-73 Alg.update/done, sigpy/app.py:72-103 App.run).         *)
(* AlgLoop.tla is the protocol of ONE Alg object; this module is the stack    *)
(* of open frames when algorithms and apps nest: JsenseRecon (AltMin whose    *)
(* two minimisers each run an inner LinearLeastSquares app), the ADMM branch  *)
(* of LinearLeastSquares (x-update = inner ConjugateGradient loop),           *)
(* GerchbergSaxton and SDMM (inner ConjugateGradient per update),             *)
(* L2ConstrainedMinimization, MaxEig inside a set-up, EspiritCalib.           *)
(*                                                                            *)
(*   frame "run"  App.run of the app that owns algorithm o:                   *)
(*                   while not alg.done(): alg.update()                       *)
(*                so inside the frame o is updated only after done() said     *)
(*                False, and the frame is left only after done() said True    *)
(*   frame "upd"  Alg.update of o: _update() then iter += 1; whatever         *)
(*                _update() starts (inner loops, inner apps) is opened and    *)
(*                closed INSIDE the frame (LIFO), and never o itself          *)
(*                                                                            *)
(* An exception raised by an _update unwinds the open frames (Unwind).        *)
EXTENDS Integers, Sequences, FiniteSets, TLC

CONSTANTS Objs,        \* algorithm objects
          Budgets,     \* possible max_iter values
          MaxDepth     \* bound on the number of open frames (exhaustive configuration only)

VARIABLES stack,       \* sequence of frames [k |-> "run" | "upd", o |-> object, n |-> updates of o seen inside a run frame]
          iter,        \* iter[o]
          budget,      \* max_iter[o]
          asked        \* last answer of o.done() since its last update: "none" | "yes" | "no"
vars == <<stack, iter, budget, asked>>

Top == stack[Len(stack)]
Open(k, o) == \E i \in 1..Len(stack) : stack[i].k = k /\ stack[i].o = o
Push(f) == stack' = Append(stack, f)
Pop == stack' = SubSeq(stack, 1, Len(stack) - 1)
InRunOf(o) == Len(stack) > 0 /\ Top.k = "run" /\ Top.o = o

Init ==
  /\ stack = <<>>
  /\ iter = [o \in Objs |-> 0]
  /\ budget \in [Objs -> Budgets]
  /\ asked = [o \in Objs |-> "none"]

\* o.done(): must answer True once the budget is used up; may answer True earlier (early stop)
Done(o, v) ==
  /\ ~Open("upd", o) \/ TRUE                 \* done() is a pure query: allowed anywhere (also from inside o's own update)
  /\ (iter[o] >= budget[o] => v)
  /\ asked' = [asked EXCEPT ![o] = IF v THEN "yes" ELSE "no"]
  /\ UNCHANGED <<stack, iter, budget>>

RunBegin(o) ==
  /\ ~Open("run", o) /\ ~Open("upd", o)      \* an app is not re-entered
  /\ Len(stack) < MaxDepth
  /\ Push([k |-> "run", o |-> o, n |-> 0])
  /\ UNCHANGED <<iter, budget, asked>>

UpdBegin(o) ==
  /\ ~Open("upd", o)                          \* an algorithm's update never re-enters itself
  /\ Len(stack) < MaxDepth
  /\ (InRunOf(o) => asked[o] = "no")          \* App.run updates only after done() said False
  /\ (Open("run", o) => InRunOf(o))           \* ... and nobody else updates the algorithm of a running app
  /\ Push([k |-> "upd", o |-> o, n |-> 0])
  /\ UNCHANGED <<iter, budget, asked>>

UpdEnd(o) ==
  /\ Len(stack) > 0 /\ Top.k = "upd" /\ Top.o = o
  /\ iter' = [iter EXCEPT ![o] = @ + 1]
  /\ asked' = [asked EXCEPT ![o] = "none"]
  /\ stack' = IF Len(stack) > 1 /\ stack[Len(stack) - 1].k = "run" /\ stack[Len(stack) - 1].o = o
              THEN [SubSeq(stack, 1, Len(stack) - 1) EXCEPT ![Len(stack) - 1].n = @ + 1]
              ELSE SubSeq(stack, 1, Len(stack) - 1)
  /\ UNCHANGED budget

RunEnd(o) ==
  /\ InRunOf(o)
  /\ asked[o] = "yes"                          \* the loop is left only when done() said True
  /\ Pop
  /\ UNCHANGED <<iter, budget, asked>>

\* an exception unwinds the innermost frame (the update it interrupts does not count)
Unwind ==
  /\ Len(stack) > 0
  /\ Pop
  /\ UNCHANGED <<iter, budget, asked>>

Next == \E o \in Objs : \/ \E v \in BOOLEAN : Done(o, v)
                        \/ RunBegin(o) \/ UpdBegin(o) \/ UpdEnd(o) \/ RunEnd(o)
NextWithRaise == Next \/ Unwind
Spec == Init /\ [][Next]_vars
SpecRaise == Init /\ [][NextWithRaise]_vars

\* ---------------------------------------------------------------- properties
TypeOK == /\ \A i \in 1..Len(stack) : stack[i].k \in {"run", "upd"} /\ stack[i].o \in Objs
          /\ \A o \in Objs : iter[o] >= 0
\* no object is open twice
NoReentrancy == \A i, j \in 1..Len(stack) : (i # j /\ stack[i].o = stack[j].o) => (stack[i].k # stack[j].k /\ (i < j => stack[i].k = "run"))
\* a run frame performs at most the remaining budget of its algorithm
RunWithinBudget == \A i \in 1..Len(stack) : stack[i].k = "run" => (stack[i].n = 0 \/ iter[stack[i].o] <= budget[stack[i].o])
\* inside App.run the counter never passes the budget
RunNeverOvershoots == [][\A o \in Objs : (InRunOf(o) /\ iter'[o] # iter[o]) => iter'[o] <= budget[o]]_vars
\* frames are closed in LIFO order: the stack only changes at its end
LIFO == [][\/ Len(stack') = Len(stack) + 1 /\ SubSeq(stack', 1, Len(stack)) = stack
           \/ Len(stack') = Len(stack) - 1 /\ \A i \in 1..Len(stack') : stack'[i].k = stack[i].k /\ stack'[i].o = stack[i].o
           \/ UNCHANGED stack]_vars
CounterOnlyByOwnUpdate == [][\A o \in Objs : iter'[o] # iter[o] => (iter'[o] = iter[o] + 1 /\ Len(stack) > 0 /\ Top.k = "upd" /\ Top.o = o)]_vars
=============================================================================
