------------------------------- MODULE Newton -------------------------------
(* sigpy.alg.NewtonsMethod (sigpy/alg.py:794-857) with its backtracking line  *)
(* search as an INNER LOOP of separate actions:                               *)
(*   Start     p = -H(x)^-1 grad f(x),  lamda2 = -<p, grad f(x)>;             *)
(*             lamda2 < 0 raises ("direction is not descending")              *)
(*   Backtrack while f(x + alpha p) > f(x) - alpha/2 lamda2 : alpha *= beta   *)
(*   Accept    x <- x + alpha p,  residual = sqrt(lamda2),  iter += 1         *)
(*   Done      iter >= max_iter or residual <= tol (tol = 0)                  *)
(* Instances: f(x) = sum q_i/2 (x_i - p_i)^2, the caller's inverse Hessian is *)
(* 1/(s q_i): s = 1 is the exact Newton step, s < 1 over-long steps that the  *)
(* line search must shorten (accepted exactly when alpha <= s), s > 1 damped  *)
(* steps, s < 0 an ascent direction.  nf counts evaluations of f (observable  *)
(* in the code through the closure).                                          *)
EXTENDS Rat, Sequences, TLC

CONSTANTS Insts,     \* records [q, p, x0 : Seq(Rat), s, beta : Rat]
          MaxIters
VARIABLES inst, max_iter, iter, pc, x, dir, lam2, alpha, fresh, nf, nbt
vars == <<inst, max_iter, iter, pc, x, dir, lam2, alpha, fresh, nf, nbt>>

N == Len(inst.q)
RECURSIVE RSum(_, _)
RSumB(f, n) == IF n = 0 THEN RInt(0) ELSE RAdd(f[n], RSum(f, n - 1))
RSum(f, n) == RSumB(f, n)
F(xx) == RSum(TLCEval([i \in 1..N |-> RMul(RDiv(inst.q[i], RInt(2)), RSq(RSub(xx[i], inst.p[i])))]), N)
Grad(xx) == TLCEval([i \in 1..N |-> RMul(inst.q[i], RSub(xx[i], inst.p[i]))])
Dir(xx) == TLCEval([i \in 1..N |-> RNeg(RDiv(Grad(xx)[i], RMul(inst.s, inst.q[i])))])
Lam2(xx) == RNeg(RSum(TLCEval([i \in 1..N |-> RMul(Dir(xx)[i], Grad(xx)[i])]), N))
Move(xx, al, d) == TLCEval([i \in 1..N |-> RAdd(xx[i], RMul(al, d[i]))])
LineSearch == RLt(inst.beta, RInt(1))
Zero == TLCEval([i \in 1..Len(inst.q) |-> RInt(0)])

Init ==
  /\ inst \in Insts /\ max_iter \in {m \in MaxIters : m <= inst.cap} /\ iter = 0 /\ pc = "start"
  /\ x = inst.x0 /\ dir = TLCEval([i \in 1..Len(inst.q) |-> RInt(0)]) /\ lam2 = RInt(0) /\ alpha = RInt(1)
  /\ fresh = TRUE /\ nf = 0 /\ nbt = 0
\* residual starts at infinity (fresh); afterwards residual <= 0 iff lamda2 = 0
Done == iter >= max_iter \/ (~fresh /\ RLe(lam2, RInt(0)))
Start ==
  /\ pc = "start" /\ ~Done
  /\ dir' = Dir(x) /\ lam2' = Lam2(x) /\ alpha' = RInt(1)
  /\ IF RLt(Lam2(x), RInt(0)) THEN pc' = "raised" /\ nf' = nf
     ELSE pc' = "search" /\ nf' = IF LineSearch THEN nf + 1 ELSE nf       \* fx = f(x)
  /\ nbt' = 0
  /\ UNCHANGED <<inst, max_iter, iter, x, fresh>>
TooLong == RLt(RSub(F(x), RMul(RDiv(alpha, RInt(2)), lam2)), F(Move(x, alpha, dir)))
Backtrack ==
  /\ pc = "search" /\ LineSearch /\ TooLong
  /\ alpha' = RMul(alpha, inst.beta) /\ nf' = nf + 1 /\ nbt' = nbt + 1
  /\ UNCHANGED <<inst, max_iter, iter, pc, x, dir, lam2, fresh>>
Accept ==
  /\ pc = "search" /\ (~LineSearch \/ ~TooLong)
  /\ x' = Move(x, alpha, dir) /\ fresh' = FALSE /\ iter' = iter + 1 /\ pc' = "start"
  /\ nf' = IF LineSearch THEN nf + 1 ELSE nf
  /\ UNCHANGED <<inst, max_iter, dir, lam2, alpha, nbt>>
Next == Start \/ Backtrack \/ Accept
Spec == Init /\ [][Next]_vars /\ WF_vars(Next)

\* ---------------------------------------------------------------- properties
\* the line search ends (liveness of the inner loop), and the solver ends or raises
SearchEnds == (pc = "search") ~> (pc = "start")
Terminates == <>((Done /\ pc = "start") \/ pc = "raised")
\* accepted steps satisfy the Armijo condition and never increase f
ArmijoOnAccept == [][(pc = "search" /\ pc' = "start" /\ LineSearch) => RLe(F(x'), RSub(F(x), RMul(RDiv(alpha, RInt(2)), lam2)))]_vars
Descent == [][(LineSearch \/ RLe(inst.s, RInt(0)) \/ RLe(R(1, 2), inst.s)) => RLe(F(x'), F(x))]_vars
\* for this family the accepted step length is the first beta^k that is <= s
AcceptedStepLength == [][(pc = "search" /\ pc' = "start" /\ LineSearch /\ RLt(RInt(0), lam2)) => (RLe(alpha, inst.s) /\ (nbt = 0 \/ RLt(inst.s, RDiv(alpha, inst.beta))))]_vars
\* early stop (tol = 0) only at the minimiser, where a further update changes nothing
EarlyStopIsStationary == (pc = "start" /\ Done /\ iter < max_iter) => (x = inst.p /\ Move(x, RInt(1), Dir(x)) = x)
\* the exact Newton step (s = 1) solves a quadratic in one update
ExactStepSolves == (pc = "start" /\ inst.s = RInt(1) /\ iter >= 1) => x = inst.p
RaisedOnlyOnAscent == pc = "raised" => RLt(inst.s, RInt(0))
CounterOnlyOnAccept == [][iter' # iter => (pc = "search" /\ pc' = "start" /\ iter' = iter + 1)]_vars
=========================================================================
