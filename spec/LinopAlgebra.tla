--------------------------- MODULE LinopAlgebra ---------------------------
(* A session with the sigpy.linop API (properties C01, C02, C03, C04).      *)
(*                                                                          *)
(* The user drives a STACK MACHINE: Push an atom, combine the top entries   *)
(* with *, +, -, scalar*, Hstack/Vstack/Diag, Conj, take .H or .N.  Every   *)
(* stack entry carries                                                      *)
(*   api : what the user wrote (the harness rebuilds the real object from   *)
(*         exactly these calls),                                            *)
(*   e   : the operator expression the library is supposed to hold          *)
(*         (for .H / .N: what _adjoint_linop / _normal_linop build),        *)
(*   osh, ish : the documented shapes,                                      *)
(*   m   : the exact matrix over Z[i] that the entry MEANS (row-major       *)
(*         flattening of input and output).                                 *)
(*                                                                          *)
(* Two groups of definitions are kept apart on purpose:                     *)
(*  MEANING   (from the documentation): Sh, MatOf - shapes and matrices of  *)
(*            atoms (index formulas from ElementMaps, numpy broadcasting,   *)
(*            matmul) and of composites (matrix product, sum, entry-wise    *)
(*            conjugate, block row / column / diagonal ALONG AN AXIS).      *)
(*  MECHANISM (transcribed from sigpy/linop.py): AdjRule, NrmRule - the     *)
(*            expressions built by each _adjoint_linop / _normal_linop      *)
(*            (Multiply.H = Reshape * Sum(sum_axes) * Multiply(conj), with  *)
(*            _get_multiply_adjoint_sum_axes transcribed; Compose reversed; *)
(*            Hstack <-> Vstack; Diag axes swapped; Conj(A).H = Conj(A.H);  *)
(*            Identity shortcuts for N).                                    *)
(* TLC checks in every reachable state that the mechanism implements the    *)
(* meaning: MatOf(AdjRule(e)) = ConjT(m), MatOf(NrmRule(e)) = ConjT(m).m,   *)
(* shapes swapped, involution.  The conformance harness then replays every  *)
(* dumped entry on the real objects and compares dense matrices with m.     *)
EXTENDS ElementMaps, CMat, TLC

CONSTANTS Atoms,      \* set of atom expressions offered to Push
          Scalars,    \* Gaussian integers used by a*A and A*a
          StackAxes,  \* axis arguments for Hstack/Vstack/Diag: None (= <<>>) or <<axis>>
          Arities,    \* operand counts for the stacking constructors
          MaxStack, MaxFlat, MaxLevel,
          Calls       \* which actions this configuration enables

VARIABLES stack, last, steps   \* steps: number of API calls made so far (bounds the session)
vars == <<stack, last, steps>>

Mk(k, a, s) == [k |-> k, a |-> a, s |-> s]
Leaf(k, a) == Mk(k, a, <<>>)
P(e, i) == e.a[i]
AxSet(axes, r) == {axes[i] % r : i \in 1..Len(axes)}
KeepDims(r, A) == SelectSeq(TLCEval([d \in 1..r |-> d]), LAMBDA d : (d - 1) \notin A)
Reverse(s) == TLCEval([i \in 1..Len(s) |-> s[Len(s) + 1 - i]])

\* ------------------------------------------------------------------ MEANING: atoms
TransPerm(ish, axes) ==
  LET r == Len(ish) IN IF axes = None THEN TLCEval([d \in 1..r |-> r - d]) ELSE TLCEval([d \in 1..r |-> axes[d] % r])
TransOsh(ish, axes) == LET pm == TransPerm(ish, axes) IN TLCEval([d \in 1..Len(ish) |-> ish[pm[d] + 1]])
TransMap(ish, axes) ==
  LET r == Len(ish)  pm == TransPerm(ish, axes)  osh == TransOsh(ish, axes) IN
  TLCEval([p \in 1..Prod(osh) |->
     LET k == MultiOf(p - 1, osh)
         j == TLCEval([t \in 1..r |-> k[CHOOSE d \in 1..r : pm[d] + 1 = t]])
     IN {FlatOf(j, ish) + 1}])

SumOsh(ish, axes) ==
  LET keep == KeepDims(Len(ish), AxSet(axes, Len(ish))) IN TLCEval([i \in 1..Len(keep) |-> ish[keep[i]]])
SumMap(ish, axes) ==
  LET keep == KeepDims(Len(ish), AxSet(axes, Len(ish)))  osh == SumOsh(ish, axes) IN
  TLCEval([p \in 1..Prod(osh) |->
     TLCEval({q \in 1..Prod(ish) : LET j == MultiOf(q - 1, ish) IN
                             TLCEval([i \in 1..Len(keep) |-> j[keep[i]]]) = MultiOf(p - 1, osh)})])

SliceOsh(ish, st, sp, sz) == TLCEval([d \in 1..Len(ish) |-> CeilDiv(sp[d] - st[d], sz[d])])
SliceMap(ish, st, sp, sz) ==
  Gather(SliceOsh(ish, st, sp, sz), ish, LAMBDA d, k : st[d] + k * sz[d])

\* numpy broadcasting: index into a (left-padded) shape for broadcast multi-index k
BIdx(k, shp) == TLCEval([d \in 1..Len(shp) |-> IF shp[d] = 1 THEN 0 ELSE k[d]])
LastN(s, n) == SubSeq(s, Len(s) - n + 1, Len(s))

MulMshape(e) == IF P(e, 2) = <<>> THEN <<1>> ELSE P(e, 2)
MulOsh(e) == BroadcastShape(P(e, 1), MulMshape(e))
MulVal(e, t) == LET v == <<P(e, 3)[t], P(e, 4)[t]>> IN IF P(e, 5)[1] = 1 THEN CConj(v) ELSE v
MulMat(e) ==
  LET ish == P(e, 1)  msh == MulMshape(e)  r == Max2(Len(ish), Len(msh))
      ip == PadLeft(ish, r)  mp == PadLeft(msh, r)  osh == MulOsh(e) IN
  Mat(Prod(osh), Prod(ish), LAMBDA p, c :
     LET k == MultiOf(p - 1, osh)
         q == FlatOf(BIdx(k, ip), ip) + 1
         t == FlatOf(BIdx(k, mp), mp) + 1
     IN IF c = q THEN MulVal(e, t) ELSE Zero)

\* matrix argument after the optional adjoint (conjugate + swap of the last two axes)
SwapLast2(s) == LET n == Len(s) IN TLCEval([d \in 1..n |-> IF d = n - 1 THEN s[n] ELSE IF d = n THEN s[n - 1] ELSE s[d]])
MMShape(e) == IF P(e, 5)[1] = 1 THEN SwapLast2(P(e, 2)) ELSE P(e, 2)
MMEntry(e, idx) ==
  LET adj == P(e, 5)[1] = 1
      src == IF adj THEN SwapLast2(idx) ELSE idx
      t == FlatOf(src, P(e, 2)) + 1
      v == <<P(e, 3)[t], P(e, 4)[t]>>
  IN IF adj THEN CConj(v) ELSE v
MatMulOsh(e) ==
  LET ish == P(e, 1)  me == MMShape(e)  r == Max2(Len(ish), Len(me))
      ip == PadLeft(ish, r)  mp == PadLeft(me, r) IN
  TLCEval([d \in 1..r |-> IF d <= r - 2 THEN Max2(ip[d], mp[d]) ELSE IF d = r - 1 THEN mp[r - 1] ELSE ip[r]])
MatMulMat(e) ==   \* out[.., i, c] = SUM_l mat[.., i, l] * in[.., l, c]
  LET ish == P(e, 1)  me == MMShape(e)  r == Max2(Len(ish), Len(me))
      ip == PadLeft(ish, r)  mp == PadLeft(me, r)  osh == MatMulOsh(e) IN
  Mat(Prod(osh), Prod(ish), LAMBDA p, q :
     LET k == MultiOf(p - 1, osh)  jj == MultiOf(q - 1, ip) IN
     IF jj[r] = k[r] /\ \A d \in 1..(r - 2) : jj[d] = (IF ip[d] = 1 THEN 0 ELSE k[d])
     THEN MMEntry(e, LastN([d \in 1..r |-> IF d <= r - 2 THEN (IF mp[d] = 1 THEN 0 ELSE k[d])
                                           ELSE IF d = r - 1 THEN k[r - 1] ELSE jj[r - 1]], Len(me)))
     ELSE Zero)
RMatMulOsh(e) ==
  LET ish == P(e, 1)  me == MMShape(e)  r == Max2(Len(ish), Len(me))
      ip == PadLeft(ish, r)  mp == PadLeft(me, r) IN
  TLCEval([d \in 1..r |-> IF d <= r - 2 THEN Max2(ip[d], mp[d]) ELSE IF d = r - 1 THEN ip[r - 1] ELSE mp[r]])
RMatMulMat(e) ==  \* out[.., a, c] = SUM_l in[.., a, l] * mat[.., l, c]
  LET ish == P(e, 1)  me == MMShape(e)  r == Max2(Len(ish), Len(me))
      ip == PadLeft(ish, r)  mp == PadLeft(me, r)  osh == RMatMulOsh(e) IN
  Mat(Prod(osh), Prod(ish), LAMBDA p, q :
     LET k == MultiOf(p - 1, osh)  jj == MultiOf(q - 1, ip) IN
     IF jj[r - 1] = k[r - 1] /\ \A d \in 1..(r - 2) : jj[d] = (IF ip[d] = 1 THEN 0 ELSE k[d])
     THEN MMEntry(e, LastN([d \in 1..r |-> IF d <= r - 2 THEN (IF mp[d] = 1 THEN 0 ELSE k[d])
                                           ELSE IF d = r - 1 THEN jj[r] ELSE k[r]], Len(me)))
     ELSE Zero)

\* ------------------------------------------------------------------ MEANING: stacking along an axis
CatTotal(shs, ax) ==
  IF ax = None THEN <<SumSeq(TLCEval([i \in 1..Len(shs) |-> Prod(shs[i])]))>>
  ELSE LET r == Len(shs[1])  a == ax[1] % r IN
       TLCEval([d \in 1..r |-> IF d - 1 = a THEN SumSeq([i \in 1..Len(shs) |-> shs[i][d]]) ELSE shs[1][d]])
\* documented fit: equal rank, axis in [-rank, rank), equal extents off the axis
CatFit(shs, ax) ==
  ax = None \/
  LET r == Len(shs[1]) IN
    /\ \A i \in 1..Len(shs) : Len(shs[i]) = r
    /\ ValidAxis(ax[1], r)
    /\ \A i \in 1..Len(shs) : \A d \in 1..r : d - 1 # ax[1] % r => shs[i][d] = shs[1][d]
CumBefore(sz, i) == SumSeq(SubSeq(sz, 1, i - 1))
\* which operand, and which flat position inside it, a flat position p0 of the concatenation is
Locate(shs, ax, p0) ==
  IF ax = None THEN
     LET sz == TLCEval([i \in 1..Len(shs) |-> Prod(shs[i])])
         n == CHOOSE i \in 1..Len(shs) : CumBefore(sz, i) <= p0 /\ p0 < CumBefore(sz, i) + sz[i]
     IN <<n, p0 - CumBefore(sz, n)>>
  ELSE
     LET r == Len(shs[1])  a == (ax[1] % r) + 1
         sz == TLCEval([i \in 1..Len(shs) |-> shs[i][a]])
         k == MultiOf(p0, CatTotal(shs, ax))
         n == CHOOSE i \in 1..Len(shs) : CumBefore(sz, i) <= k[a] /\ k[a] < CumBefore(sz, i) + sz[i]
     IN <<n, FlatOf([k EXCEPT ![a] = k[a] - CumBefore(sz, n)], shs[n])>>
VstackMat(ms, oshs, ax) ==
  TLCEval([p \in 1..Prod(CatTotal(oshs, ax)) |-> LET loc == Locate(oshs, ax, p - 1) IN ms[loc[1]][loc[2] + 1]])
HstackMat(ms, ishs, ax) ==
  Mat(Rows(ms[1]), Prod(CatTotal(ishs, ax)), LAMBDA i, q :
      LET loc == Locate(ishs, ax, q - 1) IN ms[loc[1]][i][loc[2] + 1])
DiagMat(ms, oshs, oax, ishs, iax) ==
  Mat(Prod(CatTotal(oshs, oax)), Prod(CatTotal(ishs, iax)), LAMBDA p, q :
      LET lo == Locate(oshs, oax, p - 1)  li == Locate(ishs, iax, q - 1) IN
      IF lo[1] = li[1] THEN ms[lo[1]][lo[2] + 1][li[2] + 1] ELSE Zero)

\* linop.FiniteDifference(ishape, axes): documented meaning, row block k is  x - circshift(x, 1, axis k)
\* (axes None = all axes; otherwise the normalised axes in ascending order)
FDAxes(e) == IF P(e, 2) = None THEN TLCEval([d \in 1..Len(P(e, 1)) |-> d - 1])
             ELSE SelectSeq(TLCEval([d \in 1..Len(P(e, 1)) |-> d - 1]), LAMBDA d : d \in AxSet(P(e, 2), Len(P(e, 1))))
FDMat(e) ==
  LET ish == P(e, 1)  axs == FDAxes(e)  n == Prod(ish) IN
  Mat(Len(axs) * n, n, LAMBDA p, q :
      LET k == ((p - 1) \div n) + 1  j == ((p - 1) % n) + 1
          cm == CircshiftOut(ish, <<1>>, <<axs[k]>>) IN
      CSub(IF q = j THEN One ELSE Zero, IF q \in cm[j] THEN One ELSE Zero))

RECURSIVE MProd(_)
MProdB(ms) == IF Len(ms) = 1 THEN ms[1] ELSE MMul(ms[1], MProd(Tail(ms)))
MProd(ms) == MProdB(ms)   \* TLC does not cache arguments of RECURSIVE operators; the body operator does
RECURSIVE MSum(_)
MSumB(ms) == IF Len(ms) = 1 THEN ms[1] ELSE MAdd(ms[1], MSum(Tail(ms)))

MSum(ms) == MSumB(ms)   \* TLC does not cache arguments of RECURSIVE operators; the body operator does
\* ------------------------------------------------------------------ MEANING: shapes <<osh, ish>> and matrix of an expression
RECURSIVE Sh(_)
ShB(e) ==
  CASE e.k = "Identity"   -> <<P(e, 1), P(e, 1)>>
    [] e.k = "Reshape"    -> <<P(e, 1), P(e, 2)>>
    [] e.k = "Transpose"  -> <<TransOsh(P(e, 1), P(e, 2)), P(e, 1)>>
    [] e.k = "Resize"     -> <<P(e, 1), P(e, 2)>>
    [] e.k = "Flip"       -> <<P(e, 1), P(e, 1)>>
    [] e.k = "Circshift"  -> <<P(e, 1), P(e, 1)>>
    [] e.k = "Downsample" -> <<DownShape(P(e, 1), P(e, 2), P(e, 3)), P(e, 1)>>
    [] e.k = "Upsample"   -> <<P(e, 1), DownShape(P(e, 1), P(e, 2), P(e, 3))>>
    [] e.k = "Sum"        -> <<SumOsh(P(e, 1), P(e, 2)), P(e, 1)>>
    [] e.k = "Tile"       -> <<P(e, 1), SumOsh(P(e, 1), P(e, 2))>>
    [] e.k = "Slice"      -> <<SliceOsh(P(e, 1), P(e, 2), P(e, 3), P(e, 4)), P(e, 1)>>
    [] e.k = "Embed"      -> <<P(e, 1), SliceOsh(P(e, 1), P(e, 2), P(e, 3), P(e, 4))>>
    [] e.k = "A2B"        -> LET D == Len(P(e, 2))  n == Len(P(e, 1)) - D IN
                             <<A2BShape(SubSeq(P(e, 1), 1, n), LastN(P(e, 1), D), P(e, 2), P(e, 3)), P(e, 1)>>
    [] e.k = "B2A"        -> LET D == Len(P(e, 2))  n == Len(P(e, 1)) - D IN
                             <<P(e, 1), A2BShape(SubSeq(P(e, 1), 1, n), LastN(P(e, 1), D), P(e, 2), P(e, 3))>>
    [] e.k = "FiniteDifference" -> <<<<Len(FDAxes(e))>> \o P(e, 1), P(e, 1)>>
    [] e.k = "Multiply"   -> <<MulOsh(e), P(e, 1)>>
    [] e.k = "MatMul"     -> <<MatMulOsh(e), P(e, 1)>>
    [] e.k = "RightMatMul" -> <<RMatMulOsh(e), P(e, 1)>>
    [] e.k = "Compose"    -> <<Sh(e.s[1])[1], Sh(e.s[Len(e.s)])[2]>>
    [] e.k = "Add"        -> Sh(e.s[1])
    [] e.k = "Conj"       -> Sh(e.s[1])
    [] e.k = "Hstack"     -> <<Sh(e.s[1])[1], CatTotal(TLCEval([i \in 1..Len(e.s) |-> Sh(e.s[i])[2]]), P(e, 1))>>
    [] e.k = "Vstack"     -> <<CatTotal(TLCEval([i \in 1..Len(e.s) |-> Sh(e.s[i])[1]]), P(e, 1)), Sh(e.s[1])[2]>>
    [] e.k = "Diag"       -> <<CatTotal(TLCEval([i \in 1..Len(e.s) |-> Sh(e.s[i])[1]]), P(e, 1)),
                               CatTotal(TLCEval([i \in 1..Len(e.s) |-> Sh(e.s[i])[2]]), P(e, 2))>>

Sh(e) == ShB(e)   \* TLC does not cache arguments of RECURSIVE operators; the body operator does
RECURSIVE MatOf(_)
MatOfB(e) ==
  LET nin == Prod(Sh(e)[2]) IN
  CASE e.k = "Identity"   -> MId(nin)
    [] e.k = "Reshape"    -> MId(nin)
    [] e.k = "Transpose"  -> MapMat(TransMap(P(e, 1), P(e, 2)), nin)
    [] e.k = "Resize"     -> MapMat(ResizeOut(P(e, 2), P(e, 1), P(e, 3), P(e, 4)), nin)
    [] e.k = "Flip"       -> MapMat(FlipOut(P(e, 1), P(e, 2)), nin)
    [] e.k = "Circshift"  -> MapMat(CircshiftOut(P(e, 1), P(e, 2), P(e, 3)), nin)
    [] e.k = "Downsample" -> MapMat(DownsampleOut(P(e, 1), P(e, 2), P(e, 3)), nin)
    [] e.k = "Upsample"   -> MapMat(UpsampleOut(P(e, 1), P(e, 2), P(e, 3)), nin)
    [] e.k = "Sum"        -> MapMat(SumMap(P(e, 1), P(e, 2)), nin)
    [] e.k = "Tile"       -> MapMat(TransposeOf(SumMap(P(e, 1), P(e, 2)), Prod(P(e, 1))), nin)
    [] e.k = "Slice"      -> MapMat(SliceMap(P(e, 1), P(e, 2), P(e, 3), P(e, 4)), nin)
    [] e.k = "Embed"      -> MapMat(TransposeOf(SliceMap(P(e, 1), P(e, 2), P(e, 3), P(e, 4)), Prod(P(e, 1))), nin)
    [] e.k = "A2B"        -> LET D == Len(P(e, 2))  n == Len(P(e, 1)) - D IN
                             MapMat(A2BOut(SubSeq(P(e, 1), 1, n), LastN(P(e, 1), D), P(e, 2), P(e, 3)), nin)
    [] e.k = "B2A"        -> LET D == Len(P(e, 2))  n == Len(P(e, 1)) - D IN
                             MapMat(B2AOut(SubSeq(P(e, 1), 1, n), LastN(P(e, 1), D), P(e, 2), P(e, 3)), nin)
    [] e.k = "FiniteDifference" -> FDMat(e)
    [] e.k = "Multiply"   -> MulMat(e)
    [] e.k = "MatMul"     -> MatMulMat(e)
    [] e.k = "RightMatMul" -> RMatMulMat(e)
    [] e.k = "Compose"    -> MProd(TLCEval([i \in 1..Len(e.s) |-> MatOf(e.s[i])]))
    [] e.k = "Add"        -> MSum(TLCEval([i \in 1..Len(e.s) |-> MatOf(e.s[i])]))
    [] e.k = "Conj"       -> MConj(MatOf(e.s[1]))
    [] e.k = "Hstack"     -> HstackMat(TLCEval([i \in 1..Len(e.s) |-> MatOf(e.s[i])]),
                                       TLCEval([i \in 1..Len(e.s) |-> Sh(e.s[i])[2]]), P(e, 1))
    [] e.k = "Vstack"     -> VstackMat(TLCEval([i \in 1..Len(e.s) |-> MatOf(e.s[i])]),
                                       TLCEval([i \in 1..Len(e.s) |-> Sh(e.s[i])[1]]), P(e, 1))
    [] e.k = "Diag"       -> DiagMat(TLCEval([i \in 1..Len(e.s) |-> MatOf(e.s[i])]),
                                     TLCEval([i \in 1..Len(e.s) |-> Sh(e.s[i])[1]]), P(e, 1),
                                     TLCEval([i \in 1..Len(e.s) |-> Sh(e.s[i])[2]]), P(e, 2))

MatOf(e) == MatOfB(e)   \* TLC does not cache arguments of RECURSIVE operators; the body operator does
\* documented fit predicates of the combining constructors
FitCompose(es) == \A i \in 1..(Len(es) - 1) : Sh(es[i])[2] = Sh(es[i + 1])[1]
FitAdd(es) == \A i \in 1..Len(es) : Sh(es[i]) = Sh(es[1])
FitHstack(es, ax) == (\A i \in 1..Len(es) : Sh(es[i])[1] = Sh(es[1])[1])
                     /\ CatFit(TLCEval([i \in 1..Len(es) |-> Sh(es[i])[2]]), ax)
FitVstack(es, ax) == (\A i \in 1..Len(es) : Sh(es[i])[2] = Sh(es[1])[2])
                     /\ CatFit(TLCEval([i \in 1..Len(es) |-> Sh(es[i])[1]]), ax)
FitDiag(es, oax, iax) == CatFit(TLCEval([i \in 1..Len(es) |-> Sh(es[i])[1]]), oax)
                         /\ CatFit(TLCEval([i \in 1..Len(es) |-> Sh(es[i])[2]]), iax)

\* ------------------------------------------------------------------ MECHANISM (sigpy/linop.py)
\* Compose.__init__ splices nested compositions (_combine_compose_linops)
RECURSIVE Splice(_)
SpliceB(es) == IF Len(es) = 0 THEN <<>>
              ELSE (IF es[1].k = "Compose" THEN es[1].s ELSE <<es[1]>>) \o Splice(Tail(es))
Splice(es) == SpliceB(es)   \* TLC does not cache arguments of RECURSIVE operators; the body operator does
ComposeOf(es) == Mk("Compose", <<>>, Splice(es))
ScalarMul(shape, c) == Leaf("Multiply", <<shape, <<>>, <<c[1]>>, <<c[2]>>, <<0>>>>)

\* _get_multiply_adjoint_sum_axes / _get_matmul_adjoint_sum_axes, transcribed
SumAxesRule(oshape, ishape, mshape, skip) ==
  LET r == Max2(Len(ishape), Len(mshape))
      ip == PadLeft(ishape, r)  mp == PadLeft(mshape, r) IN
  SelectSeq(TLCEval([d \in 1..(r - skip) |-> d - 1]),
            LAMBDA d : d + 1 <= Len(oshape) /\ ip[d + 1] = 1 /\ (mp[d + 1] # 1 \/ oshape[d + 1] # 1))
\* np.argsort of a permutation of 0..r-1 (after the axes were normalised)
ArgSortPerm(s) == TLCEval([i \in 1..Len(s) |-> (CHOOSE d \in 1..Len(s) : s[d] = i - 1) - 1])
\* blocks tile the array exactly once / never overlap (conditions of the Identity shortcut for N)
TilesExactly(N, B, S) == \A d \in 1..Len(N) : S[d] = B[d] /\ N[d] % B[d] = 0
NoOverlap(B, S) == \A d \in 1..Len(B) : S[d] >= B[d]

\* FiniteDifference is a factory: Vstack over the axes of  Reshape([1] + ishape) * (Identity - Circshift(ishape, [1], [axis]))
FDExpand(a) ==
  LET ish == P(a, 1)  axs == FDAxes(a) IN
  Mk("Vstack", <<<<0>>>>, TLCEval([k \in 1..Len(axs) |->
       ComposeOf(<<Leaf("Reshape", <<<<1>> \o ish, ish>>),
                   Mk("Add", <<>>, <<Leaf("Identity", <<ish>>),
                                     ComposeOf(<<ScalarMul(ish, <<-1, 0>>), Leaf("Circshift", <<ish, <<1>>, <<axs[k]>>>>)>>)>>)>>)]))
Mech(a) == IF a.k = "FiniteDifference" THEN FDExpand(a) ELSE a

RECURSIVE AdjRule(_)
AdjRuleB(e) ==
  CASE e.k = "Identity"   -> e
    [] e.k = "Reshape"    -> Leaf("Reshape", <<P(e, 2), P(e, 1)>>)
    [] e.k = "Transpose"  -> Leaf("Transpose",
                               <<TransOsh(P(e, 1), P(e, 2)),
                                 IF P(e, 2) = None THEN None
                                 ELSE ArgSortPerm(TLCEval([d \in 1..Len(P(e, 2)) |-> P(e, 2)[d] % Len(P(e, 1))]))>>)
    [] e.k = "Resize"     -> Leaf("Resize", <<P(e, 2), P(e, 1), P(e, 4), P(e, 3)>>)
    [] e.k = "Flip"       -> e
    [] e.k = "Circshift"  -> Leaf("Circshift", <<P(e, 1), TLCEval([i \in 1..Len(P(e, 2)) |-> 0 - P(e, 2)[i]]), P(e, 3)>>)
    [] e.k = "Downsample" -> Leaf("Upsample", e.a)
    [] e.k = "Upsample"   -> Leaf("Downsample", e.a)
    [] e.k = "Sum"        -> Leaf("Tile", e.a)
    [] e.k = "Tile"       -> Leaf("Sum", e.a)
    [] e.k = "Slice"      -> Leaf("Embed", e.a)
    [] e.k = "Embed"      -> Leaf("Slice", e.a)
    [] e.k = "A2B"        -> Leaf("B2A", e.a)
    [] e.k = "B2A"        -> Leaf("A2B", e.a)
    [] e.k = "Multiply"   ->
         LET osh == Sh(e)[1]
             M == Leaf("Multiply", <<osh, P(e, 2), P(e, 3), P(e, 4), <<1 - P(e, 5)[1]>>>>)
             S == Leaf("Sum", <<Sh(M)[1], SumAxesRule(osh, P(e, 1), MulMshape(e), 0)>>)
             R == Leaf("Reshape", <<P(e, 1), Sh(S)[1]>>)
         IN ComposeOf(<<R, S, M>>)
    [] e.k \in {"MatMul", "RightMatMul"} ->
         LET osh == Sh(e)[1]
             M == Leaf(e.k, <<osh, P(e, 2), P(e, 3), P(e, 4), <<1 - P(e, 5)[1]>>>>)
             S == Leaf("Sum", <<Sh(M)[1], SumAxesRule(osh, P(e, 1), P(e, 2), 2)>>)
             R == Leaf("Reshape", <<P(e, 1), Sh(S)[1]>>)
         IN ComposeOf(<<R, S, M>>)
    [] e.k = "Compose"    -> ComposeOf(Reverse(TLCEval([i \in 1..Len(e.s) |-> AdjRule(e.s[i])])))
    [] e.k = "Add"        -> Mk("Add", <<>>, TLCEval([i \in 1..Len(e.s) |-> AdjRule(e.s[i])]))
    [] e.k = "Conj"       -> Mk("Conj", <<>>, <<AdjRule(e.s[1])>>)
    [] e.k = "Hstack"     -> Mk("Vstack", e.a, TLCEval([i \in 1..Len(e.s) |-> AdjRule(e.s[i])]))
    [] e.k = "Vstack"     -> Mk("Hstack", e.a, TLCEval([i \in 1..Len(e.s) |-> AdjRule(e.s[i])]))
    [] e.k = "Diag"       -> Mk("Diag", <<P(e, 2), P(e, 1)>>, TLCEval([i \in 1..Len(e.s) |-> AdjRule(e.s[i])]))

AdjRule(e) == AdjRuleB(e)   \* TLC does not cache arguments of RECURSIVE operators; the body operator does
NrmRule(e) ==
  LET ident == Leaf("Identity", <<Sh(e)[2]>>)
      D == Len(P(e, 2))  N == LastN(P(e, 1), D) IN
  CASE e.k \in {"Identity", "Reshape", "Transpose", "Circshift"} -> ident
    [] e.k = "A2B" /\ TilesExactly(N, P(e, 2), P(e, 3)) -> ident
    [] e.k = "B2A" /\ NoOverlap(P(e, 2), P(e, 3)) -> ident
    [] OTHER -> ComposeOf(<<AdjRule(e), e>>)

\* ------------------------------------------------------------------ the session
Entry(api, e, m) == [api |-> api, e |-> e, osh |-> Sh(e)[1], ish |-> Sh(e)[2], m |-> m]
Small(e) == Prod(Sh(e)[1]) <= MaxFlat /\ Prod(Sh(e)[2]) <= MaxFlat
Top(n) == SubSeq(stack, Len(stack) - n + 1, Len(stack))
Below(n) == SubSeq(stack, 1, Len(stack) - n)
NoCall == [call |-> "none", args |-> <<>>, n |-> 0, verdict |-> "none"]
Call(c, args, n, v) == [call |-> c, args |-> args, n |-> n, verdict |-> v]

Init == stack = <<>> /\ last = NoCall /\ steps = 0
Step == steps < MaxLevel /\ steps' = steps + 1

Push ==
  /\ Step /\ "Push" \in Calls /\ Len(stack) < MaxStack
  /\ \E a \in Atoms :
       /\ stack' = Append(stack, Entry(a, Mech(a), MatOf(a)))
       /\ last' = Call("Push", <<>>, 0, "ok")

Dup ==
  /\ Step /\ "Dup" \in Calls /\ Len(stack) >= 1 /\ Len(stack) < MaxStack
  /\ stack' = Append(stack, stack[Len(stack)])
  /\ last' = Call("Dup", <<>>, 1, "ok")

\* generic combinator: n operands, result expression built by Build(es), api by kind/args
Combine(c, args, n, fit, e) ==
  /\ Step /\ c \in Calls /\ Len(stack) >= n
  /\ IF fit /\ Small(e)
       THEN /\ stack' = Append(Below(n), Entry(Mk(c, args, TLCEval([i \in 1..n |-> Top(n)[i].api])), e, MatOf(e)))
            /\ last' = Call(c, args, n, "ok")
       ELSE IF ~fit
       THEN /\ stack' = stack
            /\ last' = Call(c, args, n, "rejected")
       ELSE FALSE

TopE(n) == TLCEval([i \in 1..n |-> Top(n)[i].e])

DoMul ==  \* A * B with B on top
  Len(stack) >= 2 /\ Combine("Mul", <<>>, 2, FitCompose(TopE(2)), ComposeOf(TopE(2)))
DoAdd ==
  Len(stack) >= 2 /\ Combine("Add", <<>>, 2, FitAdd(TopE(2)), Mk("Add", <<>>, TopE(2)))
DoSub ==  \* A - B  =  A + (-1 * B)   (__sub__ -> __neg__ -> __rmul__)
  Len(stack) >= 2 /\
  LET A == TopE(2)[1]  B == TopE(2)[2] IN
  Combine("Sub", <<>>, 2, FitAdd(TopE(2)),
          Mk("Add", <<>>, <<A, ComposeOf(<<ScalarMul(Sh(B)[1], <<-1, 0>>), B>>)>>))
DoScaleL ==  \* c * A : multiply in the output space
  Len(stack) >= 1 /\ \E c \in Scalars :
    LET A == TopE(1)[1] IN Combine("ScaleL", <<c>>, 1, TRUE, ComposeOf(<<ScalarMul(Sh(A)[1], c), A>>))
DoScaleR ==  \* A * c : multiply in the input space
  Len(stack) >= 1 /\ \E c \in Scalars :
    LET A == TopE(1)[1] IN Combine("ScaleR", <<c>>, 1, TRUE, ComposeOf(<<A, ScalarMul(Sh(A)[2], c)>>))
DoConj ==
  Len(stack) >= 1 /\ Combine("Conj", <<>>, 1, TRUE, Mk("Conj", <<>>, TopE(1)))
\* the constructors called directly with n operands: Add([A, B, C]) and Compose([A, B, C])  (A + B + C nests two Adds)
DoAddN ==
  \E n \in Arities : Len(stack) >= n /\
    Combine("AddN", <<>>, n, FitAdd(TopE(n)), Mk("Add", <<>>, TopE(n)))
DoComposeN ==
  \E n \in Arities : Len(stack) >= n /\
    Combine("ComposeN", <<>>, n, FitCompose(TopE(n)), ComposeOf(TopE(n)))
DoHstack ==
  \E n \in Arities, ax \in StackAxes : Len(stack) >= n /\
    Combine("Hstack", <<ax>>, n, FitHstack(TopE(n), ax), Mk("Hstack", <<ax>>, TopE(n)))
DoVstack ==
  \E n \in Arities, ax \in StackAxes : Len(stack) >= n /\
    Combine("Vstack", <<ax>>, n, FitVstack(TopE(n), ax), Mk("Vstack", <<ax>>, TopE(n)))
DoDiag ==
  \E n \in Arities, oax \in StackAxes, iax \in StackAxes : Len(stack) >= n /\
    Combine("Diag", <<oax, iax>>, n, FitDiag(TopE(n), oax, iax), Mk("Diag", <<oax, iax>>, TopE(n)))

\* .H : the library builds AdjRule(e); it must MEAN the conjugate transpose
TakeH ==
  /\ Step /\ "H" \in Calls /\ Len(stack) >= 1
  /\ LET t == stack[Len(stack)] IN
     /\ stack' = Append(Below(1), Entry(Mk("H", <<>>, <<t.api>>), AdjRule(t.e), MConjT(t.m)))
     /\ last' = Call("H", <<>>, 1, "ok")
\* .N : the library builds NrmRule(e); it must MEAN A^H A
\* (exploration bound, not a rule of the library: TLC integers are 32-bit and the invariants square the matrix of every state
\*  once more, so N is explored on operators whose entries stay below EntryCap - the narrow-integer multipliers 150 / 200 get one N)
EntryCap == 1000
SmallEntries(m) == \A i \in 1..Len(m) : \A j \in 1..Len(m[i]) : /\ m[i][j][1] <= EntryCap /\ m[i][j][1] >= 0 - EntryCap
                                                                 /\ m[i][j][2] <= EntryCap /\ m[i][j][2] >= 0 - EntryCap
TakeN ==
  /\ Step /\ "N" \in Calls /\ Len(stack) >= 1
  /\ SmallEntries(stack[Len(stack)].m)
  /\ LET t == stack[Len(stack)] IN
     /\ stack' = Append(Below(1), Entry(Mk("N", <<>>, <<t.api>>), NrmRule(t.e), MMul(MConjT(t.m), t.m)))
     /\ last' = Call("N", <<>>, 1, "ok")

Next == Push \/ Dup \/ DoMul \/ DoAdd \/ DoSub \/ DoScaleL \/ DoScaleR \/ DoConj
        \/ DoHstack \/ DoVstack \/ DoDiag \/ DoAddN \/ DoComposeN \/ TakeH \/ TakeN
Spec == Init /\ [][Next]_vars

\* ------------------------------------------------------------------ properties
HasTop == Len(stack) >= 1
T == stack[Len(stack)]
\* C03: the matrix has the advertised dimensions
ShapeSound == HasTop => Rows(T.m) = Prod(T.osh) /\ Cols(T.m) = Prod(T.ish)
\* C01/C03/C04: what the library builds (e) means what the entry claims (m);
\* for entries made by TakeH / TakeN this IS adjoint / normal correctness
MechanismMeansM == HasTop => MatOf(T.e) = T.m
\* C01: the adjoint has swapped shapes, is the conjugate transpose, and is an involution
AdjShapes == HasTop => Sh(AdjRule(T.e)) = <<T.ish, T.osh>>
AdjCorrect == HasTop => MatOf(AdjRule(T.e)) = MConjT(T.m)
AdjInvolution == HasTop => MatOf(AdjRule(AdjRule(T.e))) = T.m
\* C04
NormalCorrect == HasTop => MatOf(NrmRule(T.e)) = MMul(MConjT(T.m), T.m)
\* C03: a rejected call leaves the session unchanged (checked as an action property)
RejectKeepsStack == [][last'.verdict = "rejected" => stack' = stack]_vars
=======================================================================
