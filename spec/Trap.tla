------------------------------ MODULE Trap ------------------------------
(* Trapezoid gradient designers sigpy.mri.rf.trap_grad / min_trap_grad    *)
(* (sigpy/mri/rf/trajgrad.py:26-139) and the list surgery of spokes_grad   *)
(* (:664-725) - property C20.                                             *)
(*                                                                        *)
(* Dimensionless form ("any consistent units"): time in samples,          *)
(* amplitude in units of dgdt*dt, so the inputs are                       *)
(*     G = gmax / (dgdt*dt)        a = area / (dgdt*dt^2)                  *)
(* and the slew limit is "first difference <= 1".  Every waveform the     *)
(* functions build is  ramp up (r+1 samples k/r * peak, k = 0..r),        *)
(* plateau (n samples at peak), ramp down; the specification carries the  *)
(* descriptor <<r, n, peak>> in exact rationals.                          *)
(*  MECHANISM: TrapDesign / MinTrapDesign transcribe the branches.        *)
(*  MEANING:   the requirement predicates below, independent of them.     *)
EXTENDS TrapDefs

CONSTANTS GVals, AVals    \* grids of rationals for G and a

VARIABLES fn, G, a, des, tie
vars == <<fn, G, a, des, tie>>

\* ---------------------------------------------------------------- actions
Init == fn = "none" /\ G \in GVals /\ a = RInt(1) /\ des = [kind |-> "none", r |-> 1, n |-> 0, peak |-> RInt(0)] /\ tie = FALSE
DoTrap == fn = "none" /\ \E ar \in AVals :
            fn' = "trap_grad" /\ G' = G /\ a' = ar /\ des' = TrapDesign(G, ar) /\ tie' = TrapTie(G, ar)
DoMinTrap == fn = "none" /\ \E ar \in AVals :
            fn' = "min_trap_grad" /\ G' = G /\ a' = ar /\ des' = MinTrapDesign(G, ar) /\ tie' = MinTrapTie(G, ar)
Next == DoTrap \/ DoMinTrap
Spec == Init /\ [][Next]_vars

\* ---------------------------------------------------------------- requirements (C20), independent of the mechanism
Designed == fn # "none"
Defined == Designed => des.r >= 1 /\ des.n >= 0 /\ (fn = "min_trap_grad" => des.n >= 1) /\ RLt(RInt(0), des.peak)
EndsAtZero == Designed => Sample(des, 1) = RInt(0) /\ Sample(des, Len3(des)) = RInt(0)
AreaExact == Designed => IF fn = "trap_grad" THEN TotalArea(des) = a ELSE FlatArea(des) = a
AmplitudeLimit == Designed => RLe(des.peak, G)          \* the peak is the largest sample
SlewLimit == Designed => RLe(RDiv(des.peak, RInt(des.r)), RInt(1))   \* every first difference is peak/r or 0
\* the closed forms above agree with the sample-by-sample sum (checked on small waveforms)
ClosedFormSound == (Designed /\ Len3(des) <= 40) => SumTo(des, Len3(des)) = TotalArea(des)
=========================================================================
