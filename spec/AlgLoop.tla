----------------------------- MODULE AlgLoop -----------------------------
(* The iteration protocol of sigpy.alg.Alg and sigpy.app.App.run          *)
(* (sigpy/alg.py:50-73, sigpy/app.py:72-103) - property C15, first clause. *)
(*                                                                         *)
(* One Alg object.  The client may call done() and update() in ANY order   *)
(* (the API allows update() after done() returned True); App.run drives    *)
(* the canonical loop  `while not alg.done(): alg.update()`  and returns.  *)
(* Actions are the linearisation points the trace hooks log:               *)
(*   UpdateBegin / UpdateEnd / UpdateAbort   (alg.update.begin / .end / -) *)
(*   DoneQuery(v)                            (alg.done)                    *)
(*   RunBegin / RunEnd                       (app.run.begin / .end)        *)
(* `early` is the algorithm-specific stopping flag (tolerance reached,     *)
(* breakdown); it is chosen nondeterministically by every update, so the   *)
(* properties below hold whatever the numerical part does.                 *)
EXTENDS Integers, TLC

CONSTANTS MaxIters,     \* set of budgets max_iter >= 0 to explore
          ExtraUpdates  \* how many updates beyond max_iter a hand-driven client may try

VARIABLES max_iter, iter, upd, early, lastdone, run, iter0, runupd
vars == <<max_iter, iter, upd, early, lastdone, run, iter0, runupd>>

Init ==
  /\ max_iter \in MaxIters
  /\ iter = 0 /\ upd = "idle" /\ early \in BOOLEAN
  /\ lastdone = "unknown" /\ run = "none" /\ iter0 = 0 /\ runupd = 0

\* what done() must answer: TRUE is forced once the budget is used up;
\* before that only the algorithm's own flag may stop it
DoneValue == (iter >= max_iter) \/ early

UpdateBegin ==
  /\ upd = "idle"
  /\ iter < max_iter + ExtraUpdates
  /\ run = "running" => lastdone = "false"     \* App.run only updates after done() said False
  /\ upd' = "running" /\ lastdone' = "unknown"
  /\ UNCHANGED <<max_iter, iter, early, run, iter0, runupd>>

UpdateEnd ==
  /\ upd = "running"
  /\ iter' = iter + 1                          \* exactly one per update
  /\ early' \in BOOLEAN
  /\ upd' = "idle"
  /\ runupd' = IF run = "running" THEN runupd + 1 ELSE runupd
  /\ UNCHANGED <<max_iter, lastdone, run, iter0>>

UpdateAbort ==                                 \* _update raised: the counter does not move
  /\ upd = "running"
  /\ upd' = "idle"
  /\ run' = IF run = "running" THEN "aborted" ELSE run   \* the exception propagates out of App.run
  /\ UNCHANGED <<max_iter, iter, early, lastdone, iter0, runupd>>

DoneQuery(v) ==
  /\ upd = "idle"
  /\ v = DoneValue
  /\ lastdone' = IF v THEN "true" ELSE "false"
  /\ UNCHANGED <<max_iter, iter, upd, early, run, iter0, runupd>>   \* a query never changes state

RunBegin ==                                     \* (also a second run() of an app that has finished: it finds done() True at once)
  /\ run \in {"none", "finished"} /\ upd = "idle"
  /\ run' = "running" /\ iter0' = iter /\ runupd' = 0 /\ lastdone' = "unknown"
  /\ UNCHANGED <<max_iter, iter, upd, early>>

RunEnd ==
  /\ run = "running" /\ upd = "idle" /\ lastdone = "true"
  /\ run' = "finished"
  /\ UNCHANGED <<max_iter, iter, upd, early, lastdone, iter0, runupd>>

Next == UpdateBegin \/ UpdateEnd \/ UpdateAbort \/ (\E v \in BOOLEAN : DoneQuery(v)) \/ RunBegin \/ RunEnd
Spec == Init /\ [][Next]_vars /\ WF_vars(Next)

\* ------------------------------------------------------------------ properties
TypeOK ==
  /\ iter \in Nat /\ max_iter \in Nat /\ runupd \in Nat /\ iter0 \in Nat
  /\ upd \in {"idle", "running"} /\ lastdone \in {"unknown", "true", "false"}
  /\ run \in {"none", "running", "finished", "aborted"}
Budget(a, b) == IF a >= b THEN a - b ELSE 0
\* the canonical loop performs at most max_iter updates (counted from where it started)
CanonicalBudget == run # "none" => runupd <= Budget(max_iter, iter0)
\* ... and every one of them advanced the counter by one
CounterIsUpdates == run = "running" => iter = iter0 + runupd
\* once the budget is used up done() answers True
ExhaustedMeansDone == (lastdone = "false" /\ upd = "idle") => iter < max_iter
\* App.run returns only after done() answered True with no update since
RunEndsDone == [][(run = "running" /\ run' = "finished") => (lastdone = "true" /\ upd = "idle")]_vars
\* iter only ever moves by single increments, and only in UpdateEnd
StepByOne == [][iter' = iter \/ (iter' = iter + 1 /\ upd = "running")]_iter
QueryIsPure == [][(upd = "idle" /\ upd' = "idle" /\ run' = run) => iter' = iter]_vars
\* the canonical loop terminates
RunTerminates == (run = "running") ~> (run \in {"finished", "aborted"})

\* inductive invariant for ALL max_iter (strengthened and discharged with Apalache in apalache/MC_AlgLoopInd.tla)
IndInv == TypeOK /\ CanonicalBudget /\ CounterIsUpdates /\ ExhaustedMeansDone
==========================================================================
