------------------------------ MODULE Prox ------------------------------
(* Proximal operators of sigpy.prox / sigpy.thresh (property C11).        *)
(*                                                                        *)
(* State: a prox expression tree `cur` built by the user (base class with  *)
(* parameters, wrapped by Conj, Stack, UnitaryTransform, L2Reg(proxh=.)),  *)
(* then one evaluation P(alpha, y) on an exact point y.                    *)
(* Numbers are complex rationals <<re, im>> with re, im in Rat.            *)
(*                                                                        *)
(*  MECHANISM  ProxModel(e, alpha, y): the closed forms the classes        *)
(*             implement (soft threshold, Duchi's l1-ball threshold,       *)
(*             rescale onto the l2 ball, x - soft(x) for l-infinity, clip, *)
(*             Moreau identity, split/vec, A^H prox(A .), the two-stage    *)
(*             formula of L2Reg).                                          *)
(*  MEANING    IsMinimiser(e, alpha, y, x): the optimality condition       *)
(*             y - x \in alpha * subdifferential g(x), stated per class    *)
(*             WITHOUT the algorithm (no sorting, no square roots), and    *)
(*             recursively for the combinators.                            *)
(* TLC checks ModelIsMinimiser, ShapeKept, FeasibleIsFixed, Idempotent on  *)
(* every evaluation; the harness replays every evaluation on the real      *)
(* Prox objects (and on the thresh functions) and compares with the model. *)
EXTENDS Rat, Sequences, TLC

CONSTANTS Bases,     \* set of base prox expressions
          StackBases, \* partners offered to the Stack wrapper
          Lams,      \* lamda values for the L2Reg wrapper
          Unitaries, \* set of unitary matrices (sequences of rows of complex rationals)
          Alphas,    \* step sizes
          Points,    \* set of input vectors (sequences of complex rationals)
          MaxWraps,
          MaxStackSize,   \* largest flattened size of a three-member Stack (there must be Points of that length)
          SqrtBound

VARIABLES cur, wraps, alpha, y, out, phase
vars == <<cur, wraps, alpha, y, out, phase>>

\* ---------------------------------------------------------------- complex rationals
C0 == <<RInt(0), RInt(0)>>
CR(q) == <<q, RInt(0)>>
CAddQ(a, b) == <<RAdd(a[1], b[1]), RAdd(a[2], b[2])>>
CSubQ(a, b) == <<RSub(a[1], b[1]), RSub(a[2], b[2])>>
CMulQ(a, b) == <<RSub(RMul(a[1], b[1]), RMul(a[2], b[2])), RAdd(RMul(a[1], b[2]), RMul(a[2], b[1]))>>
CScale(q, a) == <<RMul(q, a[1]), RMul(q, a[2])>>
CConjQ(a) == <<a[1], RNeg(a[2])>>
CAbs2Q(a) == RAdd(RSq(a[1]), RSq(a[2]))
CDivQ(a, b) == CScale(RInv(CAbs2Q(b)), CMulQ(a, CConjQ(b)))
\* exact square root of a non-negative rational, or <<-1, 1>> if irrational
RSqrt(q) ==
  IF \E r \in 0..SqrtBound : r * r = q[1] THEN
     IF \E s \in 1..SqrtBound : s * s = q[2]
     THEN R(CHOOSE r \in 0..SqrtBound : r * r = q[1], CHOOSE s \in 1..SqrtBound : s * s = q[2])
     ELSE <<0, 0>>
  ELSE <<0, 0>>
Bad == <<0, 0>>      \* not a rational (denominator 0): marks an irrational modulus
CAbsQ(a) == IF a[2] = RInt(0) THEN RAbs(a[1]) ELSE IF a[1] = RInt(0) THEN RAbs(a[2]) ELSE RSqrt(CAbs2Q(a))   \* real / imaginary numbers need no square root
VAdd(u, v) == TLCEval([i \in 1..Len(u) |-> CAddQ(u[i], v[i])])
VSub(u, v) == TLCEval([i \in 1..Len(u) |-> CSubQ(u[i], v[i])])
VScale(q, u) == TLCEval([i \in 1..Len(u) |-> CScale(q, u[i])])
RECURSIVE RSumTo(_, _)
RSumToB(f, n) == IF n = 0 THEN RInt(0) ELSE RAdd(f[n], RSumTo(f, n - 1))
RSumTo(f, n) == RSumToB(f, n)
Norm2Sq(u) == RSumTo(TLCEval([i \in 1..Len(u) |-> CAbs2Q(u[i])]), Len(u))
RECURSIVE CSumToQ(_, _)
CSumToQB(f, n) == IF n = 0 THEN C0 ELSE CAddQ(f[n], CSumToQ(f, n - 1))
CSumToQ(f, n) == CSumToQB(f, n)
MatVec(U, v) == TLCEval([i \in 1..Len(U) |-> CSumToQ(TLCEval([k \in 1..Len(v) |-> CMulQ(U[i][k], v[k])]), Len(v))])
ConjTQ(U) == TLCEval([j \in 1..Len(U[1]) |-> TLCEval([i \in 1..Len(U) |-> CConjQ(U[i][j])])])
IsReal(v) == \A i \in 1..Len(v) : v[i][2] = RInt(0)

\* ---------------------------------------------------------------- expressions
\* [k, q (sequence of rationals), v (sequence of vectors), m (sequence of matrices), s (children)]
Mk(k, q, v, m, s) == [k |-> k, q |-> q, v |-> v, m |-> m, s |-> s]
RECURSIVE HasBox(_)
HasBoxB(e) == e.k = "Box" \/ \E i \in 1..Len(e.s) : HasBox(e.s[i])
HasBox(e) == HasBoxB(e)
IsRealMat(U) == \A i \in 1..Len(U) : \A j \in 1..Len(U[i]) : U[i][j][2] = RInt(0)
RECURSIVE Size(_), SizeSum(_, _)
SizeB(e) ==
  CASE e.k = "Stack" -> SizeSum(e.s, Len(e.s))            \* any number of members
    [] e.k \in {"Conj", "L2RegH"} -> Size(e.s[1])
    [] e.k = "Unitary" -> Len(e.m[1])
    [] OTHER -> e.q[1][1]                    \* base classes carry their length as first parameter
Size(e) == SizeB(e)
SizeSumB(ss, n) == IF n = 0 THEN 0 ELSE SizeSum(ss, n - 1) + Size(ss[n])
SizeSum(ss, n) == SizeSumB(ss, n)
\* Stack([P1, ..., Pk]): member i owns the i-th run of the flattened input
Part(e, u, i) == SubSeq(u, SizeSum(e.s, i - 1) + 1, SizeSum(e.s, i))
\* L2Proj(axes = ...): the array is cut into g groups (rows of a [g, n/g] array for axes = last) with one ball each.
\* "L2ProjG" carries q = <<n, eps, g>> and the bias vector; group j is the j-th run of n/g consecutive elements.
RECURSIVE HasGroups(_)
HasGroupsB(e) == e.k = "L2ProjG" \/ \E i \in 1..Len(e.s) : HasGroups(e.s[i])
HasGroups(e) == HasGroupsB(e)
Chunk(u, j, m) == SubSeq(u, (j - 1) * m + 1, j * m)
RECURSIVE CatTo(_, _)
CatToB(f, n) == IF n = 0 THEN <<>> ELSE CatTo(f, n - 1) \o f[n]
CatTo(f, n) == CatToB(f, n)

\* ---------------------------------------------------------------- MECHANISM: closed forms
\* soft threshold  (|v| - t)+ v/|v|   (needs |v| exactly)
Soft1(t, v) ==
  LET a == CAbsQ(v) IN
  IF a = Bad THEN <<Bad, Bad>>
  ELSE IF RLe(a, t) THEN C0 ELSE CScale(RDiv(RSub(a, t), a), v)
SoftV(t, u) == TLCEval([i \in 1..Len(u) |-> Soft1(t, u[i])])
ExactV(u) == \A i \in 1..Len(u) : u[i][1] # Bad /\ u[i][2] # Bad
AbsV(u) == TLCEval([i \in 1..Len(u) |-> CAbsQ(u[i])])
\* Duchi et al.: threshold theta with SUM (|u_i| - theta)+ = eps; the candidate thresholds
\* are (sum of the k largest |u_i| - eps)/k; the right k is the largest with s_k > st_k
RECURSIVE SumLargest(_, _)
SumLargestB(S, k) ==   \* sum of the k largest elements of the bag S given as a sequence
  IF k = 0 THEN RInt(0)
  ELSE LET j == CHOOSE j \in 1..Len(S) : \A i \in 1..Len(S) : RLe(S[i], S[j])
       IN RAdd(S[j], SumLargest(SubSeq(S, 1, j - 1) \o SubSeq(S, j + 1, Len(S)), k - 1))
SumLargest(S, k) == SumLargestB(S, k)
KthLargest(S, k) == RSub(SumLargest(S, k), SumLargest(S, k - 1))
L1BallTheta(eps, absu) ==
  LET n == Len(absu)
      st(k) == RDiv(RSub(SumLargest(absu, k), eps), RInt(k))
      ks == {k \in 1..n : RLt(st(k), KthLargest(absu, k))}
      kmax == CHOOSE k \in ks : \A j \in ks : j <= k
  IN st(kmax)
L1ProjModel(eps, u) ==
  LET a == AbsV(u) IN
  IF \E i \in 1..Len(u) : a[i] = Bad THEN TLCEval([i \in 1..Len(u) |-> <<Bad, Bad>>])
  ELSE IF RLt(RSumTo(a, Len(u)), eps) THEN u          \* feasible: returned unchanged
  ELSE SoftV(L1BallTheta(eps, a), u)
L2ProjModel(eps, u) ==
  LET nn == RSqrt(Norm2Sq(u)) IN
  IF nn = Bad THEN TLCEval([i \in 1..Len(u) |-> <<Bad, Bad>>])
  ELSE IF RLt(nn, eps) THEN u ELSE VScale(RDiv(eps, nn), u)
ClipR(l, u, t) == IF RLt(t, l) THEN l ELSE IF RLt(u, t) THEN u ELSE t

RECURSIVE ProxModel(_, _, _)
ProxModelB(e, al, u) ==
  CASE e.k = "L1Reg"    -> SoftV(RMul(e.q[2], al), u)
    [] e.k = "L2Reg"    -> \* (u + lam*al*z)/(1 + lam*al); z = e.v[1] or absent
         LET la == RMul(e.q[2], al)
             w == IF Len(e.v) = 0 THEN u ELSE VAdd(u, VScale(la, e.v[1]))
         IN VScale(RInv(RAdd(RInt(1), la)), w)
    [] e.k = "L2RegH"   -> \* L2Reg(lam, z, proxh = child): proxh(al/(1+lam al), (u + lam al z)/(1 + lam al))
         LET la == RMul(e.q[1], al)
             w == IF Len(e.v) = 0 THEN u ELSE VAdd(u, VScale(la, e.v[1]))
             d == RAdd(RInt(1), la)
         IN ProxModel(e.s[1], RDiv(al, d), VScale(RInv(d), w))
    [] e.k = "L2Proj"   -> LET b == e.v[1] IN VAdd(L2ProjModel(e.q[2], VSub(u, b)), b)
    [] e.k = "L2ProjG"  -> LET g == e.q[3][1]  m == Len(u) \div g  b == e.v[1] IN
         CatTo(TLCEval([j \in 1..g |-> VAdd(L2ProjModel(e.q[2], VSub(Chunk(u, j, m), Chunk(b, j, m))), Chunk(b, j, m))]), g)
    [] e.k = "LInfProj" -> LET b == e.v[1]  w == VSub(u, b) IN VAdd(VSub(w, SoftV(e.q[2], w)), b)
    [] e.k = "L1Proj"   -> L1ProjModel(e.q[2], u)
    [] e.k = "Box"      -> TLCEval([i \in 1..Len(u) |-> <<ClipR(e.q[2], e.q[3], u[i][1]), RInt(0)>>])
    [] e.k = "Conj"     -> \* Moreau: u - al * prox_{g, 1/al}(u / al)
         VSub(u, VScale(al, ProxModel(e.s[1], RInv(al), VScale(RInv(al), u))))
    [] e.k = "Stack"    -> CatTo(TLCEval([i \in 1..Len(e.s) |-> ProxModel(e.s[i], al, Part(e, u, i))]), Len(e.s))
    [] e.k = "Unitary"  -> MatVec(ConjTQ(e.m[1]), ProxModel(e.s[1], al, MatVec(e.m[1], u)))
ProxModel(e, al, u) == ProxModelB(e, al, u)

\* ---------------------------------------------------------------- MEANING: optimality conditions
\* d = t * x with t real >= 0 ; returns t or Bad.  (complex division, no square roots)
RealNonNegRatio(d, x) ==
  LET c == CDivQ(d, x) IN IF c[2] = RInt(0) /\ RLe(RInt(0), c[1]) THEN c[1] ELSE Bad
\* y_i - x_i \in t * subdifferential |.|(x_i)
L1Comp(t, yi, xi) ==
  IF xi = C0 THEN RLe(CAbs2Q(yi), RSq(t))
  ELSE LET c == RealNonNegRatio(CSubQ(yi, xi), xi) IN c # Bad /\ RMul(RSq(c), CAbs2Q(xi)) = RSq(t)
\* x is the point of the closed ball {|x - b| <= eps} nearest to v (componentwise discs or whole vector)
NearestInBall(epsSq, vdist2, xdist2, ratioOK) ==
  /\ RLe(xdist2, epsSq)
  /\ ratioOK
BallVec(eps, b, v, x) ==   \* whole-vector l2 ball around b
  LET xb == VSub(x, b)  d == VSub(v, x) IN
  /\ RLe(Norm2Sq(xb), RSq(eps))
  /\ \/ d = TLCEval([i \in 1..Len(v) |-> C0])
     \/ /\ Norm2Sq(xb) = RSq(eps)
        /\ \E i \in 1..Len(v) : xb[i] # C0
        /\ LET i0 == CHOOSE i \in 1..Len(v) : xb[i] # C0
               t == RealNonNegRatio(d[i0], xb[i0])
           IN t # Bad /\ \A i \in 1..Len(v) : d[i] = CScale(t, xb[i])
     \/ (eps = RInt(0) /\ x = b)

RECURSIVE IsMinimiser(_, _, _, _)
IsMinimiserB(e, al, v, x) ==
  CASE e.k = "L1Reg"    -> \A i \in 1..Len(v) : L1Comp(RMul(e.q[2], al), v[i], x[i])
    [] e.k = "L2Reg"    -> \* v - x = al*lam*(x - z)
         LET z == IF Len(e.v) = 0 THEN TLCEval([i \in 1..Len(v) |-> C0]) ELSE e.v[1] IN
         VSub(v, x) = VScale(RMul(al, e.q[2]), VSub(x, z))
    [] e.k = "L2RegH"   ->
         LET la == RMul(e.q[1], al)  d == RAdd(RInt(1), la)
             w == IF Len(e.v) = 0 THEN v ELSE VAdd(v, VScale(la, e.v[1])) IN
         IsMinimiser(e.s[1], RDiv(al, d), VScale(RInv(d), w), x)
    [] e.k = "L2Proj"   -> BallVec(e.q[2], e.v[1], v, x)
    [] e.k = "L2ProjG"  -> LET g == e.q[3][1]  m == Len(v) \div g IN      \* the indicator is separable over the groups
         \A j \in 1..g : BallVec(e.q[2], Chunk(e.v[1], j, m), Chunk(v, j, m), Chunk(x, j, m))
    [] e.k = "LInfProj" -> \A i \in 1..Len(v) : BallVec(e.q[2], <<e.v[1][i]>>, <<v[i]>>, <<x[i]>>)
    [] e.k = "L1Proj"   ->
         LET ax == AbsV(x)
             l1 == RSumTo(ax, Len(x)) IN
         /\ \A i \in 1..Len(x) : ax[i] # Bad
         /\ RLe(l1, e.q[2])                                   \* feasible
         /\ \/ x = v                                          \* nothing to do
            \/ /\ l1 = e.q[2]                                 \* on the boundary, with one common threshold theta
               /\ \E i \in 1..Len(v) : x[i] # C0 /\
                     LET c == RealNonNegRatio(CSubQ(v[i], x[i]), x[i])
                         thetaSq == RMul(RSq(c), CAbs2Q(x[i]))
                     IN c # Bad /\ \A j \in 1..Len(v) :
                           IF x[j] = C0 THEN RLe(CAbs2Q(v[j]), thetaSq)
                           ELSE LET cj == RealNonNegRatio(CSubQ(v[j], x[j]), x[j]) IN
                                cj # Bad /\ RMul(RSq(cj), CAbs2Q(x[j])) = thetaSq
    [] e.k = "Box"      -> \A i \in 1..Len(v) :
         /\ x[i][2] = RInt(0) /\ RLe(e.q[2], x[i][1]) /\ RLe(x[i][1], e.q[3])
         /\ \/ x[i][1] = v[i][1]
            \/ (x[i][1] = e.q[3] /\ RLt(e.q[3], v[i][1]))
            \/ (x[i][1] = e.q[2] /\ RLt(v[i][1], e.q[2]))
    [] e.k = "Conj"     -> IsMinimiser(e.s[1], RInv(al), VScale(RInv(al), v), VScale(RInv(al), VSub(v, x)))
    [] e.k = "Stack"    -> \A i \in 1..Len(e.s) : IsMinimiser(e.s[i], al, Part(e, v, i), Part(e, x, i))
    [] e.k = "Unitary"  -> IsMinimiser(e.s[1], al, MatVec(e.m[1], v), MatVec(e.m[1], x))
IsMinimiser(e, al, v, x) == IsMinimiserB(e, al, v, x)

\* ---------------------------------------------------------------- actions
NoVec == <<>>
Init == cur \in Bases /\ wraps = 0 /\ alpha = RInt(1) /\ y = NoVec /\ out = NoVec /\ phase = "build"

WrapConj ==
  /\ phase = "build" /\ wraps < MaxWraps /\ cur.k # "Conj"
  /\ cur' = Mk("Conj", <<>>, <<>>, <<>>, <<cur>>) /\ wraps' = wraps + 1
  /\ UNCHANGED <<alpha, y, out, phase>>
WrapL2Reg ==
  /\ phase = "build" /\ wraps < MaxWraps
  /\ \E lam \in Lams, withz \in BOOLEAN :
        LET n == Size(cur)
            z == TLCEval([i \in 1..n |-> <<R(i, 2), RInt(0)>>])
        IN cur' = Mk("L2RegH", <<lam>>, IF withz THEN <<z>> ELSE <<>>, <<>>, <<cur>>)
  /\ wraps' = wraps + 1 /\ UNCHANGED <<alpha, y, out, phase>>
WrapStack ==
  /\ phase = "build" /\ wraps < MaxWraps
  /\ \/ \E b \in StackBases : cur' = Mk("Stack", <<>>, <<>>, <<>>, <<cur, b>>)
     \/ \E b1, b2 \in StackBases : Size(cur) + Size(b1) + Size(b2) <= MaxStackSize /\ cur' = Mk("Stack", <<>>, <<>>, <<>>, <<b1, cur, b2>>)   \* three members, cur in the middle
  /\ wraps' = wraps + 1 /\ UNCHANGED <<alpha, y, out, phase>>
WrapUnitary ==
  /\ phase = "build" /\ wraps < MaxWraps
  /\ ~HasGroups(cur)                         \* (the replay has no array shape that serves both MatMul and the groups)
  /\ \E U \in Unitaries : Len(U) = Size(cur) /\ (HasBox(cur) => IsRealMat(U)) /\ cur' = Mk("Unitary", <<>>, <<>>, <<U>>, <<cur>>)
  /\ wraps' = wraps + 1 /\ UNCHANGED <<alpha, y, out, phase>>
\* P(alpha, y): enabled when the model is exact on this point (every modulus it needs is rational)
Eval ==
  /\ phase = "build"
  /\ \E al \in Alphas, p \in Points :
       /\ Len(p) = Size(cur)
       /\ (HasBox(cur) => IsReal(p))              \* the box constraint is defined for real arrays
       /\ LET x == ProxModel(cur, al, p) IN
          /\ ExactV(x)
          /\ alpha' = al /\ y' = p /\ out' = x
  /\ phase' = "done" /\ UNCHANGED <<cur, wraps>>
Next == WrapConj \/ WrapL2Reg \/ WrapStack \/ WrapUnitary \/ Eval
Spec == Init /\ [][Next]_vars

\* ---------------------------------------------------------------- properties
Evaluated == phase = "done"
ModelIsMinimiser == Evaluated => IsMinimiser(cur, alpha, y, out)
ShapeKept == Evaluated => Len(out) = Len(y)
IsProjection(e) == e.k \in {"L2Proj", "L2ProjG", "LInfProj", "L1Proj", "Box"}
\* projections: idempotent; a point that is its own minimiser is returned unchanged
Idempotent == (Evaluated /\ IsProjection(cur)) =>
                 LET again == ProxModel(cur, alpha, out) IN ExactV(again) => again = out
\* one group is the plain ball; groups do not see each other: changing the input outside a group leaves the group's result alone
GroupsAreIndependent == (Evaluated /\ cur.k = "L2ProjG") =>
   LET g == cur.q[3][1]  m == Len(y) \div g IN
   \A j \in 1..g : Chunk(out, j, m) = ProxModel(Mk("L2Proj", <<RInt(m), cur.q[2]>>, <<Chunk(cur.v[1], j, m)>>, <<>>, <<>>), alpha, Chunk(y, j, m))
FeasibleIsFixed == (Evaluated /\ IsProjection(cur) /\ IsMinimiser(cur, alpha, y, y)) => out = y
=========================================================================
