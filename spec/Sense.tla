------------------------------- MODULE Sense -------------------------------
(* sigpy.mri.linop.Sense (sigpy/mri/linop.py:12-126) - property C16.          *)
(* MEANING: for coil c, y_c = sqrt(w) * F( S_c .* x ) with F the centred      *)
(* orthonormal DFT over the image axes (Fourier.tla) or the non-uniform DFT   *)
(* (Nufft.tla).  MECHANISM modelled here: the factory's coil batching - when  *)
(* coil_batch_size < num_coils the operator is the Vstack (axis 0) of         *)
(* per-batch operators over consecutive coil ranges, the last one short when  *)
(* the size does not divide.  The explicit encoding matrix is assembled by    *)
(* the harness from the per-coil plan in this state and compared with the     *)
(* dense matrix of the real factory (and of every batching of it).            *)
EXTENDS Integers, Sequences, FiniteSets, TLC

CONSTANTS MaxCoils, Kinds

VARIABLES cfg, batches
vars == <<cfg, batches>>

CeilDiv(a, b) == (a + b - 1) \div b
\* coil ranges [lo, hi) of the per-batch operators, as Sense() slices mps[c*b : (c+1)*b]
BatchPlan(nc, b) ==
  IF b = 0 \/ b >= nc THEN <<<<0, nc>>>>
  ELSE [c \in 1..CeilDiv(nc, b) |-> <<(c - 1) * b, IF c * b < nc THEN c * b ELSE nc>>]

Init == \E nc \in 1..MaxCoils, k \in Kinds, w \in BOOLEAN : \E b \in 0..nc :
          cfg = [ncoils |-> nc, batch |-> b, kind |-> k, weighted |-> w] /\ batches = BatchPlan(nc, b)
Next == UNCHANGED vars
Spec == Init /\ [][Next]_vars

\* the batches are consecutive, non-empty, cover every coil exactly once, and only the last may be short
BatchPartition ==
  /\ batches[1][1] = 0 /\ batches[Len(batches)][2] = cfg.ncoils
  /\ \A i \in 1..Len(batches) : batches[i][1] < batches[i][2]
  /\ \A i \in 1..(Len(batches) - 1) : batches[i][2] = batches[i + 1][1]
  /\ (cfg.batch # 0 /\ cfg.batch < cfg.ncoils) =>
        \A i \in 1..(Len(batches) - 1) : batches[i][2] - batches[i][1] = cfg.batch
SingleWhenLarge == (cfg.batch = 0 \/ cfg.batch >= cfg.ncoils) => Len(batches) = 1
============================================================================
