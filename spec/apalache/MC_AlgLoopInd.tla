--------------------------- MODULE MC_AlgLoopInd ---------------------------
(* Unbounded safety of the iteration protocol (AlgLoop.tla) with Apalache:  *)
(* IndInvS is an inductive invariant for EVERY budget max_iter in Nat and   *)
(* every number of hand-driven extra updates, and implies the invariants    *)
(* TLC checks for max_iter <= 4.                                            *)
(*   apalache-mc check --init=IndInit --inv=IndInvS --length=1 MC_AlgLoopInd.tla   (induction step) *)
(*   apalache-mc check --init=Init    --inv=IndInvS --length=0 MC_AlgLoopInd.tla   (base case)      *)
EXTENDS Integers

VARIABLES
  \* @type: Int;
  max_iter,
  \* @type: Int;
  iter,
  \* @type: Str;
  upd,
  \* @type: Bool;
  early,
  \* @type: Str;
  lastdone,
  \* @type: Str;
  run,
  \* @type: Int;
  iter0,
  \* @type: Int;
  runupd

INSTANCE AlgLoop WITH MaxIters <- Nat, ExtraUpdates <- 1000000

\* strengthening: inside App.run an update is only ever in flight below the budget
IndInvS ==
  /\ IndInv
  /\ early \in BOOLEAN
  /\ (run = "running" /\ upd = "running") => iter < max_iter
  /\ (upd = "running") => lastdone = "unknown"       \* done() is not answered while an update is in flight
  /\ (run = "none") => (runupd = 0 /\ iter0 = 0)
  /\ (run # "none") => iter0 <= iter
IndInit == IndInvS
=============================================================================
