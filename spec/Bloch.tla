------------------------------- MODULE Bloch -------------------------------
(* Hard-pulse Bloch simulation in Cayley-Klein (spinor) parameters:            *)
(* sigpy.mri.rf.sim.abrm_hp and sigpy.mri.rf.optcont.blochsim - property C19.  *)
(* Exact arithmetic over Q(i): every RF sample is a rotation whose half-angle  *)
(* cosine / sine and phase factor are rational (Pythagorean), every gradient   *)
(* step a phase z = w^2 with w a rational point of the unit circle, so that    *)
(* the final half-phase exp(+i/2 * total) = conj(prod w) is rational too.      *)
(* MECHANISM (transcribed order of operations):                                *)
(*   abrm_hp : per sample  b := b*z ; then RF (a, b) := (aC - b conj S, aS + bC)*)
(*   blochsim: per sample  RF first ; then b := b*z                            *)
(*   both    : finally (a, b) := (a, b) * exp(+i/2 * accumulated phase)        *)
(* with C = cos(theta/2), S = i e^{i psi} sin(theta/2).                        *)
(* Properties: |a|^2+|b|^2 = 1 on every prefix, zero pulse gives (1, 0) up to  *)
(* the gradient phase, and simulating two waveforms back to back equals the    *)
(* SU(2) product of the two results.                                           *)
EXTENDS CRat, Sequences, TLC

CONSTANTS Rots,    \* set of RF samples: <<C (rational), sinhalf (rational), e^{i psi} (complex rational)>>
          Phases,  \* set of w (complex rationals of modulus 1); the gradient phase of a step is z = w*w = e^{-i phi}
          MaxLen, Sims

VARIABLES sim, wave, a, b, acc, split, a1, b1
vars == <<sim, wave, a, b, acc, split, a1, b1>>
\* wave: the samples consumed so far; (a, b): running state before the final phase; acc: product of the w's;
\* split: position where a second waveform starts (0 = none); (a1, b1): finished result of the first waveform

SOf(r) == CMulQ(CI, CScale(r[2], r[3]))          \* S = i e^{i psi} sin(theta/2)
RfStep(aa, bb, r) ==
  LET C == <<r[1], RInt(0)>>  S == SOf(r) IN
  <<CSubQ(CMulQ(aa, C), CMulQ(bb, CConjQ(S))), CAddQ(CMulQ(aa, S), CMulQ(bb, C))>>
Step(s, aa, bb, r, w) ==
  LET z == CMulQ(w, w) IN
  IF s = "abrm_hp" THEN RfStep(aa, CMulQ(bb, z), r)
  ELSE LET ab == RfStep(aa, bb, r) IN <<ab[1], CMulQ(ab[2], z)>>
\* final phase exp(+i/2 * sum phi) = conj(prod w)
Finish(aa, bb, ac) == <<CMulQ(aa, CConjQ(ac)), CMulQ(bb, CConjQ(ac))>>

Init == sim \in Sims /\ wave = <<>> /\ a = C1 /\ b = C0 /\ acc = C1 /\ split = 0 /\ a1 = C1 /\ b1 = C0
Sample ==
  /\ Len(wave) < MaxLen
  /\ \E r \in Rots, w \in Phases :
       LET ab == Step(sim, a, b, r, w) IN
       /\ wave' = Append(wave, <<r, w>>) /\ a' = ab[1] /\ b' = ab[2] /\ acc' = CMulQ(acc, w)
  /\ UNCHANGED <<sim, split, a1, b1>>
\* finish the first waveform here and start a second one (for the composition law)
Split ==
  /\ split = 0 /\ Len(wave) >= 1 /\ Len(wave) < MaxLen
  /\ split' = Len(wave)
  /\ a1' = Finish(a, b, acc)[1] /\ b1' = Finish(a, b, acc)[2]
  /\ UNCHANGED <<sim, wave, a, b, acc>>
Next == Sample \/ Split
Spec == Init /\ [][Next]_vars

Result == Finish(a, b, acc)
\* re-simulate the second waveform alone (from the identity)
RECURSIVE RunFrom(_, _, _, _, _)
RunFromB(s, k, aa, bb, ac) ==
  IF k > Len(wave) THEN <<aa, bb, ac>>
  ELSE LET ab == Step(s, aa, bb, wave[k][1], wave[k][2]) IN RunFrom(s, k + 1, ab[1], ab[2], CMulQ(ac, wave[k][2]))
RunFrom(s, k, aa, bb, ac) == RunFromB(s, k, aa, bb, ac)
Second == LET t == RunFrom(sim, split + 1, C1, C0, C1) IN Finish(t[1], t[2], t[3])

\* ------------------------------------------------------------------ properties
Unitary == RAdd(CAbs2Q(a), CAbs2Q(b)) = RInt(1) /\ RAdd(CAbs2Q(Result[1]), CAbs2Q(Result[2])) = RInt(1)
ZeroPulse == (\A k \in 1..Len(wave) : wave[k][1][2] = RInt(0)) => (b = C0 /\ Result[2] = C0 /\ CAbs2Q(Result[1]) = RInt(1))
\* spinor composition: Q(w1 o w2) = Q(w2) Q(w1) with Q = [[a, -conj b], [b, conj a]]
Composition ==
  split > 0 =>
     LET r2 == Second IN
     /\ Result[1] = CSubQ(CMulQ(r2[1], a1), CMulQ(CConjQ(r2[2]), b1))
     /\ Result[2] = CAddQ(CMulQ(r2[2], a1), CMulQ(CConjQ(r2[1]), b1))
============================================================================
