------------------------------ MODULE Rat ------------------------------
(* Exact rational arithmetic.  A rational is <<n, d>> with d > 0 and     *)
(* gcd(|n|, d) = 1.  Products cross-cancel before multiplying so that    *)
(* TLC's 32-bit integers (overflow is an error, never a wrap) hold.      *)
EXTENDS Integers, TLC

Abs(x) == IF x < 0 THEN 0 - x ELSE x
RECURSIVE Gcd(_, _)
GcdB(a, b) == IF b = 0 THEN a ELSE Gcd(b, a % b)
Gcd(a, b) == GcdB(a, b)   \* (body operator: TLC does not cache arguments of RECURSIVE operators)

\* <<0, 0>> (denominator 0) is the absorbing NOT-A-RATIONAL value: it is produced by a
\* division by zero or by an irrational square root and survives every operation.
NaR == <<0, 0>>
RNorm(n, d) ==
  IF d = 0 THEN NaR ELSE
  LET s == IF d < 0 THEN 0 - 1 ELSE 1
      g == Gcd(Abs(n), Abs(d))
  IN IF n = 0 THEN <<0, 1>> ELSE <<(s * n) \div g, (s * d) \div g>>
R(n, d) == RNorm(n, d)
RInt(k) == <<k, 1>>
RNeg(q) == <<0 - q[1], q[2]>>
RMul(p, q) ==
  IF p[2] = 0 \/ q[2] = 0 THEN NaR ELSE
  LET g1 == Gcd(Abs(p[1]), q[2])  g2 == Gcd(Abs(q[1]), p[2])
      a == p[1] \div (IF g1 = 0 THEN 1 ELSE g1)  d == q[2] \div (IF g1 = 0 THEN 1 ELSE g1)
      c == q[1] \div (IF g2 = 0 THEN 1 ELSE g2)  b == p[2] \div (IF g2 = 0 THEN 1 ELSE g2)
  IN RNorm(a * c, b * d)
RInv(q) == IF q[2] = 0 THEN NaR ELSE RNorm(q[2], q[1])
RDiv(p, q) == RMul(p, RInv(q))
RAdd(p, q) ==
  IF p[2] = 0 \/ q[2] = 0 THEN NaR ELSE
  LET g == Gcd(p[2], q[2])
      pd == p[2] \div g  qd == q[2] \div g
  IN RNorm(p[1] * qd + q[1] * pd, pd * q[2])
RSub(p, q) == RAdd(p, RNeg(q))
\* comparisons through the gcd-aware difference (smaller intermediates than cross-multiplication)
RLe(p, q) == RAdd(q, RNeg(p))[1] >= 0
RLt(p, q) == RAdd(q, RNeg(p))[1] > 0
REq(p, q) == p = q
RMax(p, q) == IF RLe(p, q) THEN q ELSE p
RMin(p, q) == IF RLe(p, q) THEN p ELSE q
RAbs(q) == <<Abs(q[1]), q[2]>>
RSq(q) == RMul(q, q)
RIsInt(q) == q[2] = 1
RFloor(q) == q[1] \div q[2]                      \* TLA+ \div floors
RCeil(q) == 0 - ((0 - q[1]) \div q[2])
\* least / greatest integer r >= 0 with r^2 >= q resp. r^2 <= q (q >= 0), by search up to a bound
CeilSqrt(q, bound) == CHOOSE r \in 0..bound : r * r * q[2] >= q[1] /\ (r = 0 \/ (r - 1) * (r - 1) * q[2] < q[1])
FloorSqrt(q, bound) == CHOOSE r \in 0..bound : r * r * q[2] <= q[1] /\ (r + 1) * (r + 1) * q[2] > q[1]
IsSquare(q, bound) == \E r \in 0..bound : r * r * q[2] = q[1]
=========================================================================
