--------------------------- MODULE EspiritTrace ---------------------------
(* Trace validation of sigpy.mri.app.EspiritCalib runs (property C17).  The   *)
(* App is a PowerMethod with a per-voxel normalisation followed by the phase  *)
(* reference and the eigenvalue crop of _output.  The harness steps the real  *)
(* App and logs, per power iteration (unit 1e-9, capped at 2e9):              *)
(*   ndev   max over voxels of | ||m|| - 1 |  after normalisation             *)
(*   edec   largest decrease of a voxel's eigenvalue estimate since the       *)
(*          previous iteration (0 if none), emax its maximum                  *)
(* and for the output: counts of voxels that are neither unit-norm nor zero,  *)
(* of zero voxels with eigenvalue above crop and non-zero voxels at or below, *)
(* max |Im m_0|, max(-Re m_0, 0), eigenvalue range, and (synthetic data) the   *)
(* interior magnitude error against the true rss-normalised maps.             *)
EXTENDS Integers, Sequences, TLC, Json, IOUtils

CONSTANTS NormTol, EigSlack, PhaseTol

Traces == JsonDeserialize(IOEnv.TRACE_FILE)
VARIABLES tid, l, iter
tvars == <<tid, l, iter>>
Ev == Traces[tid].ev[l]
T == Traces[tid]
More == l <= Len(T.ev)
MaxOf(a, b) == IF a >= b THEN a ELSE b
One == 1000000000

TInit == tid \in 1..Len(Traces) /\ l = 1 /\ iter = 0 /\ TLCSet(tid, 1)
TIter ==
  /\ More /\ Ev.e = "it"
  /\ Ev.iter = iter + 1 /\ Ev.iter <= T.max_iter          \* AlgLoop protocol: one per update, within the budget
  /\ Ev.ndev <= NormTol                                   \* every voxel vector is normalised
  \* the first estimate is made on the un-normalised start vector; from the second on (normalised vector):
  /\ (Ev.iter >= 3 => Ev.edec <= EigSlack)                \* per-voxel eigenvalue estimate never decreases
  /\ (Ev.iter >= 2 => Ev.emax <= One + EigSlack)          \* ... and never exceeds 1 (largest eigenvalue of the projector)
  /\ iter' = Ev.iter /\ l' = l + 1 /\ tid' = tid
TOut ==
  /\ More /\ Ev.e = "out"
  /\ iter = T.max_iter                                    \* run() used the whole budget (no tolerance in this App)
  /\ Ev.neither = 0                                       \* unit norm or exactly zero
  /\ Ev.zero_above_crop = 0 /\ Ev.nonzero_below_crop = 0  \* zero exactly where the eigenvalue does not exceed crop
  /\ Ev.im0 <= PhaseTol /\ Ev.negre0 <= PhaseTol          \* first coil real and non-negative
  /\ Ev.emin_neg = 0 /\ Ev.emax <= One + EigSlack         \* eigenvalues between 0 and 1
  /\ (T.synthetic = 1 => Ev.interior_err <= T.recover_tol)  \* magnitudes recover the true maps in the interior (bound per parameter family, DESIGN.md C17)
  /\ (T.synthetic = 1 => Ev.misaligned = 0)                 \* ... and fit them better than the true maps displaced by one voxel along any axis
  /\ l' = l + 1 /\ UNCHANGED <<tid, iter>>
TNext == TIter \/ TOut
TraceSpec == TInit /\ [][TNext]_tvars
HighWater == TLCSet(tid, MaxOf(TLCGet(tid), l))
Report == \A t \in 1..Len(Traces) : TLCGet(t) = Len(Traces[t].ev) + 1 \/ PrintT(<<"REJECT", Traces[t].id, TLCGet(t)>>)
===========================================================================
