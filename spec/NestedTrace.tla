---------------------------- MODULE NestedTrace ----------------------------
(* Trace validation for NestedRuns.tla: the WHOLE interleaved event stream   *)
(* of one driver job / one repository test (all objects, in the order of the *)
(* per-process sequence numbers of the hooks) must be a behaviour of the     *)
(* nesting specification.  Every logged field is bound: object (renumbered   *)
(* 1..K per trace), iter, max_iter, the answer of done().  The only silent   *)
(* step is Unwind (an exception leaves frames without end events); a trace   *)
(* may use it at most Traces[tid].max_unwind times (0 when the driver saw no *)
(* exception).                                                               *)
EXTENDS NestedRuns, Json, IOUtils

Traces == JsonDeserialize(IOEnv.TRACE_FILE)

VARIABLES tid, l, unw
tvars == <<vars, tid, l, unw>>

Ev == Traces[tid].ev[l]
More == l <= Len(Traces[tid].ev)
Consume == l' = l + 1 /\ tid' = tid /\ unw' = unw
MaxOf(a, b) == IF a >= b THEN a ELSE b

\* iter / max_iter of every object at its first appearance in the trace (plain data extraction by the recorder);
\* objects 1..K of this trace, the remaining indices are padding
TInit ==
  /\ tid \in 1..Len(Traces)
  /\ l = 1 /\ unw = 0
  /\ stack = <<>>
  /\ iter = [o \in Objs |-> IF o <= Len(Traces[tid].iter0) THEN Traces[tid].iter0[o] ELSE 0]
  /\ budget = [o \in Objs |-> IF o <= Len(Traces[tid].budget0) THEN Traces[tid].budget0[o] ELSE 0]
  /\ asked = [o \in Objs |-> "none"]
  /\ TLCSet(tid, 1)

Bound == Ev.iter = iter[Ev.o] /\ Ev.max_iter = budget[Ev.o]      \* the logged counter / budget are the model's
TDone     == More /\ Ev.e = "done" /\ Bound /\ Done(Ev.o, Ev.done) /\ Consume
TRunBegin == More /\ Ev.e = "rb" /\ RunBegin(Ev.o) /\ Consume
TRunEnd   == More /\ Ev.e = "re" /\ Bound /\ RunEnd(Ev.o) /\ Consume
TUpdBegin == More /\ Ev.e = "ub" /\ Bound /\ UpdBegin(Ev.o) /\ Consume
TUpdEnd   == More /\ Ev.e = "ue" /\ Ev.max_iter = budget[Ev.o] /\ UpdEnd(Ev.o) /\ iter'[Ev.o] = Ev.iter /\ Consume
TUnwind   == More /\ unw < Traces[tid].max_unwind /\ Unwind /\ unw' = unw + 1 /\ UNCHANGED <<tid, l>>

TNext == TDone \/ TRunBegin \/ TRunEnd \/ TUpdBegin \/ TUpdEnd \/ TUnwind
TraceSpec == TInit /\ [][TNext]_tvars

HighWater == TLCSet(tid, MaxOf(TLCGet(tid), l))
TraceInv == NoReentrancy /\ RunWithinBudget
Report ==
  \A t \in 1..Len(Traces) :
     \/ TLCGet(t) = Len(Traces[t].ev) + 1
     \/ PrintT(<<"REJECT", Traces[t].id, TLCGet(t)>>)
=============================================================================
