---------------------------- MODULE Shape ----------------------------
(* Shape calculus shared by all array-valued specifications.             *)
(* Arrays are modelled in row-major (C) order, the order numpy uses:    *)
(* the flat position of multi-index idx in shape s is                   *)
(*   (...((idx[1]*s[2] + idx[2])*s[3] + idx[3])...)                      *)
(* Multi-indices are 0-based (as in the Python API); flat LABELS used   *)
(* by specs are 1-based so that they can index TLA+ sequences.          *)
EXTENDS Integers, Sequences, FiniteSets, TLC

RECURSIVE Prod(_)
ProdB(s) == IF Len(s) = 0 THEN 1 ELSE Head(s) * Prod(Tail(s))

Prod(s) == ProdB(s)   \* TLC does not cache arguments of RECURSIVE operators; the body operator does
RECURSIVE SumSeq(_)
SumSeqB(s) == IF Len(s) = 0 THEN 0 ELSE Head(s) + SumSeq(Tail(s))

SumSeq(s) == SumSeqB(s)   \* TLC does not cache arguments of RECURSIVE operators; the body operator does
Min2(a, b) == IF a <= b THEN a ELSE b
Max2(a, b) == IF a >= b THEN a ELSE b

\* floor division and modulus with Python semantics for positive divisors
FloorDiv(a, b) == a \div b     \* TLA+ \div is floor division for b > 0
PyMod(a, b) == a % b           \* TLA+ % is non-negative for b > 0

RECURSIVE FlatOf(_, _)
FlatOfB(idx, s) ==
  IF Len(s) = 0 THEN 0
  ELSE FlatOf(SubSeq(idx, 1, Len(s) - 1), SubSeq(s, 1, Len(s) - 1)) * s[Len(s)] + idx[Len(s)]

FlatOf(idx, s) == FlatOfB(idx, s)   \* TLC does not cache arguments of RECURSIVE operators; the body operator does
MultiOf(p, s) ==
  TLCEval([d \in 1..Len(s) |-> (p \div Prod(SubSeq(s, d + 1, Len(s)))) % s[d]])

\* all multi-indices of a shape, as a set
Indices(s) == {MultiOf(p, s) : p \in 0..(Prod(s) - 1)}

\* numpy axis normalisation: an axis a in -r..r-1 names dimension a mod r (0-based)
NormAxis(a, r) == a % r
ValidAxis(a, r) == a >= -r /\ a < r

\* numpy broadcasting of two shapes after left-padding with ones
PadLeft(s, r) == TLCEval([d \in 1..r |-> IF d <= r - Len(s) THEN 1 ELSE s[d - (r - Len(s))]])
Broadcastable(s, t) ==
  LET r == Max2(Len(s), Len(t)) IN
  \A d \in 1..r : LET a == PadLeft(s, r)[d]  b == PadLeft(t, r)[d] IN a = b \/ a = 1 \/ b = 1
BroadcastShape(s, t) ==
  LET r == Max2(Len(s), Len(t)) IN
  TLCEval([d \in 1..r |-> Max2(PadLeft(s, r)[d], PadLeft(t, r)[d])])

\* concatenation of sequences of sequences
RECURSIVE Concat(_)
ConcatB(ss) == IF Len(ss) = 0 THEN <<>> ELSE Head(ss) \o Concat(Tail(ss))

Concat(ss) == ConcatB(ss)   \* TLC does not cache arguments of RECURSIVE operators; the body operator does
Range(f) == {f[x] : x \in DOMAIN f}
=======================================================================
