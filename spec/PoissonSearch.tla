--------------------------- MODULE PoissonSearch ---------------------------
(* The slope bisection of sigpy.mri.samp.poisson (sigpy/mri/samp.py:64-93)   *)
(* - property C18: "acceleration within tol of the request OR ELSE raises".  *)
(*                                                                           *)
(* Floating-point slopes are abstracted to the finite lattice 0..N; the      *)
(* midpoint of two lattice points is exact when it exists and otherwise      *)
(* rounds to EITHER neighbour (as IEEE arithmetic does for adjacent floats). *)
(* The sampler is random, so the acceleration obtained for a slope is an     *)
(* ARBITRARY function of the slope, fixed per behaviour in Init (cls):       *)
(*   "lo"  actual < accel - tol  (code moves slope_min up)                   *)
(*   "hi"  actual > accel + tol  (code moves slope_max down)                 *)
(*   "ok"  |actual - accel| < tol                                            *)
(* CollapseCheck = TRUE models the repaired loop (stop when the midpoint is  *)
(* no longer strictly inside the interval); FALSE is the pinned loop, kept   *)
(* as a negative control: TLC then finds the non-terminating lasso.          *)
EXTENDS Integers, TLC

CONSTANTS N, CollapseCheck

VARIABLES cls, lo, hi, slope, st
vars == <<cls, lo, hi, slope, st>>

Mids(a, b) == IF (a + b) % 2 = 0 THEN {(a + b) \div 2} ELSE {(a + b) \div 2, (a + b) \div 2 + 1}

Init ==
  /\ cls \in [0..N -> {"lo", "hi", "ok"}]
  /\ lo = 0 /\ hi = N /\ slope = 0 /\ st = "search"

\* one pass through the while body
Probe ==
  /\ st = "search" /\ lo < hi
  /\ \E m \in Mids(lo, hi) :
       /\ slope' = m
       /\ IF CollapseCheck /\ (m <= lo \/ m >= hi)
            THEN \* interval collapsed: fall through to the final test, which raises
                 /\ st' = "error" /\ UNCHANGED <<lo, hi>>
            ELSE CASE cls[m] = "ok" -> st' = "ok" /\ UNCHANGED <<lo, hi>>
                   [] cls[m] = "lo" -> lo' = m /\ UNCHANGED <<hi, st>>
                   [] cls[m] = "hi" -> hi' = m /\ UNCHANGED <<lo, st>>
  /\ UNCHANGED cls
\* loop condition false: the final test raises unless the last probe was within tolerance
Exit ==
  /\ st = "search" /\ lo >= hi
  /\ st' = "error" /\ UNCHANGED <<cls, lo, hi, slope>>

Next == Probe \/ Exit
Spec == Init /\ [][Next]_vars /\ WF_vars(Next)

TypeOK == lo \in 0..N /\ hi \in 0..N /\ slope \in 0..N /\ st \in {"search", "ok", "error"}
\* a mask is returned only if its acceleration is within tol
OkIsWithinTol == st = "ok" => cls[slope] = "ok"
IntervalShrinks == [][(hi' - lo' < hi - lo) \/ (hi' = hi /\ lo' = lo)]_<<lo, hi>>
\* the search always ends: mask or ValueError, never a hang
Terminates == <>(st # "search")
============================================================================
