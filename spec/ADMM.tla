------------------------------- MODULE ADMM -------------------------------
(* sigpy.alg.ADMM (sigpy/alg.py:516-560): the scaled-form alternating        *)
(* direction method of multipliers                                           *)
(*     x <- argmin_x L(x, z, u);  z <- argmin_z L(x, z, u);                  *)
(*     u <- u + A x + B z - c,                                               *)
(*     L(x, z, u) = f(x) + g(z) + rho/2 ||A x + B z - c + u||^2.             *)
(* The class itself only owns the ORDER of the three sub-steps, the dual     *)
(* update and the iteration counter; the two minimisers are closures of the  *)
(* caller.  The model therefore has ONE ACTION PER SUB-STEP (pc = "x", "z",  *)
(* "u"), so that a replay observes the state the closures see on entry.      *)
(*                                                                           *)
(* Instances (exact rationals, componentwise so every quantity is a closed   *)
(* form):  f(x) = sum q_i/2 (x_i - p_i)^2,  A = a I, B = b I,                *)
(* g in {0, lam |.|_1, lam/2 |.|^2, box[lo,hi]}.                             *)
(* DEFINITION LAYER, independent of the iteration: the minimiser (x^, z^) of *)
(* f(x) + g(z) subject to a x + b z = c and its scaled multiplier u^.        *)
EXTENDS Rat, Sequences, TLC

CONSTANTS Insts,      \* set of records [q, p, c : Seq(Rat), a, b, rho, lam, lo, hi : Rat, g : STRING, x0, z0, u0 : Seq(Rat), start : STRING]
          MaxIters

VARIABLES inst, max_iter, iter, pc, x, z, u
vars == <<inst, max_iter, iter, pc, x, z, u>>

N == Len(inst.q)
RECURSIVE RSum(_, _)
RSumB(f, n) == IF n = 0 THEN RInt(0) ELSE RAdd(f[n], RSum(f, n - 1))
RSum(f, n) == RSumB(f, n)

Soft(w, t) == IF RLt(t, w) THEN RSub(w, t) ELSE IF RLt(w, RNeg(t)) THEN RAdd(w, t) ELSE RInt(0)
Clip(w) == RMax(inst.lo, RMin(w, inst.hi))
\* prox of t*g at w
ProxG(t, w) ==
  CASE inst.g = "zero" -> w
    [] inst.g = "l1"   -> Soft(w, RMul(t, inst.lam))
    [] inst.g = "sq"   -> RDiv(w, RAdd(RInt(1), RMul(t, inst.lam)))
    [] inst.g = "box"  -> Clip(w)

\* ---------------------------------------------------------------- the three sub-steps (closed forms of the argmins)
StepX(zz, uu) == TLCEval([i \in 1..N |->
   RDiv(RSub(RMul(inst.q[i], inst.p[i]), RMul(RMul(inst.rho, inst.a), RAdd(RSub(RMul(inst.b, zz[i]), inst.c[i]), uu[i]))),
        RAdd(inst.q[i], RMul(inst.rho, RSq(inst.a))))])
StepZ(xx, uu) == TLCEval([i \in 1..N |->
   ProxG(RInv(RMul(inst.rho, RSq(inst.b))), RDiv(RSub(RSub(inst.c[i], RMul(inst.a, xx[i])), uu[i]), inst.b))])
StepU(xx, zz, uu) == TLCEval([i \in 1..N |-> RAdd(uu[i], RSub(RAdd(RMul(inst.a, xx[i]), RMul(inst.b, zz[i])), inst.c[i]))])

\* ---------------------------------------------------------------- definition layer
\* substitute x = (c - b z)/a:  phi(z) = (q b^2/a^2)/2 (z - (c - a p)/b)^2 + g(z)
ZStarI(i) == ProxG(RDiv(RSq(inst.a), RMul(inst.q[i], RSq(inst.b))), RDiv(RSub(inst.c[i], RMul(inst.a, inst.p[i])), inst.b))
XStarI(i) == RDiv(RSub(inst.c[i], RMul(inst.b, ZStarI(i))), inst.a)
UStarI(i) == RNeg(RDiv(RMul(inst.q[i], RSub(XStarI(i), inst.p[i])), RMul(inst.rho, inst.a)))   \* q (x* - p) + rho a u* = 0
XStar == TLCEval([i \in 1..N |-> XStarI(i)])
ZStar == TLCEval([i \in 1..N |-> ZStarI(i)])
UStar == TLCEval([i \in 1..N |-> UStarI(i)])
\* rho ||u - u*||^2 + rho b^2 ||z - z*||^2  (Boyd et al. 2011, section 3.3.1 / appendix A, scaled form)
\* (the instances are separable, so the function is non-increasing per component; checking it per component keeps the
\* exact rationals small)
VI(i, zz, uu) == RMul(inst.rho, RAdd(RSq(RSub(uu[i], UStarI(i))), RMul(RSq(inst.b), RSq(RSub(zz[i], ZStarI(i))))))
Resid(xx, zz) == TLCEval([i \in 1..N |-> RSub(RAdd(RMul(inst.a, xx[i]), RMul(inst.b, zz[i])), inst.c[i])])

\* ---------------------------------------------------------------- algorithm layer
Init ==
  /\ inst \in Insts /\ max_iter \in {m \in MaxIters : m <= inst.cap} /\ iter = 0 /\ pc = "x"
  /\ IF inst.start = "star"
       THEN x = TLCEval([i \in 1..Len(inst.q) |-> XStarI(i)]) /\ z = TLCEval([i \in 1..Len(inst.q) |-> ZStarI(i)]) /\ u = TLCEval([i \in 1..Len(inst.q) |-> UStarI(i)])
       ELSE x = inst.x0 /\ z = inst.z0 /\ u = inst.u0
Done == iter >= max_iter                        \* ADMM has no early stop
MinX == /\ pc = "x" /\ ~Done /\ x' = StepX(z, u) /\ pc' = "z" /\ UNCHANGED <<inst, max_iter, iter, z, u>>
MinZ == /\ pc = "z" /\ z' = StepZ(x, u) /\ pc' = "u" /\ UNCHANGED <<inst, max_iter, iter, x, u>>
Dual == /\ pc = "u" /\ u' = StepU(x, z, u) /\ iter' = iter + 1 /\ pc' = "x" /\ UNCHANGED <<inst, max_iter, x, z>>
Next == MinX \/ MinZ \/ Dual
Spec == Init /\ [][Next]_vars /\ WF_vars(Next)

\* ---------------------------------------------------------------- properties
FullStep == LET x1 == StepX(z, u)  z1 == StepZ(x1, u)  u1 == StepU(x1, z1, u) IN <<x1, z1, u1>>
\* a point the whole update leaves unchanged is feasible and optimal
FixedPointIsSolution == (pc = "x" /\ FullStep = <<x, z, u>>) => (x = XStar /\ z = ZStar /\ u = UStar)
\* ... and the solution (with its multiplier) is left unchanged
SolutionIsFixed == (pc = "x" /\ x = XStar /\ z = ZStar /\ u = UStar) => FullStep = <<x, z, u>>
\* the Lyapunov function of the convergence proof never increases over a whole update
LyapunovNonIncreasing == pc = "x" => \A i \in 1..N : RLe(VI(i, FullStep[2], FullStep[3]), VI(i, z, u))
\* the dual variable accumulates exactly the constraint residuals
DualIsResidualSum == [][pc = "u" => u' = TLCEval([i \in 1..N |-> RAdd(u[i], Resid(x, z)[i])])]_vars
CounterByOne == [][iter' = iter + 1 \/ iter' = iter]_vars
CounterOnlyOnDual == [][iter' # iter => pc = "u"]_vars
Terminates == <>(Done /\ pc = "x")
=========================================================================
