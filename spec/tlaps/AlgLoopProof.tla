--------------------------- MODULE AlgLoopProof ---------------------------
(* Machine-checked proof (TLAPS) that the strengthened invariant of the     *)
(* iteration protocol AlgLoop.tla is inductive for EVERY set of budgets     *)
(* MaxIters \subseteq Nat and every ExtraUpdates \in Nat, hence             *)
(*     Spec => [](CanonicalBudget /\ CounterIsUpdates /\ ExhaustedMeansDone) *)
(* without any bound.  The same invariant is discharged by Apalache         *)
(* (apalache/MC_AlgLoopInd.tla) and, for max_iter <= 4, by TLC.             *)
(*     tlapm -I .. AlgLoopProof.tla                                          *)
EXTENDS AlgLoop, TLAPS

ASSUME Assump == MaxIters \subseteq Nat /\ ExtraUpdates \in Nat

IndInvS ==
  /\ IndInv
  /\ early \in BOOLEAN
  /\ (run = "running" /\ upd = "running") => iter < max_iter
  /\ (upd = "running") => lastdone = "unknown"
  /\ (run = "none") => (runupd = 0 /\ iter0 = 0)
  /\ (run # "none") => iter0 <= iter

THEOREM InitInv == Init => IndInvS
  BY Assump DEF Init, IndInvS, IndInv, TypeOK, CanonicalBudget, CounterIsUpdates, ExhaustedMeansDone, Budget

THEOREM StepInv == IndInvS /\ [Next]_vars => IndInvS'
<1> SUFFICES ASSUME IndInvS, [Next]_vars PROVE IndInvS'
  OBVIOUS
<1> USE DEF IndInvS, IndInv, TypeOK, CanonicalBudget, CounterIsUpdates, ExhaustedMeansDone, Budget, DoneValue
<1>1. CASE UpdateBegin
  BY <1>1, Assump DEF UpdateBegin
<1>2. CASE UpdateEnd
  BY <1>2, Assump DEF UpdateEnd
<1>3. CASE UpdateAbort
  BY <1>3, Assump DEF UpdateAbort
<1>4. CASE \E v \in BOOLEAN : DoneQuery(v)
  BY <1>4, Assump DEF DoneQuery
<1>5. CASE RunBegin
  BY <1>5, Assump DEF RunBegin
<1>6. CASE RunEnd
  BY <1>6, Assump DEF RunEnd
<1>7. CASE UNCHANGED vars
  BY <1>7 DEF vars
<1> QED
  BY <1>1, <1>2, <1>3, <1>4, <1>5, <1>6, <1>7 DEF Next

THEOREM Safety == Spec => []IndInvS
<1>1. Init => IndInvS
  BY InitInv
<1>2. IndInvS /\ [Next]_vars => IndInvS'
  BY StepInv
<1> QED
  BY <1>1, <1>2, PTL DEF Spec

\* what the listed property uses
COROLLARY Spec => [](CanonicalBudget /\ CounterIsUpdates /\ ExhaustedMeansDone)
<1>1. IndInvS => (CanonicalBudget /\ CounterIsUpdates /\ ExhaustedMeansDone)
  BY DEF IndInvS, IndInv
<1> QED
  BY <1>1, Safety, PTL
=============================================================================
