------------------------------- MODULE LLS -------------------------------
(* sigpy.app.LinearLeastSquares._get_alg (sigpy/app.py:268-490) - C14.      *)
(* "returns a minimiser of 1/2||Ax-y||^2 + g(Gx) + lamda/2||x-z||^2 for     *)
(*  every supported combination of options; combinations a solver cannot    *)
(*  handle raise an error instead of returning the minimiser of a different  *)
(*  problem".                                                                *)
(*                                                                           *)
(* State: the option record the user passed, and the PROBLEM THE CHOSEN      *)
(* BRANCH REALLY HANDS TO ITS ALGORITHM, as a set of objective terms.        *)
(* Actions follow _get_alg step by step (Dispatch, Validate, Assemble*; the  *)
(* primal-dual branch has its two sub-steps: primal prox from lamda/z/proxg, *)
(* then the G branch that moves a prox under Conj onto Gx).                  *)
(* PinnedPDHG = TRUE reproduces the pinned commit (the G branch conjugated   *)
(* the WHOLE primal prox, so lamda/2||.-z||^2 landed on Gx): kept as a       *)
(* negative control - TLC must then violate AssembledIsDocumented.           *)
EXTENDS Naturals, FiniteSets, TLC

CONSTANTS Solvers, Lamdas, Zs, Proxgs, Gs, PinnedPDHG

VARIABLES opt, solver, phase, terms, primal
vars == <<opt, solver, phase, terms, primal>>

Data == [t |-> "data", on |-> "x", c |-> "y"]
L2(on, c) == [t |-> "l2", on |-> on, c |-> c]
Reg(on) == [t |-> "reg", on |-> on, c |-> "0"]

Init ==
  /\ opt \in [solver : Solvers, lamda : Lamdas, z : Zs, proxg : Proxgs, G : Gs]
  /\ solver = "unset" /\ phase = "dispatch" /\ terms = {} /\ primal = {}

\* solver is None: CG without proxg, GradientMethod with proxg and no G, else primal-dual
Dispatch ==
  /\ phase = "dispatch"
  /\ solver' = IF opt.solver # "None" THEN opt.solver
               ELSE IF opt.proxg = "None" THEN "ConjugateGradient"
               ELSE IF opt.G = "None" THEN "GradientMethod" ELSE "PrimalDualHybridGradient"
  /\ phase' = "validate" /\ UNCHANGED <<opt, terms, primal>>

Validate ==
  /\ phase = "validate"
  /\ phase' = IF \/ (solver = "ConjugateGradient" /\ opt.proxg # "None")
                 \/ (solver = "GradientMethod" /\ opt.G # "None")
                 \/ solver \notin {"ConjugateGradient", "GradientMethod", "PrimalDualHybridGradient", "ADMM"}
              THEN "rejected" ELSE "assemble"
  /\ UNCHANGED <<opt, solver, terms, primal>>

LamTerm(on) == IF opt.lamda = "pos" THEN {L2(on, IF opt.z = "given" THEN "z" ELSE "0")} ELSE {}

\* CG: (A^H A + lamda I) x = A^H y + lamda z ; G is not used (no g to apply it to)
AssembleCG ==
  /\ phase = "assemble" /\ solver = "ConjugateGradient"
  /\ terms' = {Data} \cup LamTerm("x") /\ phase' = "ready" /\ UNCHANGED <<opt, solver, primal>>
\* gradient of the smooth part + proxg on x
AssembleGM ==
  /\ phase = "assemble" /\ solver = "GradientMethod"
  /\ terms' = {Data} \cup LamTerm("x") \cup (IF opt.proxg # "None" THEN {Reg("x")} ELSE {})
  /\ phase' = "ready" /\ UNCHANGED <<opt, solver, primal>>
\* primal-dual, step 1: the primal prox (L2Reg(lamda, z, proxh = proxg) or proxg or NoOp)
AssemblePDHGPrimal ==
  /\ phase = "assemble" /\ solver = "PrimalDualHybridGradient"
  /\ primal' = LamTerm("x") \cup (IF opt.proxg # "None" THEN {Reg("x")} ELSE {})
  /\ phase' = "pdhg_g" /\ UNCHANGED <<opt, solver, terms>>
\* step 2: without G the primal prox stays; with G a prox is conjugated onto the stacked dual variable for Gx
AssemblePDHGG ==
  /\ phase = "pdhg_g"
  /\ terms' = IF opt.G = "None" THEN {Data} \cup primal
              ELSE IF PinnedPDHG
                   THEN {Data} \cup {[tm EXCEPT !.on = "Gx"] : tm \in primal}       \* whole primal prox moved onto Gx
                   ELSE {Data} \cup LamTerm("x") \cup (IF opt.proxg # "None" THEN {Reg("Gx")} ELSE {})
  /\ phase' = "ready" /\ UNCHANGED <<opt, solver, primal>>
\* ADMM: x-update solves (A^H A + lamda I + rho G^H G) x = A^H y + rho G^H (v - u) + lamda z ; v-update proxg(1/rho)
AssembleADMM ==
  /\ phase = "assemble" /\ solver = "ADMM"
  /\ terms' = {Data} \cup LamTerm("x") \cup (IF opt.proxg # "None" THEN {Reg(IF opt.G = "None" THEN "x" ELSE "Gx")} ELSE {})
  /\ phase' = "ready" /\ UNCHANGED <<opt, solver, primal>>

Next == Dispatch \/ Validate \/ AssembleCG \/ AssembleGM \/ AssemblePDHGPrimal \/ AssemblePDHGG \/ AssembleADMM
Spec == Init /\ [][Next]_vars /\ WF_vars(Next)

\* ------------------------------------------------------------------ the documented problem
Documented ==
  {Data} \cup (IF opt.lamda = "pos" THEN {L2("x", IF opt.z = "given" THEN "z" ELSE "0")} ELSE {})
         \cup (IF opt.proxg # "None" THEN {Reg(IF opt.G = "None" THEN "x" ELSE "Gx")} ELSE {})
\* a solver can express the configuration iff ...
Expressible ==
  LET s == IF opt.solver # "None" THEN opt.solver
           ELSE IF opt.proxg = "None" THEN "ConjugateGradient"
           ELSE IF opt.G = "None" THEN "GradientMethod" ELSE "PrimalDualHybridGradient" IN
  /\ s \in {"ConjugateGradient", "GradientMethod", "PrimalDualHybridGradient", "ADMM"}
  /\ (s = "ConjugateGradient" => opt.proxg = "None")       \* CG has no proximal step
  /\ (s = "GradientMethod" => opt.G = "None")              \* proximal gradient needs the prox of g(G.)
AssembledIsDocumented == phase = "ready" => terms = Documented
RejectedIffInexpressible == (phase = "rejected" => ~Expressible) /\ (phase = "ready" => Expressible)
Decides == <>(phase \in {"ready", "rejected"})
=========================================================================
