-------------------------------- MODULE ALM --------------------------------
(* sigpy.alg.AugmentedLagrangianMethod (sigpy/alg.py:459-513):               *)
(*     x <- argmin_x L(x, u, v, mu)          (closure of the caller)         *)
(*     u <- [u + mu g(x)]_+                  (inequality multipliers)        *)
(*     v <- v + mu h(x)                      (equality multipliers)          *)
(* One action per sub-step (pc = "minL", "dual"): the class owns the order,  *)
(* the two multiplier updates (including the clip at zero, done in place)    *)
(* and the counter.                                                          *)
(* Instances: f(x) = sum q_i/2 (x_i - p_i)^2 with                            *)
(*   kind "ineq": g(x) = x - ub <= 0 componentwise, no h                     *)
(*   kind "eq"  : h(x) = sum x_i - c = 0 (n = 2), no g                       *)
(*   kind "both": n = 1, g(x) = x - ub, h(x) = x - c with c < ub             *)
(* DEFINITION LAYER: the KKT point (x^, u^, v^) of the constrained problem.  *)
EXTENDS Rat, Sequences, TLC

CONSTANTS Insts,    \* records [kind : STRING, q, p, ub : Seq(Rat), c, mu : Rat, x0, u0 : Seq(Rat), v0 : Rat]
          MaxIters
VARIABLES inst, max_iter, iter, pc, x, u, v
vars == <<inst, max_iter, iter, pc, x, u, v>>

N == Len(inst.q)
RECURSIVE RSum(_, _)
RSumB(f, n) == IF n = 0 THEN RInt(0) ELSE RAdd(f[n], RSum(f, n - 1))
RSum(f, n) == RSumB(f, n)
Pos(w) == RMax(w, RInt(0))
HasG == inst.kind \in {"ineq", "both"}
HasH == inst.kind \in {"eq", "both"}
G(xx) == TLCEval([i \in 1..N |-> RSub(xx[i], inst.ub[i])])
H(xx) == RSub(RSum(xx, N), inst.c)

\* ---------------------------------------------------------------- argmin of the augmented Lagrangian (closed forms)
MinLIneq(uu) == TLCEval([i \in 1..N |->
   IF RLe(RAdd(RSub(inst.p[i], inst.ub[i]), RDiv(uu[i], inst.mu)), RInt(0)) THEN inst.p[i]
   ELSE RDiv(RSub(RAdd(RMul(inst.q[i], inst.p[i]), RMul(inst.mu, inst.ub[i])), uu[i]), RAdd(inst.q[i], inst.mu))])
\* (Q + mu 1 1^T) x = Q p + (mu c - v) 1, by Sherman-Morrison
MinLEq(vv) ==
  LET t == RSub(RMul(inst.mu, inst.c), vv)
      w == TLCEval([i \in 1..N |-> RAdd(inst.p[i], RDiv(t, inst.q[i]))])              \* Q^-1 rhs
      s == RSum(TLCEval([i \in 1..N |-> RInv(inst.q[i])]), N)                        \* 1^T Q^-1 1
      k == RDiv(RMul(inst.mu, RSum(w, N)), RAdd(RInt(1), RMul(inst.mu, s)))
  IN TLCEval([i \in 1..N |-> RSub(w[i], RDiv(k, inst.q[i]))])
MinLBoth(uu, vv) ==
  LET q == inst.q[1]  p == inst.p[1]  mu == inst.mu
      xin == RDiv(RSub(RAdd(RMul(q, p), RMul(mu, inst.c)), vv), RAdd(q, mu))          \* inequality term inactive
      xac == RDiv(RSub(RSub(RAdd(RAdd(RMul(q, p), RMul(mu, inst.ub[1])), RMul(mu, inst.c)), uu[1]), vv), RAdd(q, RMul(RInt(2), mu)))
  IN IF RLe(RAdd(RSub(xin, inst.ub[1]), RDiv(uu[1], mu)), RInt(0)) THEN <<xin>> ELSE <<xac>>
MinL(uu, vv) == CASE inst.kind = "ineq" -> MinLIneq(uu) [] inst.kind = "eq" -> MinLEq(vv) [] inst.kind = "both" -> MinLBoth(uu, vv)

\* ---------------------------------------------------------------- definition layer (KKT point)
XStar == CASE inst.kind = "ineq" -> TLCEval([i \in 1..N |-> RMin(inst.p[i], inst.ub[i])])
           [] inst.kind = "eq"   -> LET s == RSum(TLCEval([i \in 1..N |-> RInv(inst.q[i])]), N)
                                        vs == RDiv(RSub(RSum(inst.p, N), inst.c), s)
                                    IN TLCEval([i \in 1..N |-> RSub(inst.p[i], RDiv(vs, inst.q[i]))])
           [] inst.kind = "both" -> <<inst.c>>
UStar == CASE inst.kind = "ineq" -> TLCEval([i \in 1..N |-> Pos(RMul(inst.q[i], RSub(inst.p[i], inst.ub[i])))])
           [] OTHER -> TLCEval([i \in 1..N |-> RInt(0)])
VStar == CASE inst.kind = "ineq" -> RInt(0)
           [] inst.kind = "eq"   -> RDiv(RSub(RSum(inst.p, N), inst.c), RSum(TLCEval([i \in 1..N |-> RInv(inst.q[i])]), N))
           [] inst.kind = "both" -> RMul(inst.q[1], RSub(inst.p[1], inst.c))
\* (multipliers of absent constraints are not touched by the class and do not count)
DualDist2(uu, vv) == RAdd(IF HasG THEN RSum(TLCEval([i \in 1..N |-> RSq(RSub(uu[i], UStar[i]))]), N) ELSE RInt(0),
                          IF HasH THEN RSq(RSub(vv, VStar)) ELSE RInt(0))
AtKKT == x = XStar /\ (HasG => u = UStar) /\ (HasH => v = VStar)

\* ---------------------------------------------------------------- algorithm layer
Init ==
  /\ inst \in Insts /\ max_iter \in {m \in MaxIters : m <= inst.cap} /\ iter = 0 /\ pc = "minL"
  /\ x = inst.x0 /\ u = inst.u0 /\ v = inst.v0
Done == iter >= max_iter
MinLStep == /\ pc = "minL" /\ ~Done /\ x' = MinL(u, v) /\ pc' = "dual" /\ UNCHANGED <<inst, max_iter, iter, u, v>>
DualStep ==
  /\ pc = "dual"
  /\ u' = IF HasG THEN TLCEval([i \in 1..N |-> Pos(RAdd(u[i], RMul(inst.mu, G(x)[i])))]) ELSE u
  /\ v' = IF HasH THEN RAdd(v, RMul(inst.mu, H(x))) ELSE v
  /\ iter' = iter + 1 /\ pc' = "minL" /\ UNCHANGED <<inst, max_iter, x>>
Next == MinLStep \/ DualStep
Spec == Init /\ [][Next]_vars /\ WF_vars(Next)

\* ---------------------------------------------------------------- properties
MultipliersNonNegative == \A i \in 1..N : RLe(RInt(0), u[i])
FullStep == LET x1 == MinL(u, v)
                u1 == IF HasG THEN TLCEval([i \in 1..N |-> Pos(RAdd(u[i], RMul(inst.mu, RSub(x1[i], inst.ub[i]))))]) ELSE u
                v1 == IF HasH THEN RAdd(v, RMul(inst.mu, RSub(RSum(x1, N), inst.c))) ELSE v
            IN <<x1, u1, v1>>
\* a fixed point of the whole update is the KKT point
FixedPointIsKKT == (pc = "minL" /\ FullStep = <<x, u, v>>) => AtKKT
KKTIsFixed == (pc = "minL" /\ AtKKT) => FullStep = <<x, u, v>>
UnusedMultipliersUntouched == (~HasG => u = inst.u0) /\ (~HasH => v = inst.v0)
\* the method of multipliers is the proximal point method on the dual: the distance to the multipliers never grows
DualDistanceNonIncreasing == pc = "minL" => RLe(DualDist2(FullStep[2], FullStep[3]), DualDist2(u, v))
CounterOnlyOnDual == [][iter' # iter => (pc = "dual" /\ iter' = iter + 1)]_vars
Terminates == <>(Done /\ pc = "minL")
=========================================================================
