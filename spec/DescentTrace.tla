---------------------------- MODULE DescentTrace ----------------------------
(* Trace validation of sigpy.alg.GradientMethod (plain, accelerated, with     *)
(* prox) and sigpy.alg.PrimalDualHybridGradient runs on instances too large   *)
(* for exact arithmetic - property C13.  Problems are built around a KNOWN    *)
(* minimiser x* (the data y is solved for from the optimality condition), so  *)
(* Fstar and the saddle point (x*, u* = A x* - y) are exact up to rounding.      *)
(* Per update the recorder logs fixed-point integers (unit 1e-9, cap 2e9):    *)
(*  gm:   ratio  = (F(x_k) - Fstar) / bound_k, bound_k = L D^2/(2k)  (plain)     *)
(*                                          or 2 L D^2/(k+1)^2   (accelerated)*)
(*        up     = max(F(x_k) - F(x_{k-1}), 0) / max(F(x_0) - Fstar, tiny)       *)
(*  pdhg: mdist  = M-distance of (x_{k-1}, u_k) to the saddle point relative  *)
(*                 to its first value, M = [[1/tau, -A^H], [-A, 1/sigma]]     *)
(*        prod   = |tau*sigma/(tau0*sigma0) - 1|   (constant under the        *)
(*                 strong-convexity acceleration)                            *)
(* and once per run: the saddle-point defect (one update started AT the       *)
(* saddle point), the final relative distance to x*, in-place flags.          *)
EXTENDS Integers, Sequences, TLC, Json, IOUtils

CONSTANTS Slack      \* rounding allowance, unit 1e-9

Traces == JsonDeserialize(IOEnv.TRACE_FILE)
VARIABLES tid, l, iter, prev
tvars == <<tid, l, iter, prev>>
Ev == Traces[tid].ev[l]
T == Traces[tid]
More == l <= Len(T.ev)
MaxOf(a, b) == IF a >= b THEN a ELSE b
One == 1000000000

TInit == tid \in 1..Len(Traces) /\ l = 1 /\ iter = 0 /\ prev = 2000000000 /\ TLCSet(tid, 1)

TGm ==
  /\ More /\ Ev.e = "gm"
  /\ Ev.iter = iter + 1
  /\ Ev.ratio <= One + Slack                       \* objective gap within the rate bound of the theory
  /\ (T.accelerate = 0 => Ev.up <= Slack)          \* plain method never increases the objective
  /\ iter' = Ev.iter /\ prev' = prev /\ l' = l + 1 /\ tid' = tid
TPd ==
  /\ More /\ Ev.e = "pd"
  /\ Ev.iter = iter + 1
  /\ (T.constant_steps = 1 => Ev.mdist <= prev + Slack)   \* Fejer monotone in the M-norm
  /\ Ev.prod <= Slack                                     \* tau*sigma invariant
  /\ iter' = Ev.iter /\ prev' = (IF T.constant_steps = 1 THEN Ev.mdist ELSE prev) /\ l' = l + 1 /\ tid' = tid
TEnd ==
  /\ More /\ Ev.e = "end"
  /\ Ev.saddle_defect <= Slack                     \* every saddle point / minimiser is a fixed point of the update
  /\ Ev.final_dist <= T.final_tol                  \* converged to the minimiser within the budget
  /\ Ev.iter <= T.max_iter                         \* driven by done(), the method performs at most max_iter updates
  /\ Ev.in_place = 1                               \* caller's arrays updated in place
  /\ Ev.caller_prod <= Slack                       \* array-valued steps handed in by the caller: tau_i * sigma_j unchanged (still an admissible pair)
  /\ l' = l + 1 /\ UNCHANGED <<tid, iter, prev>>
TNext == TGm \/ TPd \/ TEnd
TraceSpec == TInit /\ [][TNext]_tvars
HighWater == TLCSet(tid, MaxOf(TLCGet(tid), l))
TraceInv == iter <= T.max_iter
Report == \A t \in 1..Len(Traces) : TLCGet(t) = Len(Traces[t].ev) + 1 \/ PrintT(<<"REJECT", Traces[t].id, TLCGet(t)>>)
=============================================================================
