------------------------------- MODULE PDHG -------------------------------
(* sigpy.alg.PrimalDualHybridGradient (sigpy/alg.py:299-436) with constant   *)
(* steps, in exact rationals - the primal-dual clauses of C13 and the         *)
(* early-stop clause of C15 (zero initialisation, sparsity-inducing prox,     *)
(* small dual steps).                                                         *)
(*   problem   min_x  sum_i 1/2 (a_i x_i - y_i)^2 + g(x_i),                   *)
(*             g in {0, lam |.|, lam/2 |.|^2, box[lo, hi]},  A = diag(a)      *)
(*   _update   u <- prox_{sigma f^*}(u + sigma A x_ext)   = (w - sigma y)/(1 + sigma)   *)
(*             x <- prox_{tau g}(x - tau A^H u)                               *)
(*             x_ext <- x + theta (x - x_old),  theta = 1                     *)
(*             resid^2 = |x - x_old|^2/tau + |u - u_old|^2/sigma              *)
(*   _done     iter >= max_iter or resid <= tol (tol = 0)                     *)
(* A second family ("tv") puts the data term in the primal and the l1 norm    *)
(* in the dual:  min_x 1/2 (x - y)^2 + lam |a x|,  prox_{sigma f^*} = clip to   *)
(* [-lam, lam],  prox_{tau g}(w) = (w + tau y)/(1 + tau): from a zero start    *)
(* the dual stays put while the primal moves.  theta is the caller's          *)
(* extrapolation factor (1, 1/2 or 0 = Arrow-Hurwicz).                        *)
(* A third family ("con") is the problem sigpy.app.L2ConstrainedMinimization  *)
(* hands to the solver (sigpy/app.py:542-628):  min_x g(x)  s.t. |a x - y| <= eps *)
(* per component (one component = the app's l2 ball in one dimension, where    *)
(* the projection needs no square root):  f = indicator of the ball,            *)
(*   prox_{sigma f^*}(w) = w - sigma clip(w / sigma, y - eps, y + eps)          *)
(* (Moreau, prox.Conj(prox.L2Proj(eps, y))),  prox_{tau g} as in the first      *)
(* family with g in {lam |.|, lam/2 |.|^2}; the saddle point is the point of    *)
(* the feasible interval nearest to 0 with the multiplier -g'(x^)/a.            *)
(* Steps may be per-component (array-valued tau, sigma) with                  *)
(* tau_i sigma_i a_i^2 <= 1.                                                  *)
(* DEFINITION LAYER: the saddle point  x^ = prox_{g/a^2}(y/a),  u^ = a x^ - y.  *)
EXTENDS Rat, Sequences, TLC

CONSTANTS Insts,    \* records [id, cap, fam : STRING, theta : Rat, a, y : Seq(Rat), g : STRING, lam, lo, hi, eps : Rat, tau, sigma : Seq(Rat), x0, u0 : Seq(Rat), start : STRING]
          MaxIters
VARIABLES inst, max_iter, iter, x, u, xext, xprev, moved
vars == <<inst, max_iter, iter, x, u, xext, xprev, moved>>

N == Len(inst.a)
RECURSIVE RSum(_, _)
RSumB(f, n) == IF n = 0 THEN RInt(0) ELSE RAdd(f[n], RSum(f, n - 1))
RSum(f, n) == RSumB(f, n)
Soft(w, t) == IF RLt(t, w) THEN RSub(w, t) ELSE IF RLt(w, RNeg(t)) THEN RAdd(w, t) ELSE RInt(0)
ProxG(t, w) ==
  CASE inst.g = "zero" -> w
    [] inst.g = "l1"   -> Soft(w, RMul(t, inst.lam))
    [] inst.g = "sq"   -> RDiv(w, RAdd(RInt(1), RMul(t, inst.lam)))
    [] inst.g = "box"  -> RMax(inst.lo, RMin(w, inst.hi))

Tv == inst.fam = "tv"
Con == inst.fam = "con"
Clip(w, l, h) == RMax(l, RMin(w, h))
StepU(uu, xe) == TLCEval([i \in 1..N |->
   LET w == RAdd(uu[i], RMul(inst.sigma[i], RMul(inst.a[i], xe[i]))) IN
   IF Tv THEN RMax(RNeg(inst.lam), RMin(w, inst.lam))
   ELSE IF Con THEN RSub(w, RMul(inst.sigma[i], Clip(RDiv(w, inst.sigma[i]), RSub(inst.y[i], inst.eps), RAdd(inst.y[i], inst.eps))))
   ELSE RDiv(RSub(w, RMul(inst.sigma[i], inst.y[i])), RAdd(RInt(1), inst.sigma[i]))])
StepX(xx, un) == TLCEval([i \in 1..N |->
   LET w == RSub(xx[i], RMul(inst.tau[i], RMul(inst.a[i], un[i]))) IN
   IF Tv THEN RDiv(RAdd(w, RMul(inst.tau[i], inst.y[i])), RAdd(RInt(1), inst.tau[i]))
   ELSE ProxG(inst.tau[i], w)])
Extr(xn, xo) == TLCEval([i \in 1..N |-> RAdd(xn[i], RMul(inst.theta, RSub(xn[i], xo[i])))])

\* ---------------------------------------------------------------- definition layer
\* con family (a # 0, g in {l1, sq}, 0 not an end point of the feasible interval): the feasible point nearest to 0
ConLo(i) == RMin(RDiv(RSub(inst.y[i], inst.eps), inst.a[i]), RDiv(RAdd(inst.y[i], inst.eps), inst.a[i]))
ConHi(i) == RMax(RDiv(RSub(inst.y[i], inst.eps), inst.a[i]), RDiv(RAdd(inst.y[i], inst.eps), inst.a[i]))
ConX(i) == Clip(RInt(0), ConLo(i), ConHi(i))
ConU(i) == IF ConX(i) = RInt(0) THEN RInt(0)
           ELSE IF inst.g = "l1" THEN RNeg(RDiv(RMul(inst.lam, IF RLt(RInt(0), ConX(i)) THEN RInt(1) ELSE RInt(0 - 1)), inst.a[i]))
           ELSE RNeg(RDiv(RMul(inst.lam, ConX(i)), inst.a[i]))
XStarI(i) == IF Con THEN ConX(i) ELSE
             IF Tv THEN Soft(inst.y[i], RMul(inst.lam, RAbs(inst.a[i])))      \* tv family: a # 0
             ELSE IF inst.a[i] = RInt(0)
             THEN ProxG(RInt(1), RInt(0))     \* flat data term: minimiser of g alone (0, or the box point nearest 0); "zero" instances keep a # 0
             ELSE ProxG(RInv(RSq(inst.a[i])), RDiv(inst.y[i], inst.a[i]))
UStarI(i) == IF Con THEN ConU(i) ELSE
             IF Tv THEN RDiv(RSub(inst.y[i], XStarI(i)), inst.a[i])            \* stationarity x - y + a u = 0
             ELSE RSub(RMul(inst.a[i], XStarI(i)), inst.y[i])
XStar == TLCEval([i \in 1..N |-> XStarI(i)])
UStar == TLCEval([i \in 1..N |-> UStarI(i)])
\* M-distance of (xx, uu) to the saddle point, M = [[1/tau, -A^H], [-A, 1/sigma]]
\* (A is diagonal, so the distance splits into components each of which is non-increasing; per component the exact
\* rationals stay small)
MDistI(i, xx, uu) ==
    LET dx == RSub(xx[i], XStarI(i))  du == RSub(uu[i], UStarI(i)) IN
    RAdd(RSub(RDiv(RSq(dx), inst.tau[i]), RMul(RInt(2), RMul(inst.a[i], RMul(dx, du)))), RDiv(RSq(du), inst.sigma[i]))
Admissible == \A i \in 1..Len(inst.a) : RLe(RMul(RMul(inst.tau[i], inst.sigma[i]), RSq(inst.a[i])), RInt(1))

\* ---------------------------------------------------------------- algorithm layer
Init ==
  /\ inst \in Insts /\ max_iter \in {m \in MaxIters : m <= inst.cap} /\ iter = 0 /\ moved = TRUE
  /\ Admissible
  /\ IF inst.start = "saddle"
       THEN x = TLCEval([i \in 1..Len(inst.a) |-> XStarI(i)]) /\ u = TLCEval([i \in 1..Len(inst.a) |-> UStarI(i)])
       ELSE x = inst.x0 /\ u = inst.u0
  /\ xext = x /\ xprev = x
Done == iter >= max_iter \/ ~moved
Update ==
  /\ ~Done
  /\ LET un == StepU(u, xext)  xn == StepX(x, un) IN
     /\ u' = un /\ x' = xn /\ xext' = Extr(xn, x) /\ xprev' = x
     /\ moved' = (xn # x \/ un # u)
  /\ iter' = iter + 1 /\ UNCHANGED <<inst, max_iter>>
Next == Update
Spec == Init /\ [][Next]_vars /\ WF_vars(Next)

\* ---------------------------------------------------------------- properties
AtSaddle == x = XStar /\ u = UStar /\ xext = x
SaddleIsFixed == AtSaddle => (StepU(u, xext) = u /\ StepX(x, StepU(u, xext)) = x)
\* tol = 0: the solver stops before max_iter only when primal AND dual did not move, and then (with x_ext = x) it sits at the saddle point
\* con family: the primal iterate of a fixed point is feasible, and the saddle point is
FeasibleSaddle == Con => \A i \in 1..N : RLe(RAbs(RSub(RMul(inst.a[i], XStarI(i)), inst.y[i])), inst.eps)
EarlyStopIsSaddle == (iter >= 1 /\ ~moved /\ xext = x) => (x = XStar /\ u = UStar)
EarlyStopIsFixed == (iter >= 1 /\ ~moved) => (xext = x /\ StepU(u, xext) = u /\ StepX(x, StepU(u, xext)) = x)
\* Fejer monotonicity in the M-norm of the pair (previous primal, current dual) - He & Yuan 2012 for theta = 1
FejerMonotone == [][(iter >= 1 /\ inst.theta = RInt(1)) => \A i \in 1..N : RLe(MDistI(i, x, u'), MDistI(i, xprev, u))]_vars
CounterByOne == [][iter' = iter + 1]_vars
Terminates == <>Done
===========================================================================
