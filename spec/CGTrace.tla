------------------------------ MODULE CGTrace ------------------------------
(* Trace validation of sigpy.alg.ConjugateGradient runs that are too large   *)
(* for exact arithmetic (dimension 3..12, complex Hermitian, condition       *)
(* numbers to 1e3, random Hermitian PD preconditioners) - property C12.      *)
(* The recorder steps the real solver and logs, per update, fixed-point      *)
(* integers (unit 1e-9, capped at 2e9):                                      *)
(*   err    = ||x* - x_k||_A / ||x* - x_0||_A                                *)
(*   kry    = ||x_k - KrylovOpt(k)||_A / ||x* - x_0||_A   (KrylovOpt by a     *)
(*            dense least-squares projection in the A-inner product)         *)
(*   res    = ||r_k - (b - A x_k)|| / ||b||               (tracked residual)  *)
(* The control part (counter, budget, done) is the protocol of AlgLoop.tla.  *)
EXTENDS Integers, Sequences, TLC, Json, IOUtils

CONSTANTS Slack,     \* allowed increase of err between updates (rounding), unit 1e-9
          KryTol, ResTol

Traces == JsonDeserialize(IOEnv.TRACE_FILE)
VARIABLES tid, l, iter, prev
tvars == <<tid, l, iter, prev>>
Ev == Traces[tid].ev[l]
More == l <= Len(Traces[tid].ev)
MaxOf(a, b) == IF a >= b THEN a ELSE b
T == Traces[tid]

TInit == tid \in 1..Len(Traces) /\ l = 1 /\ iter = 0 /\ prev = 1000000000 /\ TLCSet(tid, 1)

TUpdate ==
  /\ More /\ Ev.e = "u"
  /\ Ev.iter = iter + 1 /\ iter < T.max_iter                 \* one per update, within the budget
  /\ Ev.err <= prev + Slack                                   \* A-norm error never increases
  /\ Ev.kry <= KryTol                                         \* iterate is the Krylov-optimal one
  /\ (Ev.iter < T.max_iter => Ev.res <= ResTol)               \* tracked residual is the true one (stale after the last update by design)
  /\ (Ev.iter >= T.n => Ev.err <= T.exact_tol)               \* exact within n updates (finite-precision allowance chosen per trace by n and cond, see DESIGN.md)
  /\ Ev.x_is_callers = 1                                      \* solution written into the caller's array
  /\ iter' = Ev.iter /\ prev' = Ev.err
  /\ l' = l + 1 /\ tid' = tid
TDone ==
  /\ More /\ Ev.e = "d"
  /\ Ev.iter = iter
  /\ (iter >= T.max_iter => Ev.done = 1)
  /\ (Ev.done = 1 /\ iter < T.max_iter => (Ev.npd = 1 \/ Ev.resid0 = 1))   \* early only on breakdown or zero residual (tol = 0)
  /\ l' = l + 1 /\ UNCHANGED <<tid, iter, prev>>
TNext == TUpdate \/ TDone
TraceSpec == TInit /\ [][TNext]_tvars
HighWater == TLCSet(tid, MaxOf(TLCGet(tid), l))
TraceInv == iter <= T.max_iter
Report == \A t \in 1..Len(Traces) : TLCGet(t) = Len(Traces[t].ev) + 1 \/ PrintT(<<"REJECT", Traces[t].id, TLCGet(t)>>)
============================================================================
