---------------------------- MODULE PoissonTrace ----------------------------
(* Trace validation of sigpy.mri.samp.poisson calls (C18).  One trace = one   *)
(* call: the probes of the slope bisection observed by wrapping _poisson      *)
(* (slopes logged as RANKS among the slopes of that call, plus the harness's  *)
(* classification of the acceleration obtained), followed by one `call`       *)
(* event with the outcome and integer facts about the returned mask.          *)
(* The bisection part reuses the interval update of PoissonSearch.tla on the  *)
(* rank lattice; the outcome part states the contract of the property.        *)
EXTENDS Integers, Sequences, TLC, Json, IOUtils

Traces == JsonDeserialize(IOEnv.TRACE_FILE)

VARIABLES tid, l, lo, hi, lastcls, nprobe
tvars == <<tid, l, lo, hi, lastcls, nprobe>>

Ev == Traces[tid].ev[l]
More == l <= Len(Traces[tid].ev)
MaxOf(a, b) == IF a >= b THEN a ELSE b

TInit ==
  /\ tid \in 1..Len(Traces) /\ l = 1
  /\ lo = 0 /\ hi = Traces[tid].nrank + 1     \* ranks 1..nrank lie strictly inside (slope_min, slope_max)
  /\ lastcls = "none" /\ nprobe = 0
  /\ TLCSet(tid, 1)

\* a probe is strictly inside the current interval and moves exactly the bound the code moves
TProbe ==
  /\ More /\ Ev.e = "probe" /\ lastcls # "ok"
  \* (Ev.tie = 1: the logged slope proxy no longer resolves this slope from an earlier one -
  \* after ~50 halvings the float radius saturates - so only non-strict containment is demanded)
  /\ IF Ev.tie = 1 THEN lo <= Ev.rank /\ Ev.rank <= hi ELSE lo < Ev.rank /\ Ev.rank < hi
  /\ lastcls' = Ev.cls /\ nprobe' = nprobe + 1
  /\ CASE Ev.cls = "ok" -> UNCHANGED <<lo, hi>>
       [] Ev.cls = "lo" -> lo' = Ev.rank /\ hi' = hi
       [] Ev.cls = "hi" -> hi' = Ev.rank /\ lo' = lo
  /\ l' = l + 1 /\ tid' = tid

Abs(x) == IF x < 0 THEN 0 - x ELSE x
\* the contract of one call (all quantities are integers computed by the harness from the mask)
TCall ==
  /\ More /\ Ev.e = "call"
  /\ Ev.outcome \in {"mask", "error"}               \* never "timeout" (hang) or another exception
  /\ nprobe <= 1200                                   \* a float bisection towards 0 collapses within ~1080 halvings (denormals)
  /\ Ev.outcome = "mask" =>
        /\ lastcls = "ok"                             \* returned only after a probe within tolerance
        /\ Ev.nonbinary = 0                           \* only zeros and ones
        /\ Abs(Ev.size * 1000 - Ev.accel1000 * Ev.nsamp) < Ev.tol1000 * Ev.nsamp   \* |size/nsamp - accel| < tol
        /\ Ev.calib_missing = 0                       \* every calibration point sampled
        /\ Ev.outside_ellipse = 0                     \* no sample with r >= 1 when cropping
  /\ Ev.outcome = "error" => lastcls # "ok"         \* raises only if no probe was within tolerance
  /\ Ev.rng_same = 1                                  \* numpy's global RNG state untouched
  /\ Ev.same_as_first = 1                             \* equal arguments and seed => equal mask, whatever happened in between
  /\ l' = l + 1 /\ UNCHANGED <<tid, lo, hi, lastcls, nprobe>>

TNext == TProbe \/ TCall
TraceSpec == TInit /\ [][TNext]_tvars
HighWater == TLCSet(tid, MaxOf(TLCGet(tid), l))
TraceInv == lo <= hi
Report ==
  \A t \in 1..Len(Traces) :
     \/ TLCGet(t) = Len(Traces[t].ev) + 1
     \/ PrintT(<<"REJECT", Traces[t].id, TLCGet(t)>>)
=============================================================================
