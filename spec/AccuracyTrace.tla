--------------------------- MODULE AccuracyTrace ---------------------------
(* Generic acceptance of measured numerical defects against thresholds that   *)
(* live in the specification (used for the clauses that are statements about  *)
(* floating-point error of irrational quantities: C06, C04-Toeplitz, C10,     *)
(* C17, C19).  A trace is a series of measurements of one configuration; each *)
(* event carries a class name and a value in units of 1e-9 (capped at 2e9);   *)
(* it is accepted iff value <= Bounds[class].                                 *)
EXTENDS Integers, Sequences, TLC, Json, IOUtils

CONSTANT Bounds      \* function: class name -> bound (unit 1e-9)

Traces == JsonDeserialize(IOEnv.TRACE_FILE)
VARIABLES tid, l
tvars == <<tid, l>>
Ev == Traces[tid].ev[l]
More == l <= Len(Traces[tid].ev)
MaxOf(a, b) == IF a >= b THEN a ELSE b

TInit == tid \in 1..Len(Traces) /\ l = 1 /\ TLCSet(tid, 1)
TMeasure ==
  /\ More
  /\ Ev.cls \in DOMAIN Bounds
  /\ Ev.val <= Bounds[Ev.cls]
  /\ l' = l + 1 /\ tid' = tid
TraceSpec == TInit /\ [][TMeasure]_tvars
HighWater == TLCSet(tid, MaxOf(TLCGet(tid), l))
Report == \A t \in 1..Len(Traces) : TLCGet(t) = Len(Traces[t].ev) + 1 \/ PrintT(<<"REJECT", Traces[t].id, TLCGet(t)>>)
============================================================================
