---------------------------- MODULE PurityTrace ----------------------------
(* Property C02, last sentence: "Neither operators, proximal operators nor   *)
(* the library's array functions modify the arrays passed to them", and      *)
(* determinism of repeated calls.  One trace per public function: a sequence  *)
(* of calls, each made twice on equal inputs; the harness logs 30-bit CRCs of *)
(* every ndarray argument before and after the call and of the result.  The  *)
(* specification keeps a memo  input signature -> result signature.           *)
EXTENDS Integers, Sequences, TLC, Json, IOUtils

Traces == JsonDeserialize(IOEnv.TRACE_FILE)
VARIABLES tid, l, memo
tvars == <<tid, l, memo>>
Ev == Traces[tid].ev[l]
More == l <= Len(Traces[tid].ev)
MaxOf(a, b) == IF a >= b THEN a ELSE b

TInit == tid \in 1..Len(Traces) /\ l = 1 /\ memo = <<>> /\ TLCSet(tid, 1)
Known(sig) == \E i \in 1..Len(memo) : memo[i][1] = sig
Lookup(sig) == (CHOOSE i \in 1..Len(memo) : memo[i][1] = sig)
TCall ==
  /\ More
  /\ Ev.args_after = Ev.args_before                      \* no argument array was modified
  /\ Ev.raised = 0
  /\ IF Known(Ev.args_before)
       THEN memo[Lookup(Ev.args_before)][2] = Ev.result /\ memo' = memo   \* equal inputs, equal output
       ELSE memo' = Append(memo, <<Ev.args_before, Ev.result>>)
  /\ l' = l + 1 /\ tid' = tid
TraceSpec == TInit /\ [][TCall]_tvars
HighWater == TLCSet(tid, MaxOf(TLCGet(tid), l))
Report == \A t \in 1..Len(Traces) : TLCGet(t) = Len(Traces[t].ev) + 1 \/ PrintT(<<"REJECT", Traces[t].id, TLCGet(t)>>)
============================================================================
