---------------------------- MODULE TrapDefs ----------------------------
(* Definitions shared by Trap.tla and Spokes.tla: the transcribed design    *)
(* branches of trap_grad / min_trap_grad in dimensionless exact rationals   *)
(* and the waveform of a design descriptor.  See Trap.tla for conventions.  *)
EXTENDS Rat, Sequences
CONSTANT SqrtBound      \* search bound for integer square roots

\* ---------------------------------------------------------------- mechanism
\* trap_grad: total area a
TrapDesign(g, ar) ==
  LET r0 == RCeil(g)
      triareamax == RMul(RInt(r0), g)
  IN IF RLt(ar, triareamax)
     THEN \* triangle: ramppts = ceil(sqrt(a)); pulse = up, down; rescaled to the area
          LET r == CeilSqrt(ar, SqrtBound)
          IN [kind |-> "triangle", r |-> r, n |-> 0, peak |-> RDiv(ar, RInt(r + 1))]
     ELSE \* trapezoid: nflat = 2*ceil((a - r0*G)/(2G))
          LET n == 2 * RCeil(RDiv(RSub(ar, triareamax), RMul(RInt(2), g)))
          IN [kind |-> "trapezoid", r |-> r0, n |-> n, peak |-> RDiv(ar, RInt(r0 + 1 + n))]
\* exact integer arguments under ceil, or the regime boundary: float rounding may pick a neighbour
TrapTie(g, ar) ==
  LET r0 == RCeil(g)  tri == RMul(RInt(r0), g) IN
  \/ RIsInt(g) \/ ar = tri
  \/ (RLt(ar, tri) /\ IsSquare(ar, SqrtBound))
  \/ (~RLt(ar, tri) /\ RIsInt(RDiv(RSub(ar, tri), RMul(RInt(2), g))))

\* min_trap_grad: area a under the flat top; plateau sqrt(a/2) capped at G
\* (pts >= 1: the repaired code uses at least one plateau sample)
MinTrapDesign(g, ar) ==
  LET p0 == FloorSqrt(RMul(RInt(2), ar), SqrtBound)
      pts0 == IF p0 < 1 THEN 1 ELSE p0
      amp0 == RDiv(ar, RInt(pts0))
      pts == IF RLt(g, amp0) THEN RCeil(RDiv(ar, g)) ELSE pts0
      amp == RDiv(ar, RInt(pts))
      r == RCeil(amp)
  IN [kind |-> "mintrap", r |-> r, n |-> pts, peak |-> amp]
MinTrapTie(g, ar) ==
  LET p0 == FloorSqrt(RMul(RInt(2), ar), SqrtBound)
      pts0 == IF p0 < 1 THEN 1 ELSE p0
      amp0 == RDiv(ar, RInt(pts0))
      pts == IF RLt(g, amp0) THEN RCeil(RDiv(ar, g)) ELSE pts0
  IN \/ IsSquare(RMul(RInt(2), ar), SqrtBound) \/ amp0 = g
     \/ (RLt(g, amp0) /\ RIsInt(RDiv(ar, g))) \/ RIsInt(RDiv(ar, RInt(pts)))

\* ---------------------------------------------------------------- waveform of a descriptor
Len3(d) == 2 * (d.r + 1) + d.n
Sample(d, i) ==   \* i in 1..Len3(d)
  IF i <= d.r + 1 THEN RMul(R(i - 1, d.r), d.peak)
  ELSE IF i <= d.r + 1 + d.n THEN d.peak
  ELSE RMul(R(Len3(d) - i, d.r), d.peak)
RECURSIVE SumTo(_, _)
SumToB(d, i) == IF i = 0 THEN RInt(0) ELSE RAdd(Sample(d, i), SumTo(d, i - 1))
SumTo(d, i) == SumToB(d, i)
TotalArea(d) == RMul(d.peak, RInt(d.r + 1 + d.n))         \* closed form of the sum of all samples
FlatArea(d) == RMul(d.peak, RInt(d.n))

=========================================================================
