------------------------------ MODULE Wavelet ------------------------------
(* sigpy.fwt / sigpy.iwt / linop.Wavelet (sigpy/wavelet.py, linop.py) - C10.  *)
(* What is exact here is the SHAPE CALCULUS of the coefficient array:         *)
(*  * every axis is first zero-padded to even length ((n+1) div 2)*2          *)
(*    (also the axes that are not transformed);                               *)
(*  * along a transformed axis one analysis step with an orthogonal filter of *)
(*    length L and zero extension maps length n to floor((n + L - 1)/2);      *)
(*  * level None means the largest J with 2^J * (L - 1) <= n' on every        *)
(*    transformed axis (PyWavelets' dwtn_max_level);                          *)
(*  * coeffs_to_array lays out [cA_J | cD_J | ... | cD_1] along every         *)
(*    transformed axis: extent len_J + SUM_{j=1..J} len_j.                    *)
(* TLC enumerates wavelet families x shapes x axes subsets x levels and       *)
(* checks consistency laws; the harness compares the advertised / actual      *)
(* coefficient shapes with the spec and measures the three identities         *)
(* (perfect reconstruction, norm preservation, adjointness), which involve    *)
(* irrational filter taps and are validated through AccuracyTrace.tla.        *)
EXTENDS Integers, Sequences, FiniteSets, TLC

CONSTANTS Wavelets,   \* set of <<name, filter length>>
          Shapes, Levels   \* Levels: 0 stands for None

VARIABLES cfg, oshape, lens
vars == <<cfg, oshape, lens>>

Even(n) == ((n + 1) \div 2) * 2
StepLen(n, L) == (n + L - 1) \div 2
RECURSIVE Pow2(_)
Pow2B(j) == IF j = 0 THEN 1 ELSE 2 * Pow2(j - 1)
Pow2(j) == Pow2B(j)
\* largest J with 2^J (L-1) <= n   (0 if none)
MaxLevel1(n, L) == IF L - 1 > n THEN 0 ELSE CHOOSE J \in 0..12 : Pow2(J) * (L - 1) <= n /\ Pow2(J + 1) * (L - 1) > n
SetMin(S) == CHOOSE x \in S : \A y \in S : x <= y
AxSet(axes, r) == IF axes = <<>> THEN 0..(r - 1) ELSE {axes[i] % r : i \in 1..Len(axes)}
EffLevel(shape, axes, L, lev) ==
  IF lev # 0 THEN lev ELSE SetMin({MaxLevel1(Even(shape[d + 1]), L) : d \in AxSet(axes, Len(shape))})
\* coefficient lengths len_1 .. len_J along an axis of (padded) length n
RECURSIVE LenSeq(_, _, _)
LenSeqB(n, L, J) == IF J = 0 THEN <<>> ELSE <<StepLen(n, L)>> \o LenSeq(StepLen(n, L), L, J - 1)
LenSeq(n, L, J) == LenSeqB(n, L, J)
RECURSIVE SumS(_)
SumSB(s) == IF Len(s) = 0 THEN 0 ELSE Head(s) + SumS(Tail(s))
SumS(s) == SumSB(s)
Extent(n, L, J) == IF J = 0 THEN n ELSE LET ls == LenSeq(n, L, J) IN ls[J] + SumS(ls)

\* (pairs in ascending, descending and mixed-sign spellings: the order of `axes` is the caller's, pywt packs the detail
\* bands in that order, and the coefficient slices must be built for the same order)
AxesChoices(r) == {<<>>} \cup {<<a>> : a \in (0 - r)..(r - 1)}
                  \cup (IF r >= 2 THEN {<<0, r - 1>>, <<-1, 0>>, <<r - 1, 0>>, <<0, -1>>, <<-1, -2>>} ELSE {})
                  \cup (IF r >= 3 THEN {<<2, 0, 1>>, <<1, -1>>} ELSE {})

Init == \E w \in Wavelets, s \in Shapes, lev \in Levels : \E ax \in AxesChoices(Len(s)) :
   LET L == w[2]  J == EffLevel(s, ax, L, lev)  A == AxSet(ax, Len(s)) IN
   /\ cfg = [wave |-> w[1], L |-> L, shape |-> s, axes |-> ax, level |-> lev, J |-> J]
   /\ oshape = [d \in 1..Len(s) |-> IF (d - 1) \in A THEN Extent(Even(s[d]), L, J) ELSE Even(s[d])]
   /\ lens = [d \in 1..Len(s) |-> IF (d - 1) \in A THEN LenSeq(Even(s[d]), L, J) ELSE <<>>]
Next == UNCHANGED vars
Spec == Init /\ [][Next]_vars

\* the coefficient array never has fewer entries than the (padded) signal: the transform can be an isometry
NotShorter == \A d \in 1..Len(oshape) : oshape[d] >= Even(cfg.shape[d])
\* Haar is critically sampled whenever 2^J divides the padded length
HaarCritical == (cfg.L = 2) => \A d \in 1..Len(oshape) : (Even(cfg.shape[d]) % Pow2(cfg.J) = 0) => oshape[d] = Even(cfg.shape[d])
\* each analysis step (at least) halves up to the filter overhang
StepBound == \A d \in 1..Len(lens) : \A j \in 1..Len(lens[d]) :
   2 * lens[d][j] >= (IF j = 1 THEN Even(cfg.shape[d]) ELSE lens[d][j - 1]) + cfg.L - 2
LevelDefined == cfg.J >= 0
============================================================================
