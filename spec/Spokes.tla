----------------------------- MODULE Spokes -----------------------------
(* sigpy.mri.rf.spokes_grad (sigpy/mri/rf/trajgrad.py:664-725) as list      *)
(* surgery on waveform LENGTHS and AREAS (property C20, last clause).       *)
(* Per spoke the slice-select sub-pulse (min_trap_grad, alternating sign)   *)
(* is appended to gz and zeros of the same length to gx, gy; a non-zero     *)
(* in-plane move replaces "the last len(blip) samples of the axis built so  *)
(* far" by a trap_grad blip; finally a refocusing lobe of half the          *)
(* sub-pulse area.  Dimensionless units as in Trap.tla.                     *)
(* The y axis is the same surgery applied to the ky increments: the replay  *)
(* binds it to a second behaviour with the same limits and spoke count.     *)
(* State after `done` spokes: per-axis length, and for every spoke window   *)
(* the area that the x axis carries inside it.                              *)
EXTENDS TrapDefs

CONSTANTS GVals, SubAreas, BlipSeqs   \* limits, slice-select areas, sequences of x-blip areas (0 = no move)

VARIABLES G, sub, blips, done, lenx, lenz, warea, ok
vars == <<G, sub, blips, done, lenx, lenz, warea, ok>>

SubDes == MinTrapDesign(G, sub)
Ls == Len3(SubDes)
BlipDes(b) == TrapDesign(G, RAbs(b))

Init ==
  /\ G \in GVals /\ sub \in SubAreas /\ blips \in BlipSeqs
  /\ done = 0 /\ lenx = 0 /\ lenz = 0 /\ warea = <<>> /\ ok = TRUE

\* one loop iteration of spokes_grad for the x axis
Spoke ==
  /\ done < Len(blips)
  /\ LET b == blips[done + 1]
         l == IF b = RInt(0) THEN 0 ELSE Len3(BlipDes(b))
     IN /\ lenz' = lenz + Ls
        /\ lenx' = lenx + Ls           \* zeros appended, then the tail replaced: length unchanged
        \* the blip stays inside its own window iff it is not longer than the sub-pulse;
        \* otherwise it overwrites samples of earlier windows (or, for the first spoke,
        \* Python's negative slice drops the wrong end and the axes end up with different lengths)
        /\ ok' = (ok /\ l <= Ls)
        /\ warea' = Append(warea, b)
  /\ done' = done + 1
  /\ UNCHANGED <<G, sub, blips>>
Next == Spoke
Spec == Init /\ [][Next]_vars

\* requirements
AxesEqual == lenx = lenz
WindowAreas == ok => \A i \in 1..Len(warea) : warea[i] = blips[i]     \* each window moves k-space by the requested increment
BlipLimits == \A i \in 1..Len(blips) : blips[i] # RInt(0) =>
                 LET d == BlipDes(blips[i]) IN RLe(d.peak, G) /\ RLe(RDiv(d.peak, RInt(d.r)), RInt(1))
SubLimits == RLe(SubDes.peak, G) /\ RLe(RDiv(SubDes.peak, RInt(SubDes.r)), RInt(1))
=========================================================================
