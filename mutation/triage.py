"""Summary of the mutation campaign (harness/mutate.py): counts per file and the reviewed class of every mutant no check reports.
usage: python3 mutation/triage.py [--md]"""
import collections
import glob
import json
import os
import sys

HERE = os.path.dirname(os.path.abspath(__file__))
# (file, line) -> (class, reason).  E = equivalent (nothing a caller can observe changes), P = observable, but no listed property
# constrains it, S = strengthened (the check was extended because of this mutant; see retest.jsonl)
T = {}


def t(f, lines, cls, why):
    for ln in lines:
        T[(f, ln)] = (cls, why)


t("sigpy/alg.py", [255], "E", "the copy of the first direction matters only when a second update follows (max_iter > 1)")
t("sigpy/alg.py", [410, 372, 404, 413], "P", "which acceleration branch / factor PDHG uses: the iterates still converge within the tolerance C13 states")
t("sigpy/alg.py", [214, 432, 433], "P", "the reported residual (used only against tol; the checks run tol = 0)")
t("sigpy/alg.py", [209], "P", "momentum sequence that still satisfies the O(1/k^2) bound of C13 on every instance (the bound is the property)")
t("sigpy/block.py", [261, 280, 281, 282], "E", "defensive bounds tests: the block count never lets a window leave the array")
t("sigpy/block.py", [276, 322, 77, 81, 102, 50], "S", "3-D shapes with a longer leading axis / unequal trailing axes; a crash of the kernel is now a verdict")
t("sigpy/conv.py", [234], "E", "accepts a 'valid' shape combination the original rejects and computes it correctly (C08 allows either)")
t("sigpy/fourier.py", [193, 207], "S", "nufft_adjoint with batch axes, output shape given and estimated")
t("sigpy/fourier.py", [248, 249, 252, 255, 256, 260, 261], "S", "toeplitz_psf belongs to C04 (NUFFT normal operator): re-run against C04, all reported (sigpy_fourier_toeplitz.jsonl)")
t("sigpy/fourier.py", [158], "P", "estimate_shape (no listed property; the batch check uses it on both sides)")
t("sigpy/fourier.py", [82], "E", "the cast back is a no-op when the dtypes already agree")
t("sigpy/fourier.py", [44, 77], "P", "non-centred transform with oshape (C05 speaks of output shapes only for the centred transform)")
t("sigpy/interp.py", [275, 342, 343, 386, 392, 264, 265, 269, 281, 287, 348, 349, 354, 360, 366, 380, 398], "E", "window widened over samples whose kernel weight is zero")
t("sigpy/thresh.py", [152, 87, 112], "E", "`<` vs `<=` at a point where both branches return the same value")
t("sigpy/thresh.py", [160], "E", "sign of an exactly zero entry multiplies a zero magnitude")
t("sigpy/wavelet.py", [16, 62, 63], "E", "keyword equal to the callee's default / boundary mode that does not enter shapes or the synthesis")
t("sigpy/prox.py", [118, 43], "P", "argument checks of Stack / Prox (C11 does not speak of rejections)")
t("sigpy/util.py", [222, 241], "S", "default shift of downsample / upsample (now passed as None)")
t("sigpy/mri/rf/trajgrad.py", [123, 127, 129, 132], "E", "unreachable branch (rampsamp is always set)")
t("sigpy/mri/rf/trajgrad.py", [71, 137, 44, 98], "P", "zero area (C20: every positive area)")
t("sigpy/mri/rf/trajgrad.py", [103], "E", "exact tie between the triangle and the trapezoid regime: both give the same pulse")
t("sigpy/mri/rf/trajgrad.py", [692, 693], "E", "one more trailing zero in a difference whose last entries are not read")
t("sigpy/mri/rf/trajgrad.py", [715], "P", "area of the slice-select rewinder (C20: limits and in-plane increments)")
t("sigpy/mri/rf/trajgrad.py", [73], "P", "orientation of the returned array (row / column)")
t("sigpy/mri/samp.py", [213, 207, 72, 63, 180, 210], "P", "spacing / density of the samples: the mask is still binary, calibrated, cropped and at the requested acceleration (C18)")
t("sigpy/app.py", [397, 378], "P", "default dual step / strong-convexity constant: PDHG still reaches the minimiser of the documented objective (C14)")
t("sigpy/mri/rf/sim.py", [36, 46, 211, 247], "P", "sign / scale conventions of a simulator: unitarity, identity and composition (C19) hold under either")
t("sigpy/mri/rf/sim.py", [261, 264, 266, 233, 234, 228], "P", "magnetisation outputs / field-map switch of abrm_ptx (C19 speaks of the Cayley-Klein parameters)")
t("sigpy/mri/rf/slr.py", [581], "E", "cj rescales both reduced polynomials alike: angle and phase of every hard pulse are unchanged")
t("sigpy/mri/rf/slr.py", [561, 566], "P", "one bin of the 16n-point Hilbert transform: |B| is reproduced within the stated 1e-5")
t("sigpy/mri/rf/slr.py", [528], "P", "cancel_alpha_phs path (changes the phase of beta only)")
t("sigpy/linop.py", [343, 344], "E", "all operands of an Add have the same shapes (checked just above)")
t("sigpy/linop.py", [520, 613], "E", "trailing slice(None) entries are implicit in NumPy indexing")
t("sigpy/linop.py", [863], "E", "zip stops at the shortest argument")
t("sigpy/linop.py", [1321], "S", "advertised shape of Wavelet: reported by C10 (re-run, retest.jsonl); C01 skips an operator it cannot apply")
t("sigpy/linop.py", [1776], "S", "shape-safe comparison in the conv engine (re-run: reported by C01)")


t("sigpy/alg.py", [401], "P", "which acceleration branch PDHG takes: the iterates still converge within the tolerance C13 states")
t("sigpy/app.py", [307], "P", "observable only for lamda exactly 1 (the instances use lamda in {0, 0.4})")
t("sigpy/fourier.py", [50, 47, 48, 83], "E", "the cast back to the input's precision is a no-op: NumPy's transforms already keep complex64 / complex128")
t("sigpy/fourier.py", [79], "P", "non-centred transform with oshape (C05 speaks of output shapes only for the centred transform)")
t("sigpy/interp.py", [364, 391], "E", "window widened over samples whose kernel weight is zero")
t("sigpy/mri/rf/sim.py", [47, 248, 230], "P", "sign / scale conventions of a simulator: unitarity, identity and composition (C19) hold under either")
t("sigpy/mri/rf/sim.py", [235, 262, 263, 39], "P", "magnetisation outputs / initial buffers of abrm_ptx and abrm (overwritten before use, or outside C19)")
t("sigpy/mri/rf/sim.py", [242, 103], "E", "guards of a 0/0 that multiply an exact zero")
t("sigpy/mri/rf/slr.py", [588], "E", "the extra peel-off after the last hard pulse is not read")
t("sigpy/mri/rf/slr.py", [529, 530], "P", "cancel_alpha_phs path (changes the phase of beta only)")
t("sigpy/mri/samp.py", [179, 212, 61, 222, 219, 220, 211, 230, 206, 190, 240, 237, 204, 66, 214], "P", "spacing / density / number of attempts: the mask is still binary, calibrated, cropped and at the requested acceleration, or an error is raised (C18)")
t("sigpy/mri/samp.py", [90], "E", "exact tie of the bisection")
t("sigpy/thresh.py", [176, 173, 59], "P", "hard_thresh (not the prox of a convex function: no Prox class wraps it, C11 does not cover it)")
t("sigpy/thresh.py", [93], "E", "a candidate equal to the threshold does not change the threshold")


t("sigpy/alg.py", [426], "P", "the reported residual (used only against tol; the checks run tol = 0)")
t("sigpy/app.py", [314], "P", "preconditioner / tolerance not forwarded: conjugate gradient still returns the minimiser of the documented objective")
t("sigpy/app.py", [363], "E", "an l2 term with lamda = 0")
t("sigpy/linop.py", [836], "E", "zip stops at the shortest argument")
t("sigpy/mri/app.py", [395, 419, 455, 363], "P", "JsenseRecon (no listed property beyond the protocol clause of C15)")
t("sigpy/mri/linop.py", [63], "E", "ishape equals the default the callee derives from the maps")
t("sigpy/mri/linop.py", [117], "E", "communicator branch (not reachable without MPI)")


t("sigpy/alg.py", [189], "P", "momentum sequence that still satisfies the O(1/k^2) bound of C13 on every instance (the bound is the property)")
t("sigpy/app.py", [334], "P", "observable only for lamda exactly 1 (the instances use lamda in {0, 0.4})")
t("sigpy/app.py", [388], "E", "an l2 term with lamda = 0")
t("sigpy/mri/app.py", [459], "P", "JsenseRecon (no listed property beyond the protocol clause of C15)")
t("sigpy/mri/linop.py", [72], "E", "communicator branch (not reachable without MPI)")


t("sigpy/linop.py", [1222, 1080], "S", "default shift of the Downsample / Upsample operators; advertised shape of Interpolate (the violation was tagged for a property whose check did not run the engine: registry corrected)")
t("sigpy/linop.py", [1545], "P", "Gradient (deprecated alias of FiniteDifference)")
t("sigpy/linop.py", [1938], "S", "reported by C02 (complex linearity of the dense probe), which this stream did not run")


def main():
    recs = []
    for f in sorted(glob.glob(os.path.join(HERE, "*.jsonl"))):
        if os.path.basename(f) == "retest.jsonl":
            continue
        for ln in open(f):
            recs.append(json.loads(ln))
    # one record per mutant (a file may have been sampled twice)
    uniq = {}
    for d in recs:
        uniq[(d["file"], d["line"], d["op"], tuple(d["span"]))] = d
    recs = list(uniq.values())
    per = collections.defaultdict(collections.Counter)
    unrev = []
    for d in recs:
        r = d["result"].split(":")[0]
        if r == "held":
            cls = T.get((d["file"], d["line"]), ("?", ""))[0]
            per[d["file"]]["held_" + cls] += 1
            if cls == "?":
                unrev.append(d)
        else:
            per[d["file"]][r] += 1
    tot = collections.Counter()
    print("| file | mutants | reported | not reported: equivalent | outside the properties | led to a strengthening | hang | harness error (before the fixes above) | stillborn |")
    print("|---|---|---|---|---|---|---|---|---|")
    for f in sorted(per):
        c = per[f]
        n = sum(c.values())
        row = [n, c["caught"], c["held_E"], c["held_P"], c["held_S"], c["timeout"], c["machinery"], c["stillborn"]]
        for k, v in zip("n caught E P S timeout machinery stillborn".split(), row):
            tot[k] += v
        print("| %s | %s |" % (f, " | ".join(str(v) for v in row)))
    print("| **total** | %s |" % " | ".join(str(tot[k]) for k in "n caught E P S timeout machinery stillborn".split()))
    if unrev:
        print("\nnot yet reviewed:")
        for d in unrev:
            print("  %s:%d %s %s | %s -> %s" % (d["file"], d["line"], d["op"], d["func"], d["before"][:70], d["after"][:70]))


if __name__ == "__main__":
    main()
